"""C05 — to_json is JSON-serialisable and from_json restores the same object.

G: the dataclass registry (class -> ordered fields, resolved hints, defaults, __post_init__ strips) is dumped
   from the live modules into Gen/C05Registry.v; C05/Inst.v re-decides registry_wf / hints_known / defaults_ok
   and replays the refutation witnesses on it.
D: type-directed instances of every registered dataclass, a malformed JSON stream for the deserialiser, real
   extractor outputs on the fixtures and the CLI's four JSON modes: implementation vs model (vm_compute),
   plus the property oracle evaluated directly on the implementation's outputs.
"""
from __future__ import annotations

import ast
import base64
import contextlib
import copy
import dataclasses
import hashlib
import datetime
import decimal
import inspect
import io
import json
import os
import tempfile
import textwrap
import types
import typing
from pathlib import Path

import common
from common import coq_str, coq_list, coq_bool, coq_eval_shards

MARKERS = ("_bytesio", "_bytes", "_type")
SCALARS = {"str", "int", "float", "bool"}


# ------------------------------------------------------------------------------------ Coq terms
def nlist(b) -> str:
    return "[" + ";".join(str(x) for x in b) + "]%N" if len(b) else "[]"


def cstr(x: str) -> str:
    return coq_str(x) if x else "[]"


class Tables:
    """Collects the byte strings / strings of a case whose base64 image is recorded from the real library."""

    def __init__(self):
        self.blobs: dict[bytes, None] = {}
        self.strs: dict[str, None] = {}

    def enc_table(self) -> str:
        return coq_list([f"({nlist(b)}, {cstr(base64.b64encode(b).decode('utf-8'))})" for b in self.blobs])

    def dec_table(self, extra=()) -> str:
        out = []
        for x in list(self.strs) + [base64.b64encode(b).decode("utf-8") for b in self.blobs] + list(extra):
            try:
                r = "(Some " + nlist(base64.b64decode(x.encode("utf-8"))) + ")"
            except Exception:  # noqa  (binascii.Error, UnicodeEncodeError)
                r = "None"
            out.append(f"({cstr(x)}, {r})")
        return coq_list(out)


def val_term(x, tb: Tables | None = None) -> str:
    """Python value -> Coq `val` (mirrors the order of isinstance tests of _serialize_for_json)."""
    if isinstance(x, io.BytesIO):
        c = x.getvalue()
        if tb is not None:
            tb.blobs[c] = None
        return f"(VBytesIO {nlist(c)} {x.tell()})"
    if isinstance(x, bytearray):
        if tb is not None:
            tb.blobs[bytes(x)] = None
        return f"(VBytearray {nlist(x)})"
    if isinstance(x, bytes):
        if tb is not None:
            tb.blobs[x] = None
        return f"(VBytes {nlist(x)})"
    if dataclasses.is_dataclass(x) and not isinstance(x, type):
        fl = [f"({cstr(f.name)}, {val_term(getattr(x, f.name), tb)})" for f in dataclasses.fields(x)]
        return f"(VData {cstr(type(x).__name__)} {coq_list(fl)})"
    if isinstance(x, dict):
        kv = []
        for k, v in x.items():
            kt = f"(KStr {cstr(k)})" if type(k) is str else f"(KObj {cstr(str(k))})"
            kv.append(f"({kt}, {val_term(v, tb)})")
        return f"(VDict {coq_list(kv)})"
    if isinstance(x, list):
        return f"(VList {coq_list([val_term(v, tb) for v in x])})"
    if isinstance(x, tuple):
        return f"(VTuple {coq_list([val_term(v, tb) for v in x])})"
    if isinstance(x, set):
        return f"(VSet {coq_list([val_term(v, tb) for v in x])})"
    if x is None:
        return "VNone"
    if type(x) is bool:
        return f"(VBool {coq_bool(x)})"
    if type(x) is int:
        return f"(VInt ({x})%Z)"
    if type(x) is float:
        if x != x or x in (float("inf"), float("-inf")):
            return f"(VOther {cstr('float')})"       # nan / inf: json.dumps writes NaN / Infinity, which is not JSON
        return f"(VFloat {cstr(repr(x))})"
    if type(x) is str:
        return f"(VStr {cstr(x)})"
    return f"(VOther {cstr(type(x).__name__)})"


def json_term(j, tb: Tables | None = None) -> str:
    """Output of the serialiser / json.loads -> Coq `json`."""
    if j is None:
        return "JNull"
    if type(j) is bool:
        return f"(JBool {coq_bool(j)})"
    if type(j) is int:
        return f"(JInt ({j})%Z)"
    if type(j) is float:
        if j != j or j in (float("inf"), float("-inf")):
            return f"(JOther {cstr('float')})"
        return f"(JFloat {cstr(repr(j))})"
    if type(j) is str:
        if tb is not None:
            tb.strs[j] = None
        return f"(JStr {cstr(j)})"
    if type(j) is list:
        return f"(JList {coq_list([json_term(v, tb) for v in j])})"
    if type(j) is dict and all(type(k) is str for k in j):
        return f"(JObj {coq_list([f'({cstr(k)}, {json_term(v, tb)})' for k, v in j.items()])})"
    return f"(JOther {cstr(type(j).__name__)})"


def collect_marker_strs(j, tb: Tables):
    """Strings sitting under a binary marker key: the decoder oracle is consulted for them."""
    if isinstance(j, dict):
        for k, v in j.items():
            if k in ("_bytes", "_bytesio") and isinstance(v, str):
                tb.strs[v] = None
            collect_marker_strs(v, tb)
    elif isinstance(j, list):
        for v in j:
            collect_marker_strs(v, tb)


def ty_term(h, unknown: list | None = None) -> str:
    """typing.get_type_hints value -> Coq `ty` (what the deserialiser can observe of it)."""
    if h is typing.Any:
        return "TAny"
    if h is type(None):
        return "TNone"
    if h is bytes:
        return "TBytes"
    if h is bytearray:
        return "TBytearray"
    if h is io.BytesIO:
        return "TBytesIO"
    origin = typing.get_origin(h)
    args = typing.get_args(h)
    if origin is list:
        return f"(TList {'(Some ' + ty_term(args[0], unknown) + ')' if args else 'None'})"
    if origin is dict:
        if len(args) > 1:
            return f"(TDict (Some ({ty_term(args[0], unknown)}, {ty_term(args[1], unknown)})))"
        return "(TDict None)"
    if origin is typing.Union:
        return f"(TUnion {coq_list([ty_term(a, unknown) for a in args])})"
    if origin is types.UnionType:
        return f"(TUnionPep {coq_list([ty_term(a, unknown) for a in args])})"
    if isinstance(h, type) and origin is None:
        return f"(TPrim {cstr(h.__name__)})"
    if unknown is not None:
        unknown.append(repr(h))
    return "TOpaque"


def cell_term(v) -> str:
    if v is None:
        return "CNone"
    if type(v) is str:
        return f"(CStr {cstr(v)})"
    if type(v) is bool:
        return f"(CBool {coq_bool(v)})"
    if type(v) is int:
        return f"(CInt ({v})%Z)"
    if type(v) is float:
        if v != v or v in (float("inf"), float("-inf")):
            return f"(CForeign {cstr('float')})"
        return f"(CFloat {cstr(repr(v))})"
    if isinstance(v, (datetime.datetime, datetime.date, datetime.time)):
        return f"(CDateTimeLike {cstr(v.isoformat())})"
    if isinstance(v, datetime.timedelta):
        return f"(CTimedelta {cstr(str(v))})"
    return f"(CForeign {cstr(type(v).__name__)})"


# ------------------------------------------------------------------------------------ G: registry
def post_init_strips(cls) -> tuple[list[str], list[str]]:
    """Fields X with `self.X = self.X.strip()` in __post_init__; second component = statements of a
    __post_init__ the model does not cover (fail closed)."""
    fn = getattr(cls, "__post_init__", None)
    if fn is None:
        return [], []
    src = textwrap.dedent(inspect.getsource(fn))
    fdef = ast.parse(src).body[0]
    strips, bad = [], []
    names = {f.name for f in dataclasses.fields(cls)}
    for st in fdef.body:
        if isinstance(st, ast.Expr) and isinstance(st.value, ast.Constant):
            continue  # docstring
        if isinstance(st, ast.Pass):
            continue
        if (isinstance(st, ast.Assign) and len(st.targets) == 1 and isinstance(st.targets[0], ast.Attribute)
                and isinstance(st.targets[0].value, ast.Name) and st.targets[0].value.id == "self"
                and isinstance(st.value, ast.Call) and not st.value.args and not st.value.keywords
                and isinstance(st.value.func, ast.Attribute) and st.value.func.attr == "strip"
                and isinstance(st.value.func.value, ast.Attribute) and isinstance(st.value.func.value.value, ast.Name)
                and st.value.func.value.value.id == "self" and st.value.func.value.attr == st.targets[0].attr
                and st.targets[0].attr in names):
            strips.append(st.targets[0].attr)
            continue
        # ImageMetadata: dict.__init__(self, f=self.f, ...) mirrors the fields into the dict part, which
        # neither fields() nor the serialiser looks at
        if (isinstance(st, ast.Expr) and isinstance(st.value, ast.Call) and isinstance(st.value.func, ast.Attribute)
                and st.value.func.attr == "__init__" and isinstance(st.value.func.value, ast.Name)
                and st.value.func.value.id == "dict" and issubclass(cls, dict)
                and all(isinstance(k.value, ast.Attribute) and k.arg == k.value.attr and k.arg in names
                        for k in st.value.keywords)):
            continue
        bad.append(ast.unparse(st)[:120])
    return strips, bad


def gen_registry(ctx):
    from sharepoint2text.parsing.extractors import data_types, serialization as S
    S._TYPE_REGISTRY.clear()
    reg = dict(S._get_type_registry())
    unknown, problems, rows = [], [], []
    for name, cls in reg.items():
        hints = S._get_field_types(cls)
        flds = []
        if cls.__name__ != name:
            problems.append(f"{name}: registered under a name different from __name__ {cls.__name__}")
        if not cls.__dataclass_params__.init or "__init__" not in {k for c in cls.__mro__ for k in vars(c)}:
            problems.append(f"{name}: no generated __init__")
        if "__new__" in vars(cls):
            problems.append(f"{name}: custom __new__")
        for f in dataclasses.fields(cls):
            if not f.init:
                problems.append(f"{name}.{f.name}: init=False field (cls(**kwargs) would raise)")
            h = hints.get(f.name, typing.Any)
            if f.default is not dataclasses.MISSING:
                d = "(Some " + val_term(f.default) + ")"
            elif f.default_factory is not dataclasses.MISSING:
                d = "(Some " + val_term(f.default_factory()) + ")"
            else:
                d = "None"
            flds.append(f"{{| f_name := {cstr(f.name)}; f_ty := {ty_term(h, unknown)}; f_default := {d} |}}")
            for a in _classes_in(h):
                if a.__name__ in reg and reg[a.__name__] is not a:
                    problems.append(f"{name}.{f.name}: hint class {a!r} shadows a registered name")
        strips, bad = post_init_strips(cls)
        for b in bad:
            problems.append(f"{name}.__post_init__: statement not covered by the model: {b}")
        rows.append(f"  {{| c_name := {cstr(name)};\n     c_fields := {coq_list(flds)};\n"
                    f"     c_strip := {coq_list([cstr(x) for x in strips])};\n"
                    f"     c_abstract := {coq_bool(not can_instantiate(cls))} |}}")
    ifaces = sorted(n for n in dir(data_types)
                    if isinstance(getattr(data_types, n), type) and getattr(data_types, n).__module__ == data_types.__name__
                    and not dataclasses.is_dataclass(getattr(data_types, n)))
    ws = [c for c in range(0x110000) if chr(c).isspace()]
    txt = "(* GENERATED on every check run from the live modules of the repository — do not edit. *)\n"
    txt += "From S2T Require Import Lib.PyStr C05.Model.\nImport ListNotations.\nOpen Scope N_scope.\n\n"
    txt += "Definition R : registry := [\n" + ";\n".join(rows) + "\n].\n\n"
    txt += "(* classes of data_types that are not dataclasses (Protocol interfaces): allowed in hints *)\n"
    txt += "Definition IFACES : list str := " + coq_list([cstr(x) for x in ifaces]) + ".\n\n"
    txt += "(* code points c with chr(c).isspace() *)\nDefinition WS : list N := " + nlist(ws) + ".\n"
    # witnesses built from the live classes (so that a field rename does not break them)
    wit_marker = witness_marker(reg)
    wit_clean = witness_clean(reg)
    txt += "\n(* an XLS-like sheet whose header cell is named like a marker (replayed on the real code too) *)\n"
    txt += "Definition marker_witness : val := " + val_term(wit_marker) + ".\n"
    txt += "\n(* an instance with nested dataclasses and binary payloads satisfying the round-trip hypotheses *)\n"
    txt += "Definition clean_witness : val := " + val_term(wit_clean) + ".\n"
    ctx.gen_write("Gen/C05Registry.v", txt)
    ctx.obligation("registry-dump: every hint in the modelled grammar, constructors as modelled",
                   not unknown and not problems, "; ".join(problems + ["unmodelled hint " + u for u in unknown]))
    ctx.extra["registry_classes"] = len(reg)
    ctx.extra["registry_fields"] = sum(len(dataclasses.fields(c)) for c in reg.values())
    return reg, problems + unknown


def witness_marker(reg):
    sheet = reg["XlsSheet"](name="Sheet1", data=[{"_bytes": 5, "name": "a"}], text="x")
    try:
        return reg["XlsContent"](sheets=[sheet])
    except Exception:  # noqa
        return sheet


def witness_clean(reg):
    att = reg["EmailAttachment"](filename="a.bin", mime_type="application/octet-stream", data=io.BytesIO(b"\x00\x01payload"))
    att.data.seek(3)
    return reg["EmailContent"](from_email=reg["EmailAddress"](name="A", address="a@b.c"), subject="hello",
                               to_emails=[reg["EmailAddress"](name="B", address="b@b.c")], body_plain="text",
                               attachments=[att])


def _classes_in(h):
    if isinstance(h, type):
        return [h]
    out = []
    for a in typing.get_args(h):
        out += _classes_in(a)
    return out


# ------------------------------------------------------------------------------------ instance generator
STR_VOCAB = ["", "a", "hello world", "_type", "_bytes", "_bytesio", "value", "  padded  ", "\tx\n", "aGVsbG8=", "hello",
             "DocImage", "ImageMetadata", "TableDim", "é中", "\ud800", "\U0001f600", "\x00", " x", "1",
             "None", "unit_index", "a\"b\\c", "0.5"]
KEY_VOCAB = ["k", "name", "text", "href", "level", "1", "", "Unnamed: 0", "ü", "value", "unit_index"]
OTHERS = [datetime.timedelta(seconds=5400), decimal.Decimal("1.5"), complex(1, 2), datetime.date(2020, 1, 2),
          datetime.time(1, 2, 3), object, range(3), frozenset({1})]


class Gen:
    def __init__(self, ctx, reg):
        self.rng = ctx.rng
        self.reg = reg
        from sharepoint2text.parsing.extractors import serialization as S
        self.hints = {n: S._get_field_types(c) for n, c in reg.items()}
        self.names = [n for n, c in reg.items() if can_instantiate(c)]
        self.p_marker = 0.12
        self.p_other = 0.08

    def s(self):
        return self.rng.choice(STR_VOCAB)

    def key(self):
        r = self.rng
        if r.random() < self.p_marker:
            return r.choice(MARKERS)
        return r.choice(KEY_VOCAB)

    def scalar(self):
        r = self.rng
        return r.choice([None, True, False, 0, 1, -7, 2 ** 70, 0.0, 1.5, -2.25, 1e300, float("inf"), float("nan"),
                         self.s(), self.s()])

    def blob(self):
        r = self.rng
        return bytes(r.randrange(256) for _ in range(r.choice([0, 1, 2, 3, 4, 7])))

    def bio(self):
        b = io.BytesIO(self.blob())
        b.seek(self.rng.choice([0, 0, 1, 3, 50]))
        return b

    def plain(self, depth):
        r = self.rng
        k = r.random()
        if depth >= 3 or k < 0.5:
            return self.scalar()
        if k < 0.65:
            return [self.plain(depth + 1) for _ in range(r.randrange(3))]
        if k < 0.75:
            return tuple(self.plain(depth + 1) for _ in range(r.randrange(3)))
        if k < 0.8:
            return {self.scalar_hashable() for _ in range(r.randrange(3))}
        d = {}
        for _ in range(r.randrange(3)):
            d[self.anykey()] = self.plain(depth + 1)
        return d

    def scalar_hashable(self):
        return self.rng.choice([None, True, 3, "x", 2.5, "_type"])

    def anykey(self):
        r = self.rng
        if r.random() < 0.7:
            return self.key()
        return r.choice([1, 2, None, True, 1.5, (1, 2), "1"])

    def any(self, depth):
        """Every constructor of the value universe at an Any position."""
        r = self.rng
        k = r.random()
        if k < 0.45:
            return self.scalar()
        if k < 0.55:
            return r.choice([self.blob(), bytearray(self.blob()), self.bio()])
        if k < 0.55 + self.p_other:
            return r.choice(OTHERS)
        if k < 0.7 and depth < 3:
            return self.instance(r.choice(self.names), depth + 1)
        if k < 0.9:
            return self.plain(depth)
        # containers with non-plain content (outside has_type at an untyped position)
        return r.choice([[self.blob()], (self.bio(),), {"k": self.blob()}, [[1, self.blob()]]]) if r.random() < 0.5 \
            else self.plain(depth)

    def of(self, h, depth):
        r = self.rng
        if h is typing.Any:
            return self.any(depth)
        if h is type(None):
            return None
        if h is str:
            return self.s()
        if h is int:
            return r.choice([0, 1, -1, 7, 2 ** 70, 1024])
        if h is bool:
            return r.random() < 0.5
        if h is float:
            return r.choice([0.0, 1.5, -2.25, 1e-9, 72.0])
        if h is bytes:
            return bytearray(self.blob()) if r.random() < 0.25 else self.blob()   # the serialiser accepts both
        if h is bytearray:
            return bytearray(self.blob())
        if h is io.BytesIO:
            return self.bio()
        origin, args = typing.get_origin(h), typing.get_args(h)
        if origin is list:
            n = 0 if depth >= 3 else r.randrange(3)
            return [self.of(args[0] if args else typing.Any, depth + 1) for _ in range(n)]
        if origin is dict or h is dict:
            n = r.randrange(3)
            kf = self.key if (args and args[0] is str) else self.anykey
            return {kf(): self.of(args[1] if len(args) > 1 else typing.Any, depth + 1) for _ in range(n)}
        if origin is typing.Union or origin is types.UnionType:
            a = r.choice(args)
            if depth >= 3 and type(None) in args:
                return None
            return self.of(a, depth)
        if isinstance(h, type):
            if h.__name__ in self.reg:
                subs = [n for n in self.names if issubclass(self.reg[n], h)]
                if depth >= 3 and h.__name__ in subs:
                    subs = [h.__name__]
                return self.instance(r.choice(subs), depth + 1) if subs else None
            impl = [n for n in self.names if h in self.reg[n].__mro__]
            if impl:
                return self.instance(r.choice(impl), depth + 1)
        return None

    def instance(self, name, depth=0):
        cls = self.reg[name]
        kw = {}
        for f in dataclasses.fields(cls):
            kw[f.name] = self.of(self.hints[name].get(f.name, typing.Any), depth)
            if f.name in getattr(cls, "_strip_fields_", ()):
                pass
        try:
            return cls(**kw)
        except Exception:  # e.g. __post_init__ on a None str
            for f in dataclasses.fields(cls):
                if self.hints[name].get(f.name) is str and not isinstance(kw[f.name], str):
                    kw[f.name] = "x"
            return cls(**kw)


def can_instantiate(cls) -> bool:
    """False for abstract classes and Protocol classes (their constructor raises TypeError whatever the arguments)."""
    try:
        cls(**{f.name: "" for f in dataclasses.fields(cls)})
    except TypeError as e:
        if "abstract" in str(e) or "Protocols cannot be instantiated" in str(e):
            return False
    except Exception:  # noqa
        pass
    return True


def has_marker_key(x) -> bool:
    if dataclasses.is_dataclass(x) and not isinstance(x, type):
        return any(has_marker_key(getattr(x, f.name)) for f in dataclasses.fields(x))
    if isinstance(x, dict):
        return any(str(k) in MARKERS or has_marker_key(v) for k, v in x.items())
    if isinstance(x, (list, tuple, set)):
        return any(has_marker_key(v) for v in x)
    return False


def other_leaves(x, path="") -> list[str]:
    if type(x) is float and (x != x or x in (float("inf"), float("-inf"))):
        return [f"{path}:non-finite float {x!r}"]
    if isinstance(x, (io.BytesIO, bytes, bytearray)) or x is None or type(x) in (bool, int, float, str):
        return []
    if dataclasses.is_dataclass(x) and not isinstance(x, type):
        return [p for f in dataclasses.fields(x) for p in other_leaves(getattr(x, f.name), f"{path}.{f.name}")]
    if isinstance(x, dict):
        return [p for k, v in x.items() for p in other_leaves(v, f"{path}[{k!r}]")]
    if isinstance(x, (list, tuple, set)):
        return [p for i, v in enumerate(x) for p in other_leaves(v, f"{path}[{i}]")]
    return [f"{path}:{type(x).__name__}"]


def null_binary(x):
    if isinstance(x, (io.BytesIO, bytes, bytearray)):
        return None
    if dataclasses.is_dataclass(x) and not isinstance(x, type):
        y = copy.copy(x)
        for f in dataclasses.fields(x):
            object.__setattr__(y, f.name, null_binary(getattr(x, f.name)))
        return y
    if isinstance(x, dict):
        return {k: null_binary(v) for k, v in x.items()}
    if isinstance(x, list):
        return [null_binary(v) for v in x]
    if isinstance(x, tuple):
        return tuple(null_binary(v) for v in x)
    if isinstance(x, set):
        return [null_binary(v) for v in x]
    return x


def payloads(x) -> list[bytes]:
    if isinstance(x, io.BytesIO):
        return [x.getvalue()]
    if isinstance(x, (bytes, bytearray)):
        return [bytes(x)]
    if dataclasses.is_dataclass(x) and not isinstance(x, type):
        return [p for f in dataclasses.fields(x) for p in payloads(getattr(x, f.name))]
    if isinstance(x, dict):
        return [p for v in x.values() for p in payloads(v)]
    if isinstance(x, (list, tuple, set)):
        return [p for v in x for p in payloads(v)]
    return []


def shrink_payloads(x):
    """Cut every binary payload of an extraction result to 6 bytes, in place (shared image objects stay shared)."""
    seen = set()

    def cut(v):
        if isinstance(v, io.BytesIO):
            return io.BytesIO(v.getvalue()[:6])
        if isinstance(v, bytearray):
            return bytearray(v[:6])
        if isinstance(v, bytes):
            return v[:6]
        walk(v)
        return v

    def walk(v):
        if id(v) in seen:
            return
        seen.add(id(v))
        if dataclasses.is_dataclass(v) and not isinstance(v, type):
            for f in dataclasses.fields(v):
                object.__setattr__(v, f.name, cut(getattr(v, f.name)))
        elif isinstance(v, dict):
            for k in list(v):
                v[k] = cut(v[k])
        elif isinstance(v, list):
            for i in range(len(v)):
                v[i] = cut(v[i])

    walk(x)
    return x


def binary_marker_paths(j, path="$") -> list[str]:
    """Positions of {"_bytes": <non-null>} / {"_bytesio": <non-null>} in a parsed JSON document."""
    out = []
    if isinstance(j, dict):
        for k, v in j.items():
            if k in ("_bytes", "_bytesio") and v is not None:
                out.append(f"{path}.{k}")
            out += binary_marker_paths(v, f"{path}.{k}")
    elif isinstance(j, list):
        for i, v in enumerate(j):
            out += binary_marker_paths(v, f"{path}[{i}]")
    return out


def jtext(j) -> str:
    """Comparable text of a serialiser output; never raises (a foreign leaf is rendered by type and repr)."""
    return json.dumps(j, default=lambda o: {"__foreign__": type(o).__name__, "repr": repr(o)[:120]})


def typed(x):
    """Deep canonical view of a Python value up to container kinds only (tuple/set/list -> seq, bytearray -> bytes,
    BytesIO position ignored); dict key TYPES, scalar types, entry order and dataclass classes are kept.
    typed(original) == typed(restored) is `restored = norm original` of C05_roundtrip_same_object."""
    if isinstance(x, io.BytesIO):
        return ("bytes", x.getvalue().hex())
    if isinstance(x, (bytes, bytearray)):
        return ("bytes", bytes(x).hex())
    if dataclasses.is_dataclass(x) and not isinstance(x, type):
        return ("data", type(x).__name__, [(f.name, typed(getattr(x, f.name))) for f in dataclasses.fields(x)])
    if isinstance(x, dict):
        return ("dict", [(typed(k), typed(v)) for k, v in x.items()])
    if isinstance(x, (list, tuple, set, frozenset)):
        return ("seq", [typed(v) for v in x])
    if type(x) is str and " at 0x" in x:
        # a text built with str()/repr() of an object (e.g. a BytesIO sitting in a cell) carries a memory address
        return ("str", repr(_ADDR.sub(" at 0x?", x)))
    return (type(x).__name__, repr(x))


_ADDR = __import__("re").compile(r" at 0x[0-9a-fA-F]+")


def universe_problems(x, path="") -> list[str]:
    """Leaves outside the modelled value universe that json would nevertheless accept (subclasses of str/int/float/
    list/dict/tuple, e.g. lxml's _ElementUnicodeResult) and closed BytesIO buffers (to_json would raise ValueError)."""
    if isinstance(x, io.BytesIO):
        return [f"{path}: closed BytesIO"] if x.closed else []
    if dataclasses.is_dataclass(x) and not isinstance(x, type):
        return [p for f in dataclasses.fields(x) for p in universe_problems(getattr(x, f.name), f"{path}.{f.name}")]
    if isinstance(x, dict):
        own = [] if type(x) is dict else [f"{path}: dict subclass {type(x).__name__}"]
        return own + [p for k, v in x.items() for p in universe_problems(v, f"{path}[{k!r}]")]
    if isinstance(x, (list, tuple, set)):
        own = [] if type(x) in (list, tuple, set) else [f"{path}: {type(x).__name__} (sequence subclass)"]
        return own + [p for i, v in enumerate(x) for p in universe_problems(v, f"{path}[{i}]")]
    if isinstance(x, (str, int, float)) and type(x) not in (str, int, float, bool):
        return [f"{path}: {type(x).__name__} (subclass of {[b.__name__ for b in type(x).__mro__ if b in (str, int, float)][0]})"]
    return []


def py_norm(x):
    """Python counterpart of the model's `norm`: a deep copy of x with tuple/set -> list, bytearray -> bytes and every
    BytesIO replaced by a fresh one at position 0; dict keys, entry order, classes and all other leaves unchanged.
    C05_roundtrip_same_object says the restored object IS norm x, so every derived view (text built with str() of a
    cell, tables, units) is compared between py_norm(original) and restored — not between original and restored:
    str(bytearray(b'..')) and str(b'..') differ although the payload is the same."""
    if isinstance(x, io.BytesIO):
        return io.BytesIO(x.getvalue())
    if isinstance(x, (bytes, bytearray)):
        return bytes(x)
    if dataclasses.is_dataclass(x) and not isinstance(x, type):
        y = copy.copy(x)
        for f in dataclasses.fields(x):
            object.__setattr__(y, f.name, py_norm(getattr(x, f.name)))
        return y
    if isinstance(x, dict):
        d = {k: py_norm(v) for k, v in x.items()}
        if type(x) is dict:
            return d
        try:                      # dict subclasses (ImageMetadata is handled above as a dataclass)
            y = copy.copy(x)
            y.clear()
            y.update(d)
            return y
        except Exception:  # noqa
            return d
    if isinstance(x, (list, tuple, set, frozenset)):
        return [py_norm(v) for v in x]
    return copy.copy(x) if not isinstance(x, (str, int, float, bool, type(None))) else x


def nonstring_keys(x, path="") -> list[str]:
    """Dict keys that are not str, anywhere in the value."""
    if dataclasses.is_dataclass(x) and not isinstance(x, type):
        return [p for f in dataclasses.fields(x) for p in nonstring_keys(getattr(x, f.name), f"{path}.{f.name}")]
    if isinstance(x, dict):
        return [f"{path}[{k!r}]:{type(k).__name__}" for k in x if type(k) is not str] + \
               [p for k, v in x.items() for p in nonstring_keys(v, f"{path}[{k!r}]")]
    if isinstance(x, (list, tuple, set)):
        return [p for i, v in enumerate(x) for p in nonstring_keys(v, f"{path}[{i}]")]
    return []


def accessor_views(o) -> dict:
    """The views the property statement names, with types kept: full text, unit texts and unit objects, tables
    (get_table / get_dim), image and attachment bytes.  An accessor that raises on the ORIGINAL is left out."""
    out = {}

    def put(name, fn):
        try:
            out[name] = fn()
        except Exception:  # noqa  (generated instances need not support every accessor)
            pass

    if hasattr(o, "get_full_text"):
        put("get_full_text", lambda: typed(o.get_full_text()))
    if hasattr(o, "iterate_units"):
        put("units", lambda: [(typed(u.get_text()) if hasattr(u, "get_text") else None, typed(u)) for u in o.iterate_units()])
    if hasattr(o, "iterate_tables"):
        put("tables", lambda: [(typed(tb.get_table()), typed(tb.get_dim())) for tb in o.iterate_tables()])
    if hasattr(o, "iterate_images"):
        put("images", lambda: [typed(im) for im in o.iterate_images()])
    if hasattr(o, "get_table"):
        put("get_table", lambda: (typed(o.get_table()), typed(o.get_dim())))
    return out


def bio_positions(x) -> list[int]:
    if isinstance(x, io.BytesIO):
        return [x.tell()]
    if dataclasses.is_dataclass(x) and not isinstance(x, type):
        return [p for f in dataclasses.fields(x) for p in bio_positions(getattr(x, f.name))]
    if isinstance(x, dict):
        return [p for v in x.values() for p in bio_positions(v)]
    if isinstance(x, (list, tuple, set)):
        return [p for v in x for p in bio_positions(v)]
    return []


def roundtrip_impl(x):
    """(restored object | None, error text, stage)"""
    from sharepoint2text.parsing.extractors.data_types import ExtractionInterface
    try:
        tj = x.to_json() if hasattr(x, "to_json") else None
        if tj is None:
            from sharepoint2text.parsing.extractors.serialization import serialize_extraction
            tj = serialize_extraction(x)
    except Exception as e:  # noqa
        return None, repr(e), "to_json"
    try:
        text = json.dumps(tj, allow_nan=False)      # standard JSON: NaN / Infinity tokens are not JSON
    except Exception as e:  # noqa
        return None, repr(e), "dumps"
    try:
        return ExtractionInterface.from_json(json.loads(text)), "", "ok"
    except Exception as e:  # noqa
        return None, repr(e), "from_json"


def same_object_views(x, y, strict: bool = True) -> list[str]:
    """What the property statement lists: type, to_json (both modes); with strict also deep equality of the object
    (dict key types included), binary payloads, full text, every unit, every table's get_table()/get_dim(), images."""
    from sharepoint2text.parsing.extractors.serialization import serialize_extraction
    diffs = []
    if type(x) is not type(y):
        return [f"type {type(x).__name__} -> {type(y).__name__}"]
    for ib in (True, False):
        try:
            if jtext(serialize_extraction(x, include_binary=ib)) != jtext(serialize_extraction(y, include_binary=ib)):
                diffs.append(f"to_json differs (include_binary={ib})")
        except Exception as e:  # noqa
            diffs.append("to_json of restored raises " + repr(e))
    if not strict:
        return diffs
    if payloads(x) != payloads(y):
        diffs.append("binary payloads differ")
    if typed(x) != typed(y):
        diffs.append("restored object differs from the original (deep comparison incl. dict key types): "
                     + first_typed_diff(typed(x), typed(y)))
    try:
        xa = accessor_views(py_norm(x))     # views of `norm x`, the object the theorem says comes back
    except Exception:  # noqa
        xa = {}
    for name, a in xa.items():
        try:
            b = accessor_views(copy.deepcopy(y)).get(name, "<accessor raises on the restored object>")
        except Exception as e:  # noqa
            b = repr(e)
        if a != b:
            diffs.append(f"{name} differs: " + first_typed_diff(a, b))
    return diffs


def first_typed_diff(a, b, path="$") -> str:
    if type(a) is not type(b) or not isinstance(a, (tuple, list)):
        return f"{path}: {str(a)[:80]} -> {str(b)[:80]}" if a != b else ""
    if len(a) != len(b):
        return f"{path}: length {len(a)} -> {len(b)}"
    for i, (u, v) in enumerate(zip(a, b)):
        d = first_typed_diff(u, v, f"{path}.{i}")
        if d:
            return d
    return ""


# ------------------------------------------------------------------------------------ malformed JSON stream
class JGen:
    def __init__(self, ctx, reg, hint_pool):
        self.rng = ctx.rng
        self.reg = reg
        self.names = list(reg)
        self.hint_pool = hint_pool

    def s(self):
        return self.rng.choice(STR_VOCAB + ["aGk=", "AAEC", "QQ==", "QQ", "a", "!!!!", "=", "aGk=aGk="] + self.names[:6])

    def scalar(self):
        return self.rng.choice([None, True, False, 0, 5, -3, 1.5, 0.0, self.s(), self.s()])

    def value(self, depth=0):
        r = self.rng
        k = r.random()
        if depth >= 4 or k < 0.3:
            return self.scalar()
        if k < 0.45:
            return [self.value(depth + 1) for _ in range(r.randrange(4))]
        if k < 0.55:
            return {r.choice(["_bytes", "_bytesio"]): r.choice([self.s(), self.s(), 5, None, [self.s()]]),
                    **({self.s(): self.scalar()} if r.random() < 0.3 else {})}
        if k < 0.8:
            return self.dc(depth)
        d = {}
        for _ in range(r.randrange(4)):
            d[r.choice(KEY_VOCAB + list(MARKERS) + ["image_index", "unit_number"])] = self.value(depth + 1)
        return d

    def dc(self, depth):
        """A dict shaped like a serialised dataclass, perturbed."""
        r = self.rng
        name = r.choice(self.names + ["ImageMetadata"] * 8 + ["TableDim", "EmailAddress"] * 3)
        cls = self.reg[name]
        d = {}
        tn = r.random()
        if tn < 0.7:
            d["_type"] = name
        elif tn < 0.8:
            d["_type"] = r.choice(["Nope", "", 0, 5, None, True, [], ["DocImage"], {}, {"a": 1}, 1.5, "str"])
        for f in dataclasses.fields(cls):
            if r.random() < 0.85:
                d[f.name] = self.value(depth + 1) if r.random() < 0.5 else self.typed(f, depth)
        if name == "ImageMetadata":
            for old, new in (("unit_index", "unit_number"), ("image_index", "image_number")):
                if r.random() < 0.5:
                    d[old] = r.choice([1, 2, None, "x"])
                if r.random() < 0.4:
                    d.pop(new, None)
        if r.random() < 0.2:
            d[r.choice(["extra", "_bytes", "_bytesio", "unit_index"])] = self.scalar()
        if r.random() < 0.3:
            items = list(d.items())
            r.shuffle(items)
            d = dict(items)
        return d

    def typed(self, f, depth):
        r = self.rng
        t = str(f.type)
        if "str" in t:
            return self.s()
        if "int" in t:
            return r.choice([0, 1, None])
        if "bytes" in t or "BytesIO" in t:
            return r.choice([{"_bytes": "aGk="}, {"_bytesio": "aGk="}, "aGk=", "QQ", None, 5])
        if "ist" in t:
            return [self.value(depth + 1) for _ in range(r.randrange(3))]
        return self.value(depth + 1)

    def hint(self):
        return self.rng.choice(self.hint_pool)


def extra_hints(reg):
    D = reg
    return [typing.Any, str, int, bytes, bytearray, io.BytesIO, type(None), typing.Optional[bytes], bytes | None,
            typing.Optional[io.BytesIO], typing.List[bytes], list[bytes], typing.List, typing.Dict, list, dict,
            typing.Dict[str, io.BytesIO], typing.Dict[str, typing.Any], typing.Union[int, str],
            typing.Union[int, str, None], typing.Optional[D["ImageMetadata"]], D["ImageMetadata"], D["TableDim"],
            D["ImageMetadata"] | None, typing.Optional[typing.List[D["TableDim"]]], tuple[int, ...],
            typing.Optional[typing.Optional[str]], D["EmailAddress"], typing.List[D["EmailAddress"]],
            typing.Dict[str, D["TableDim"]], typing.Tuple[bytes], set[int]]


# ------------------------------------------------------------------------------------ fixtures / documents
def fixture_files():
    root = common.REPO / "sharepoint2text" / "tests" / "resources"
    return sorted(p for p in root.rglob("*") if p.is_file())


def make_xlsx_cases(td: Path):
    """Generated workbooks: duration / time / date / bool / error / marker-named header cells."""
    from openpyxl import Workbook
    out = []
    wb = Workbook()
    ws = wb.active
    ws.append(["name", "when", "flag", "num"])
    ws.append(["a", datetime.datetime(2020, 1, 2, 3, 4, 5), True, 1.5])
    ws.append(["b", datetime.date(2021, 2, 3), False, 7])
    ws.append(["c", datetime.time(1, 2, 3), None, "#DIV/0!"])
    p = td / "plain_cells.xlsx"
    wb.save(p)
    out.append(("xlsx-datetime-bool-cells", p))
    wb = Workbook()
    ws = wb.active
    ws.append(["_type", "_bytes", "_bytesio"])
    ws.append(["DocImage", "hello", 5])
    p = td / "marker_cells.xlsx"
    wb.save(p)
    out.append(("xlsx-marker-named-cells", p))
    wb = Workbook()
    ws = wb.active
    ws.append(["task", "duration"])
    ws.append(["build", datetime.timedelta(hours=1, minutes=30)])
    p = td / "duration_cell.xlsx"
    wb.save(p)
    out.append(("xlsx-duration-cell", p))
    return out


CODEC_HELPERS = ("_bytes_to_base64", "_base64_to_bytes", "_bytesio_to_base64", "_base64_to_bytesio")


def codec_ast_problems() -> tuple[list[str], list[int]]:
    """X-tie for the codec helpers of serialization.py.  The model says: the whole content is encoded / decoded by ONE
    base64 call (serialize uses enc(content), deser uses dec(string)).  Fail closed on anything else: a loop or
    comprehension, more or fewer than one b64encode/b64decode call, a sized read(n), slicing, string joining, or an
    integer constant other than 0 inside a helper.  Also returns every integer constant (> 8) of the module — literal,
    constant-folded expression or module attribute — as boundary candidates for the payload-size generator."""
    from sharepoint2text.parsing.extractors import serialization as S
    tree = ast.parse(inspect.getsource(S))
    problems, consts = [], set()
    for n in ast.walk(tree):
        if isinstance(n, ast.Constant) and type(n.value) is int:
            consts.add(n.value)
        if isinstance(n, ast.BinOp):
            try:
                if all(isinstance(x, (ast.Constant, ast.BinOp, ast.operator, ast.UnaryOp, ast.unaryop)) for x in ast.walk(n)):
                    v = eval(compile(ast.Expression(n), "<const>", "eval"), {"__builtins__": {}})  # constants only
                    if type(v) is int:
                        consts.add(v)
            except Exception:  # noqa
                pass
    for k, v in vars(S).items():
        if type(v) is int:
            consts.add(v)
    funcs = {n.name: n for n in tree.body if isinstance(n, ast.FunctionDef)}
    for name in CODEC_HELPERS:
        fn = funcs.get(name)
        if fn is None:
            problems.append(f"{name} not found in serialization.py (translator out of date)")
            continue
        calls = [c for c in ast.walk(fn) if isinstance(c, ast.Call)]
        b64 = [c for c in calls if isinstance(c.func, ast.Attribute) and c.func.attr in ("b64encode", "b64decode")]
        if len(b64) != 1:
            problems.append(f"{name}: {len(b64)} base64 calls (the model has exactly one, on the whole content)")
        if any(isinstance(c.func, ast.Attribute) and c.func.attr.startswith(("b32", "b16", "a85", "b85", "urlsafe", "encodebytes", "decodebytes"))
               for c in calls):
            problems.append(f"{name}: a different codec is used")
        for n in ast.walk(fn):
            if isinstance(n, (ast.For, ast.While, ast.ListComp, ast.GeneratorExp, ast.SetComp, ast.DictComp)):
                problems.append(f"{name}: contains a loop/comprehension (line {n.lineno})")
            if isinstance(n, ast.Subscript):
                problems.append(f"{name}: slices/indexes data (line {n.lineno})")
            if isinstance(n, ast.Constant) and type(n.value) is int and n.value != 0:
                problems.append(f"{name}: integer constant {n.value}")
            if isinstance(n, ast.Name) and isinstance(n.ctx, ast.Load) and type(vars(S).get(n.id)) is int:
                problems.append(f"{name}: uses the module constant {n.id} = {vars(S)[n.id]}")
            if isinstance(n, ast.Call) and isinstance(n.func, ast.Attribute) and n.func.attr == "read" and (n.args or n.keywords):
                problems.append(f"{name}: sized read() (line {n.lineno})")
            if isinstance(n, ast.Call) and isinstance(n.func, ast.Attribute) and n.func.attr == "join":
                problems.append(f"{name}: joins pieces (line {n.lineno})")
            if isinstance(n, ast.Call) and isinstance(n.func, ast.Attribute) and n.func.attr in ("b64encode", "b64decode") \
                    and (len(n.args) != 1 or n.keywords):
                problems.append(f"{name}: base64 call with options (line {n.lineno})")
    return sorted(set(problems)), sorted(c for c in consts if 8 < c <= 8 * 1024 * 1024)


def state_inventory_problems() -> list[str]:
    """The model's serialize/deser are pure functions of the value.  Fail closed on module state in serialization.py other
    than the lazily filled type registry: a module-level mutable container, a caching decorator, a `global` statement."""
    from sharepoint2text.parsing.extractors import serialization as S
    tree = ast.parse(inspect.getsource(S))
    problems = []
    for st in tree.body:
        targets, value = [], None
        if isinstance(st, ast.Assign):
            targets, value = [x.id for tg in st.targets for x in ast.walk(tg) if isinstance(x, ast.Name)], st.value
        elif isinstance(st, ast.AnnAssign) and isinstance(st.target, ast.Name):
            targets, value = [st.target.id], st.value
        if value is not None and isinstance(value, (ast.Dict, ast.List, ast.Set, ast.DictComp, ast.ListComp, ast.SetComp, ast.Call)):
            for name in targets:
                if name != "_TYPE_REGISTRY":
                    problems.append(f"module-level mutable/constructed object {name} = {ast.unparse(value)[:40]}")
    for name, obj in vars(S).items():
        if isinstance(obj, (dict, list, set)) and name != "_TYPE_REGISTRY" and not name.startswith("__") \
                and getattr(obj, "__module__", None) is None:
            if not any(name in p_ for p_ in problems):
                problems.append(f"module attribute {name} is a {type(obj).__name__}")
    for n in ast.walk(tree):
        if isinstance(n, ast.Global):
            problems.append(f"global statement (line {n.lineno})")
        if isinstance(n, (ast.FunctionDef, ast.AsyncFunctionDef)):
            for d in n.decorator_list:
                if "cache" in ast.unparse(d):
                    problems.append(f"{n.name} is decorated with {ast.unparse(d)}")
    return problems


def boundary_sizes(consts: list[int], tier_quick: bool) -> list[int]:
    """Payload lengths around every power of two up to 2 MiB and around every integer constant of serialization.py
    (c-1, c, c+1, 2c-1, 2c, 2c+1, 3c+1), plus the residues mod 3 of small lengths."""
    sizes = set(range(0, 8))
    for k in range(6, 22):
        if tier_quick and 16 < k < 20:
            continue                      # quick tier: 2^6..2^16, 2^20, 2^21 (thorough: every k)
        sizes |= {2 ** k - 1, 2 ** k, 2 ** k + 1}
    sizes |= {3 * 2 ** 20 + 1} if not tier_quick else set()
    for c in consts:
        sizes |= {c - 1, c, c + 1, 2 * c - 1, 2 * c, 2 * c + 1, 3 * c + 1}
    return sorted(x for x in sizes if 0 <= x <= 25 * 1024 * 1024)


def cli_ast_problems() -> list[str]:
    """X-tie for cli.py: the include_binary flag reaches every serialiser call explicitly.
    * every call of serialize_extraction / _serialize_for_json / a cli-local _serialize_* function that takes the flag
      passes `include_binary=<Name include_binary>`;
    * a function of cli.py with an include_binary parameter gives it no default and never rebinds it;
    * in main, include_binary is bound exactly once, from an expression over args.binary only.
    Helper functions may be introduced freely as long as they hand the flag on."""
    from sharepoint2text import cli
    tree = ast.parse(inspect.getsource(cli))
    problems = []
    funcs = {n.name: n for n in ast.walk(tree) if isinstance(n, (ast.FunctionDef, ast.AsyncFunctionDef))}

    def params(fn):
        a = fn.args
        return [x.arg for x in a.posonlyargs + a.args + a.kwonlyargs]

    takes_flag = {name for name, fn in funcs.items() if "include_binary" in params(fn)} | \
                 {"serialize_extraction", "_serialize_for_json"}
    for name, fn in funcs.items():
        a = fn.args
        if "include_binary" in params(fn):
            pos = a.posonlyargs + a.args
            defaults = dict(zip([x.arg for x in pos[len(pos) - len(a.defaults):]], a.defaults))
            defaults.update({k.arg: d for k, d in zip(a.kwonlyargs, a.kw_defaults) if d is not None})
            if "include_binary" in defaults:
                problems.append(f"{name}: include_binary has a default ({ast.unparse(defaults['include_binary'])})")
        binds = [n for n in ast.walk(fn) if isinstance(n, (ast.Assign, ast.AugAssign, ast.AnnAssign, ast.NamedExpr))
                 and any(isinstance(x, ast.Name) and x.id == "include_binary" for tgt in
                         (n.targets if isinstance(n, ast.Assign) else [n.target]) for x in ast.walk(tgt))]
        if "include_binary" in params(fn) and binds:
            problems.append(f"{name}: rebinds include_binary")
        if "include_binary" not in params(fn) and binds:
            ok = (len(binds) == 1 and isinstance(binds[0], ast.Assign) and
                  {ast.unparse(x) for x in ast.walk(binds[0].value) if isinstance(x, ast.Attribute)} == {"args.binary"} and
                  all(isinstance(x, (ast.Attribute, ast.Name, ast.Call, ast.Load)) for x in ast.walk(binds[0].value)) and
                  {x.id for x in ast.walk(binds[0].value) if isinstance(x, ast.Name)} <= {"args", "bool"})
            if not ok:
                problems.append(f"{name}: include_binary is not bound once from args.binary: "
                                + "; ".join(ast.unparse(b) for b in binds)[:160])
        for call in [n for n in ast.walk(fn) if isinstance(n, ast.Call)]:
            callee = call.func.id if isinstance(call.func, ast.Name) else (call.func.attr if isinstance(call.func, ast.Attribute) else None)
            if callee in takes_flag:
                kw = [k for k in call.keywords if k.arg == "include_binary"]
                if any(k.arg is None for k in call.keywords):
                    problems.append(f"{name}: {callee}(**...) hides the flag")
                elif not kw:
                    problems.append(f"{name}: call {ast.unparse(call)[:80]} does not pass include_binary")
                elif not (isinstance(kw[0].value, ast.Name) and kw[0].value.id == "include_binary"):
                    problems.append(f"{name}: call of {callee} passes include_binary={ast.unparse(kw[0].value)[:40]}")
    # the flag is only ever handed on: every read of include_binary inside a function that receives it is the value
    # of an include_binary= keyword of a serialiser call (no `x if include_binary else strip(x)` post-processing)
    for name, fn in funcs.items():
        if "include_binary" not in params(fn):
            continue
        passed = {id(k.value) for c in ast.walk(fn) if isinstance(c, ast.Call) for k in c.keywords
                  if k.arg == "include_binary" and
                  (c.func.id if isinstance(c.func, ast.Name) else getattr(c.func, "attr", None)) in takes_flag}
        reads = [n for n in ast.walk(fn) if isinstance(n, ast.Name) and n.id == "include_binary" and isinstance(n.ctx, ast.Load)]
        if not reads:
            problems.append(f"{name}: receives include_binary but never hands it to a serialiser")
        for n in reads:
            if id(n) not in passed:
                problems.append(f"{name}: include_binary is used for something else than handing it to a serialiser (line {n.lineno})")
    # the JSON comes from the serialiser, never from to_json() plus post-processing
    for n in ast.walk(tree):
        if isinstance(n, ast.Call) and isinstance(n.func, ast.Attribute) and n.func.attr == "to_json":
            problems.append(f"cli.py calls to_json() (line {n.lineno}): the payload must come from serialize_extraction with the flag")
    dumps = [n for n in ast.walk(tree) if isinstance(n, ast.Call) and isinstance(n.func, ast.Attribute)
             and n.func.attr in ("dumps", "dump") and isinstance(n.func.value, ast.Name) and n.func.value.id == "json"]
    if not dumps:
        problems.append("no json.dumps/json.dump call found in cli.py (translator out of date)")
    for d in dumps:
        arg = d.args[0] if d.args else None
        if not isinstance(arg, ast.Name):
            problems.append(f"json.{d.func.attr} argument is not a plain variable (line {d.lineno})")
            continue
        binds = [a for a in ast.walk(tree) if isinstance(a, ast.Assign)
                 and any(isinstance(x, ast.Name) and x.id == arg.id for tg in a.targets for x in ast.walk(tg))]
        calls = [c for b_ in binds for c in ast.walk(b_.value) if isinstance(c, ast.Call)]
        callees = [(c.func.id if isinstance(c.func, ast.Name) else getattr(c.func, "attr", None)) for c in calls]
        if len(binds) != 1 or not calls or any(c not in takes_flag for c in callees):
            problems.append(f"the value given to json.{d.func.attr} ({arg.id}) is not bound once to the result of the "
                            f"flag-taking serialiser functions only (calls: {callees})")
    # the library is called with the path exactly as the user gave it (no resolve()/expanduser()/absolute()): the CLI's
    # JSON is the JSON of read_file(<that path>), whose metadata reports that path's name, extension and folder
    rf = [n for n in ast.walk(tree) if isinstance(n, ast.Call) and
          (getattr(n.func, "attr", None) == "read_file" or getattr(n.func, "id", None) == "read_file")]
    if len(rf) != 1:
        problems.append(f"{len(rf)} read_file calls in cli.py (the model has exactly one)")
    for c in rf:
        if len(c.args) != 1 or c.keywords or ast.unparse(c.args[0]) != "args.path":
            problems.append(f"read_file is not called with the user's argument itself: read_file({', '.join(ast.unparse(a) for a in c.args)})")
    if not any(isinstance(n, ast.Call) and (getattr(n.func, "id", None) or getattr(n.func, "attr", None)) in takes_flag
               for n in ast.walk(tree)):
        problems.append("no serialiser call found in cli.py (translator out of date)")
    return problems


def make_ods_cases(td: Path):
    """An .ods whose numeric cells carry office:value NaN / inf / -inf / 1e999 / 1e300 / 0.5 (fixture's first float cells
    rewritten; the zip is rebuilt member by member, mimetype first and stored)."""
    import re
    import zipfile
    src = common.REPO / "sharepoint2text" / "tests" / "resources" / "open_office" / "sample_spreadsheet.ods"
    try:
        zin = zipfile.ZipFile(src)
        content = zin.read("content.xml").decode("utf-8")
    except Exception as e:  # noqa
        return [], [repr(e)]
    values = iter(["NaN", "inf", "-inf", "1e999", "1e300", "0.5", "nan", "-0.0"])
    n = [0]

    def sub(m):
        try:
            v = next(values)
        except StopIteration:
            return m.group(0)
        n[0] += 1
        return f'office:value-type="float" office:value="{v}"'

    content2 = re.sub(r'office:value-type="float" office:value="[^"]*"', sub, content)
    if n[0] < 4:
        return [], [f"only {n[0]} float cells found in sample_spreadsheet.ods"]
    q = td / "nonfinite_cells.ods"
    with zipfile.ZipFile(q, "w") as zout:
        for info in zin.infolist():
            data = content2.encode("utf-8") if info.filename == "content.xml" else zin.read(info.filename)
            zout.writestr(info.filename, data, compress_type=zipfile.ZIP_STORED if info.filename == "mimetype" else zipfile.ZIP_DEFLATED)
    return [("ods-non-finite-float-cells", q)], []


def doc_replay(label: str, p: Path) -> dict:
    """Replay entry for a document: fixtures by path; generated files (temporary) inline as base64."""
    d = {"input": label, "document": str(p)}
    try:
        if not label.startswith(("fixture:", "generated:xls-result", "shrunk:")) and p.is_file() and p.stat().st_size < 200_000:
            d["document_base64"] = base64.b64encode(p.read_bytes()).decode("ascii")
            d["document_note"] = "generated for this run; write document_base64 to a file with the same suffix to replay"
    except Exception:  # noqa
        pass
    return d


def make_xls_cases(td: Path):
    """Legacy .xls inputs derived from the fixture mwe.xls (header row colA, colB) by in-place record patches (no
    XLS writer is installed): (1) header cell B1 turned from a LABELSST into an RK number record holding 2020 — a
    numeric header cell; (2) the two shared strings replaced by "_bytesio" and "" — a header cell named like a marker."""
    import re
    import struct
    src = common.REPO / "sharepoint2text" / "tests" / "resources" / "legacy_ms" / "mwe.xls"
    out = []
    try:
        raw = src.read_bytes()
    except Exception:  # noqa
        return out, ["mwe.xls missing"]
    problems = []
    hits = [m.start() for m in re.finditer(rb"\xfd\x00\x0a\x00\x00\x00\x01\x00", raw)]
    if len(hits) == 1:
        b = bytearray(raw)
        b[hits[0]:hits[0] + 2] = b"\x7e\x02"
        b[hits[0] + 10:hits[0] + 14] = struct.pack("<I", (2020 << 2) | 2)
        q = td / "numeric_header.xls"
        q.write_bytes(bytes(b))
        out.append(("xls-numeric-header-cell", q))
    else:
        problems.append("LABELSST record of B1 not found in mwe.xls")
    sst = b"\x04\x00\x00colA\x04\x00\x00colB"
    if raw.count(sst) == 1:
        q = td / "marker_header.xls"
        q.write_bytes(raw.replace(sst, b"\x08\x00\x00_bytesio\x00\x00\x00"))
        out.append(("xls-marker-named-header", q))
    else:
        problems.append("shared strings colA/colB not found in mwe.xls")
    return out, problems


PATH_FORM_LAYOUT = ("store/notes-v2.md (markdown text), store/blob (same text, no extension), store/table.csv; "
                    "view/notes.txt -> ../store/notes-v2.md, view/readme.md -> ../store/blob, view/again.txt -> notes.txt, "
                    "linkdir -> store, view/data.tsv -> ../store/table.csv (all symbolic links)")


def make_path_forms(td: Path):
    """(label, cwd, argument) — spellings of a path argument; every one is a file the library can read."""
    root = td / "forms"
    (root / "store").mkdir(parents=True)
    (root / "view").mkdir()
    (root / "store" / "notes-v2.md").write_text("# Notes\n\nsecond version\n", encoding="utf-8")
    (root / "store" / "blob").write_text("content-addressed blob\nline 2\n", encoding="utf-8")
    (root / "store" / "table.csv").write_text("a,b\n1,2\n", encoding="utf-8")
    os.symlink("../store/notes-v2.md", root / "view" / "notes.txt")
    os.symlink("../store/blob", root / "view" / "readme.md")
    os.symlink("notes.txt", root / "view" / "again.txt")
    os.symlink("store", root / "linkdir")
    os.symlink("../store/table.csv", root / "view" / "data.tsv")
    forms = [
        ("symlink:other-name-and-extension", root, str(root / "view" / "notes.txt")),
        ("symlink:target-without-extension", root, str(root / "view" / "readme.md")),
        ("symlink:link-to-link", root, str(root / "view" / "again.txt")),
        ("symlink:relative-argument", root, "view/notes.txt"),
        ("symlink:linked-directory", root, str(root / "linkdir" / "notes-v2.md")),
        ("symlink:other-extension-same-family", root, "view/data.tsv"),
        ("relative:plain", root, "store/notes-v2.md"),
        ("relative:dot-and-dotdot", root / "view", "./../store/table.csv"),
        ("regular:absolute", root, str(root / "store" / "notes-v2.md")),
    ]
    return forms


def run_cli(argv):
    from sharepoint2text import cli
    out, err = io.StringIO(), io.StringIO()
    with contextlib.redirect_stdout(out), contextlib.redirect_stderr(err):
        try:
            rc = cli.main(argv)
        except SystemExit as e:  # noqa
            rc = e.code
    return rc, out.getvalue(), err.getvalue()


# ------------------------------------------------------------------------------------ run
from concurrent.futures import ThreadPoolExecutor  # noqa: E402
POOL = ThreadPoolExecutor(max_workers=6)

PRE = ("From S2T Require Import Lib.PyStr C05.Model C05.Corr Gen.C05Registry.\nImport ListNotations.\n"
       "Open Scope N_scope.\n")


def run(ctx):
    import logging
    logging.disable(logging.CRITICAL)
    import sharepoint2text
    from sharepoint2text.parsing.extractors import serialization as S
    from sharepoint2text.parsing.extractors.data_types import ExtractionInterface

    ctx.rule = ("instances: every registered dataclass populated from its resolved hints (strings and dict keys from a "
                "vocabulary containing the markers, Any positions over every value constructor), a perturbed JSON "
                "stream for the deserialiser, extractor outputs on all fixtures + generated XLSX, CLI four JSON modes; "
                "non-trivial = instance with >=1 nested dataclass or binary field (or a JSON input with a marker key)")
    ctx.trusted += [
        "G-dump: tools/props/c05.py prints the lazily built _TYPE_REGISTRY (fields(), typing.get_type_hints, "
        "defaults/default_factory(), __post_init__ statements via ast — unknown statements fail closed), the "
        "str.isspace code points and the non-dataclass interface names as Coq literals",
        "base64: executable RFC 4648 model proved (all lengths) and compared with the library on sampled byte strings / "
        "canonical and non-canonical strings; the parametric theorems additionally hold for any codec with dec(enc b) = b; "
        "Python's lenient decoding of non-canonical strings is recorded per case (only reachable through marker-named content keys)",
        "oracles: str.isspace (universally quantified), iterate_units (universally quantified in the CLI theorems)",
        "json.dumps/json.loads: identity on values without foreign leaves (json_text_roundtrip), validated on every case",
        "modelled by hand, tied by differential runs: serialization.py (_serialize_for_json, serialize_extraction, "
        "_unwrap_optional, _deserialize_value, _deserialize_dataclass, deserialize_extraction), dataclass "
        "construction (defaults, __post_init__ strips), io.BytesIO tell/seek/read, cli._serialize_results / "
        "_serialize_unit_results",
        "not modelled: cyclic object graphs / recursion depth, closed BytesIO, subclasses of str/int/list, "
        "exception classes (any escape = raise)",
    ]
    ctx.assumptions += ["CPython 3.12 typing.get_origin/get_args semantics as observed by ty_term",
                        "base64 oracle law dec (enc b) = Some b"]

    import time as _time
    _t = [_time.time()]
    ctx.extra["timing"] = {}

    def mark(name):
        now = _time.time()
        ctx.extra["timing"][name] = round(now - _t[0], 1)
        _t[0] = now

    reg, reg_problems = gen_registry(ctx)

    # ---- proofs
    ctx.prove("C05/Props.v", ["C05/Proofs.vo", "C05/Roundtrip.vo", "C05/Tables.vo", "C05/Base64.vo", "C05/Markers.vo"], expected=[
        "C05_dumps_ok", "C05_roundtrip_partial", "C05_roundtrip_value", "C05_no_binary", "C05_position_restored",
        "C05_cli_shape", "C05_cli_unit_shape", "C05_markers_refuted_any_registry", "C05_xlsx_cell_json_clean",
        "C05_cli_all_or_nothing", "C05_roundtrip_same_object", "C05_nonstring_keys_refuted",
        "C05_base64_roundtrip_all_lengths", "C05_base64_chunks_at_multiples_of_3", "C05_base64_chunks_unaligned_refuted",
        "C05_roundtrip_concrete_codec", "C05_base64_encoder_output_canonical", "C05_decoder_sees_only_canonical",
        "C05_from_json_value_error", "C05_binary_marker_key_always_confused", "C05_binary_marker_key_iff",
        "C05_type_marker_builds_dataclass", "C05_keys_not_markers_not_necessary"])
    ok_inst, _ = ctx.prove("C05/Inst.v", ["Gen/C05Registry.vo", "C05/Corr.vo", "C05/Proofs.vo", "C05/Base64.vo"], expected=[
        "C05_registry_wf", "C05_hints_known", "C05_defaults_ok", "C05_markers_never_confused_refuted",
        "C05_roundtrip_hyps_satisfiable"])
    if not ok_inst:
        okh, out = ctx.coq_eval("badcls", PRE +
                                "Eval vm_compute in (map c_name (filter (fun c => negb (cls_ok c)) R), "
                                "map c_name (filter (fun c => negb (forallb (fun f => hint_known R IFACES (f_ty f)) "
                                "(c_fields c))) R)).\n")
        ctx.extra["registry_bad_classes"] = out[-800:]

    mark("gen+prove")
    g = Gen(ctx, reg)
    hint_pool = extra_hints(reg) + [h for n in reg for h in g.hints[n].values()]

    # ---- D1: type-directed instances
    n_inst = ctx.n(1000, 6000)
    insts = []
    for name in g.names:                  # every (instantiable) class at least 4 times
        for _ in range(ctx.n(4, 12)):
            insts.append(g.instance(name))
    while len(insts) < n_inst:
        insts.append(g.instance(g.rng.choice(g.names)))
    # instances mutated after construction (a stripped field padded again)
    for name, fld in (("EmailContent", "subject"), ("PlainTextContent", "content")):
        if name in reg:
            for pad in ("  x ", "\ty"):
                o = g.instance(name)
                setattr(o, fld, pad)
                insts.append(o)

    # XLS-like results: rows keyed by header cells — str keys (the hint), and int/float/bool/None keys (what a
    # reader handing the NATIVE header value to the row dict would produce), incl. 1 next to "1"
    if "XlsSheet" in reg and "XlsContent" in reg:
        for hdr in (["a", "b"], ["2020", "1"], [2020, "x"], [1, "1"], [1.5, True], [None, "k"], [True, 1, "1"]):
            rows = [{h: g.scalar() for h in hdr} for _ in range(2)]
            try:
                insts.append(reg["XlsContent"](sheets=[reg["XlsSheet"](name="S", data=rows, text="t")]))
            except Exception:  # noqa
                pass
    for name in ("XlsImage", "PptImage", "DocImage"):
        if name in reg:
            o = g.instance(name)
            if hasattr(o, "data"):
                o.data = bytearray(b"BM\x00\x01dib")
                insts.append(o)

    # deeply nested plain data at an Any position (recursion in serialiser, deserialiser and json)
    for name, fld in (("XlsxSheet", "data"), ("XlsSheet", "data")):
        if name in reg:
            deep = "leaf"
            for d_ in range(ctx.n(30, 60)):
                deep = [deep, d_] if d_ % 2 else {"k": deep}
            try:
                o = g.instance(name)
                setattr(o, fld, [[deep]] if name == "XlsxSheet" else [{"col": deep}])
                insts.append(o)
            except Exception:  # noqa
                pass

    ser_cases, pipe_cases, hyp_cases, restored, b64i_cases = [], [], [], [], []
    kept = []
    for x in insts:
        tb = Tables()
        vt = val_term(x, tb)
        pos0 = bio_positions(x)
        try:
            jt = S._serialize_for_json(x, include_binary=True)
            jf = S._serialize_for_json(x, include_binary=False)
            tj = S.serialize_extraction(x)
            jnb = S._serialize_for_json(null_binary(x), include_binary=True)
        except Exception as e:  # noqa  — the serialiser itself must never raise on the value universe
            ctx.finding("serializer-raises:generated-instance", f"_serialize_for_json raises {e!r} on a {type(x).__name__}",
                        {"instance": vt[:6000], "python": repr(x)[:3000]})
            continue
        # oracle: BytesIO positions restored
        if bio_positions(x) != pos0:
            ctx.finding("bytesio-position-moved", f"serialising {type(x).__name__} moved a BytesIO position",
                        {"instance": vt[:4000], "python": repr(x)[:3000]})
        # oracle: without binary == with binary on the value whose binary leaves are None
        if not other_leaves(x) and jtext(jnb) != jtext(jf):
            ctx.finding("no-binary-differs:generated-instance",
                        f"include_binary=False changed more (or less) than the binary fields ({type(x).__name__})",
                        {"instance": vt[:4000], "python": repr(x)[:3000]})
        ser_cases.append(f"({vt}, {tb.enc_table()}, {json_term(jt)}, {json_term(jf)}, {json_term(tj)})")
        y, err, stage = roundtrip_impl(x)
        restored.append((y, err, stage))
        rt = "None" if y is None else "(Some " + val_term(y) + ")"
        collect_marker_strs(jt, tb)
        pipe_cases.append(f"({vt}, {tb.enc_table()}, {tb.dec_table()}, {rt})")
        b64i_cases.append(f"({vt}, {json_term(jt)}, {rt})")
        hyp_cases.append(vt)
        kept.append(x)
        nontriv = bool(payloads(x)) or any(dataclasses.is_dataclass(getattr(x, f.name)) or
                                           (isinstance(getattr(x, f.name), list) and getattr(x, f.name) and
                                            dataclasses.is_dataclass(getattr(x, f.name)[0]))
                                           for f in dataclasses.fields(x))
        ctx.case(("inst", vt), nontriv, kind="instance:" + ("marker-key" if has_marker_key(x) else
                                                            "other-leaf" if other_leaves(x) else
                                                            "non-string-key" if nonstring_keys(x) else "clean"))
    insts = kept

    mark("instances-python")
    f_ser = POOL.submit(coq_eval_shards, ctx, "ser", PRE, "ser_case", ser_cases, shard=100,
                        ty="val * list (bytes * str) * json * json * json")
    f_pipe = POOL.submit(coq_eval_shards, ctx, "pipe", PRE, "(pipe_case R WS)", pipe_cases, shard=100,
                         ty="val * list (bytes * str) * list (str * option bytes) * option val")
    f_hyps = POOL.submit(coq_eval_shards, ctx, "hyps", PRE, "(hyps R WS)", hyp_cases, shard=200, ty="val")
    f_hyps2 = POOL.submit(coq_eval_shards, ctx, "hyps2", PRE, "(hyps_strict R WS)", hyp_cases, shard=200, ty="val")
    f_b64i = POOL.submit(coq_eval_shards, ctx, "b64inst", PRE, "(b64_inst_case R WS)", b64i_cases, shard=100,
                         ty="val * json * option val")

    def finish_instances():
        oks, fs, logs = f_ser.result()
        ctx.traces += len(ser_cases)
        ctx.disagreements += len(fs)
        ctx.obligation("correspondence:serialize/to_json model==implementation on instances", oks and not fs,
                       (f"{len(fs)} disagreements, first: {ser_cases[fs[0]][:600] if fs else ''} " + logs)[:1800])
        okp, fp, logp = f_pipe.result()
        ctx.traces += len(pipe_cases)
        ctx.disagreements += len(fp)
        ctx.obligation("correspondence:from_json(loads(dumps(to_json))) model==implementation on instances", okp and not fp,
                       (f"{len(fp)} disagreements, first: {pipe_cases[fp[0]][:900] if fp else ''} " + logp)[:2200])
        okh, nh, logh = f_hyps.result()
        ctx.obligation("evaluation of the theorem hypotheses on the instances", okh, logh[:800])
        nohyp = set(nh)
        okbi, fbi, logbi = f_b64i.result()
        ctx.traces += len(b64i_cases)
        ctx.disagreements += len(fbi)
        ctx.obligation("correspondence:instances with the CONCRETE base64 model (serialize always; pipeline under the theorem's hypotheses)",
                       okbi and not fbi, (f"{len(fbi)} disagreements, first: {b64i_cases[fbi[0]][:900] if fbi else ''} " + logbi)[:2000])
        okh2, nh2, logh2 = f_hyps2.result()
        ctx.obligation("evaluation of the same-object hypotheses on the instances", okh2, logh2[:800])
        nostrict = set(nh2)
        ctx.count("instances-satisfying-same-object-hypotheses", len(insts) - len(nostrict))
        ctx.count("instances-satisfying-roundtrip-hypotheses", len(insts) - len(nohyp))
        if fs:
            ctx.extra["ser_disagreements"] = [ser_cases[i][:4000] for i in fs[:4]]
        if fp:
            ctx.extra["pipe_disagreements"] = [pipe_cases[i][:6000] for i in fp[:4]]

        # property oracle on the implementation
        marker_hits = 0
        nonstr_changed = 0
        for i, x in enumerate(insts):
            y, err, stage = restored[i]
            others = other_leaves(x)
            if stage == "dumps" and not others:
                ctx.finding("dumps-fails:generated-instance", f"{type(x).__name__}: json.dumps(to_json()) fails without a foreign leaf: {err}",
                            {"instance": hyp_cases[i][:6000], "python": repr(x)[:3000]})
                continue
            py = repr(x)[:3000]
            if i in nohyp:
                # outside the theorem: only the recorded marker confusion is reported
                bad = (y is None and stage == "from_json") or (y is not None and same_object_views(x, y, strict=False))
                if bad and has_marker_key(x) and not others:
                    marker_hits += 1
                    ctx.finding("marker-key-in-content-dict",
                                "a dict key equal to _type/_bytes/_bytesio (document content) is taken for a marker by from_json",
                                {"instance": hyp_cases[i][:6000], "python": py, "error": err})
                continue
            if y is None:
                ctx.finding(f"roundtrip-raises:generated-instance:{stage}",
                            f"well-typed instance of {type(x).__name__} does not survive to_json/from_json: {err}",
                            {"instance": hyp_cases[i][:6000], "python": py, "stage": stage, "error": err})
                continue
            # C05_roundtrip_partial: class and to_json (both modes); C05_roundtrip_same_object (all keys str):
            # the object itself, payloads, full text, units, tables, images
            strict = i not in nostrict
            diffs = same_object_views(x, y, strict=strict)
            if diffs:
                ctx.finding("roundtrip-differs:generated-instance", f"restored {type(x).__name__} differs: {diffs}",
                            {"instance": hyp_cases[i][:6000], "python": py, "diffs": diffs, "strict": strict})
            elif not strict and nonstring_keys(x):
                nonstr_changed += 1 if typed(x) != typed(y) else 0
        ctx.count("marker-confusions-observed", marker_hits)
        ctx.count("non-string-key-instances-restored-with-str-keys(refutation shape)", nonstr_changed)

    mark("instances-oracle")
    # ---- D2: perturbed JSON stream for the deserialiser
    jg = JGen(ctx, reg, hint_pool)
    dcases, dinfo, ocases = [], [], []
    for j0 in (None, 5, "x", [], [{"_type": "TableDim"}], {}, {"type": "TableDim"}, {"_type": None}, {"_type": "Nope"}):
        try:
            S.deserialize_extraction(copy.deepcopy(j0))
            code0 = 0
        except Exception as e:  # noqa
            code0 = 1 if type(e) is ValueError else 2
        ocases.append(f"({json_term(j0)}, [], {code0}%nat)")
        ctx.case(("outcome", repr(j0)), True, kind="from_json-outcome-class")
        if (not isinstance(j0, dict) or "_type" not in j0) and code0 != 1:
            ctx.finding("from_json-documented-error", f"deserialize_extraction({j0!r}) does not raise the documented ValueError "
                        f"(outcome class {code0}: 0 = returned a value, 2 = another exception)", {"input": j0})
    for _ in range(ctx.n(1200, 6000)):
        top = jg.rng.random() < 0.3
        j = jg.dc(0) if (top or jg.rng.random() < 0.5) else jg.value()
        if top and jg.rng.random() < 0.1:
            j = jg.value()
        T = typing.Any if top else jg.hint()
        j = json.loads(json.dumps(j))
        tb = Tables()
        jt = json_term(j, tb)
        code = 0
        try:
            r = S.deserialize_extraction(copy.deepcopy(j)) if top else S._deserialize_value(copy.deepcopy(j), T)
            rt = "(Some " + val_term(r) + ")"
        except Exception as e:  # noqa
            rt = "None"
            code = 1 if type(e) is ValueError else 2
        if top:
            ocases.append(f"({jt}, {tb.dec_table()}, {code}%nat)")
        dcases.append(f"({coq_bool(top)}, {jt}, {ty_term(T)}, {tb.dec_table()}, {rt})")
        dinfo.append((top, j, repr(T)))
        ctx.case(("deser", top, jt, repr(T)), any(m in json.dumps(j) for m in MARKERS),
                 kind="json-stream:" + ("top" if top else "value") + (":raises" if rt == "None" else ":ok"))
    f_deser = POOL.submit(coq_eval_shards, ctx, "deser", PRE, "(deser_case R WS)", dcases, shard=120,
                          ty="bool * json * ty * list (str * option bytes) * option val")
    f_out = POOL.submit(coq_eval_shards, ctx, "outcome", PRE, "(top_outcome_case R WS)", ocases, shard=150,
                        ty="json * list (str * option bytes) * nat")

    def finish_deser():
        oko, fo, logo = f_out.result()
        ctx.obligation("correspondence:deserialize_extraction outcome class (value / ValueError / other exception)",
                       oko and not fo, (f"{len(fo)} disagreements, first: {ocases[fo[0]][:600] if fo else ''} " + logo)[:1500])
        okd, fd, logd = f_deser.result()
        ctx.traces += len(dcases)
        ctx.disagreements += len(fd)
        ctx.obligation("correspondence:_deserialize_value/deserialize_extraction model==implementation on the JSON stream",
                       okd and not fd, (f"{len(fd)} disagreements, first: {dinfo[fd[0]] if fd else ''} " + logd)[:2200])
        if fd:
            ctx.extra["deser_disagreements"] = [repr(dinfo[i])[:500] for i in fd[:8]]

    mark("json-stream")
    # ---- D2b: xlsx cell normalisation (model of the repaired _get_cell_value) + replay of the marker witness
    from sharepoint2text.parsing.extractors.ms_modern import xlsx_extractor as X
    r = ctx.rng
    cells = [None, "", "text", "#DIV/0!", "_type", True, False, 0, 7, -3, 2 ** 40, 0.0, 1.5, -2.25, float("nan"),
             datetime.datetime(2020, 1, 2, 3, 4, 5), datetime.datetime(1999, 12, 31, 23, 59, 59, 123456),
             datetime.date(2021, 2, 3), datetime.time(1, 2, 3), datetime.time(0, 0), datetime.timedelta(0),
             datetime.timedelta(hours=1, minutes=30), datetime.timedelta(days=2, seconds=5, microseconds=7),
             datetime.timedelta(days=-1), decimal.Decimal("1.5"), complex(0, 1)]
    for _ in range(ctx.n(40, 400)):
        cells.append(r.choice([r.choice(STR_VOCAB), r.randrange(-10 ** 6, 10 ** 6), r.random() * 1000,
                               datetime.timedelta(seconds=r.randrange(-10 ** 6, 10 ** 7), microseconds=r.randrange(10 ** 6)),
                               datetime.datetime(2000, 1, 1) + datetime.timedelta(seconds=r.randrange(10 ** 9)),
                               (datetime.datetime(2000, 1, 1) + datetime.timedelta(seconds=r.randrange(10 ** 5))).time(),
                               (datetime.datetime(2000, 1, 1) + datetime.timedelta(days=r.randrange(10 ** 4))).date()]))
    ccases = []
    for v in cells:
        got = X._get_cell_value(v)
        ccases.append(f"({cell_term(v)}, {val_term(got)})")
        ctx.case(("cell", repr(v)), v is not None, kind="xlsx-cell:" + type(v).__name__)
        known = v is None or (type(v) in (str, bool, int, float, datetime.datetime, datetime.date, datetime.time,
                                           datetime.timedelta) and not (type(v) is float and v != v))
        if known and other_leaves(got):
            ctx.finding("xlsx-duration-cell" if isinstance(v, datetime.timedelta) else f"xlsx-cell:{type(v).__name__}",
                        f"xlsx _get_cell_value keeps a {type(v).__name__} cell value ({v!r}) that json.dumps rejects",
                        {"cell_value": repr(v), "how": "xlsx_extractor._get_cell_value(value); json.dumps"})
    f_cells = POOL.submit(coq_eval_shards, ctx, "cells", PRE, "cell_case", ccases, shard=500, ty="cell * val")
    def finish_cells():
        okx, fx_, logx = f_cells.result()
        ctx.traces += len(ccases)
        ctx.obligation("correspondence:xlsx _get_cell_value model==implementation", okx and not fx_,
                       (f"{len(fx_)} disagreements, first: {ccases[fx_[0]] if fx_ else ''} " + logx)[:1200])
    wm = witness_marker(reg)
    y, err, stage = roundtrip_impl(wm)
    ctx.case(("witness", "marker"), True, kind="refutation-witness-replayed")
    if y is None or same_object_views(wm, y):
        ctx.finding("marker-key-in-content-dict",
                    "a dict key equal to _type/_bytes/_bytesio (document content) is taken for a marker by from_json",
                    {"instance": val_term(wm), "python": "XlsContent(sheets=[XlsSheet(name='Sheet1', data=[{'_bytes': 5, 'name': 'a'}], text='x')])",
                     "stage": stage, "error": err})
    else:
        ctx.obligation("refutation witness C05_markers_never_confused_refuted replays on the implementation", False,
                       "the implementation restores marker_witness although the model does not")
    # the marker theorems replayed on the implementation, one XLS-like row per case:
    #   C05_binary_marker_key_always_confused / C05_type_marker_builds_dataclass: never restored (known finding's shape);
    #   C05_keys_not_markers_not_necessary: a `_type` cell that is no registered class name IS restored
    if "XlsSheet" in reg and "XlsContent" in reg:
        mk = lambda row: reg["XlsContent"](sheets=[reg["XlsSheet"](name="S", data=[row], text="t")])  # noqa: E731
        harmless = [{"_type": v_, "name": "a"} for v_ in (5, None, "", "Nope", 1.5, True, 0)]
        confused = [{k_: v_, "name": "a"} for k_ in ("_bytes", "_bytesio") for v_ in (5, "aGk=", None, "x", "")] + \
                   [{"_type": n_, "name": "a"} for n_ in ("TableDim", "EmailAddress", "XlsSheet")]
        for row in harmless:
            xw = mk(row)
            y, err, stage = roundtrip_impl(xw)
            ctx.case(("marker-theorem", repr(row)), True, kind="marker-theorems:harmless-_type-value")
            if y is None or same_object_views(xw, y):
                ctx.finding("harmless-type-key-not-restored", f"a row {row!r} (`_type` cell that names no registered class) is not "
                            f"restored although the model restores it: {err}", {"python": repr(xw), "row": row})
        not_confused = []
        for row in confused:
            xw = mk(row)
            y, err, stage = roundtrip_impl(xw)
            ctx.case(("marker-theorem", repr(row)), True, kind="marker-theorems:confused")
            if y is not None and not same_object_views(xw, y):
                not_confused.append(row)
            else:
                ctx.finding("marker-key-in-content-dict", "marker-named content key", {"python": repr(xw), "row": row, "error": err})
        ctx.obligation("marker theorems replay on the implementation (binary marker / registered `_type` rows are never restored)",
                       not not_confused, f"restored although the model says confused: {not_confused[:3]}")
    wc = witness_clean(reg)
    y, err, stage = roundtrip_impl(wc)
    if y is None or same_object_views(wc, y):
        ctx.finding("clean-witness-not-restored", f"the non-vacuity witness is not restored: {err}", {"instance": val_term(wc)})

    mark("cells+witness")
    # ---- D2c: the codec. (i) X-tie: the helpers encode/decode the whole content in one call; (ii) the model's base64
    # against the real library; (iii) payload LENGTHS: every carrier kind (BytesIO / bytes / bytearray fields) at
    # lengths around every power of two up to 2 MiB and around every integer constant found in serialization.py —
    # too large for Coq terms, so: implementation's helper == the library on the whole content (that is the model's
    # enc), and the full to_json -> dumps -> loads -> from_json round trip restores every byte.
    codec_problems, consts = codec_ast_problems()
    ctx.obligation("serialization.py codec helpers: one base64 call on the whole content, no chunking (ast)",
                   not codec_problems, "; ".join(codec_problems))
    ctx.extra["serialization_int_constants"] = consts
    r = ctx.rng
    bsamples = [bytes(r.randrange(256) for _ in range(n)) for n in list(range(0, 40)) + [57, 58, 59, 76, 77, 255, 256, 257]]
    bsamples += [bytes([v]) * n for v in (0, 255) for n in (1, 2, 3, 4)]
    f_b64 = POOL.submit(coq_eval_shards, ctx, "b64", PRE + "From S2T Require Import C05.Base64.\n", "b64_case",
                        [f"({nlist(b)}, {cstr(base64.b64encode(b).decode('ascii'))})" for b in bsamples], shard=40, ty="bytes * str")
    # canonical (strictly decodable) vs not: encodings and their perturbations; and the library's lenient decoder agrees
    # with its strict one on every canonical string (premise of C05_decoder_sees_only_canonical)
    cstrings = list(STR_VOCAB) + ["aGk=", "aGk", "aGk==", "QQ==", "QR==", "QUI=", "QUJ=", "QQ=", "=QQ=", "QQ==QQ==", "aGk=\n", " aGk=",
                                  "aG k=", "a-_=", "aGk=aGk=", "====", "A", "AA", "AAA", "AAAA", "AA==AA", "YQ==YWI="]
    for b in bsamples[:48]:
        e = base64.b64encode(b).decode("ascii")
        cstrings += [e, e[:-1], e + "=", e.replace("=", ""), e[:2] + "\n" + e[2:], e.lower()]
    ccases, lenient_bad = [], []
    for s_ in dict.fromkeys(cstrings):
        try:
            strict = base64.b64decode(s_.encode("utf-8"), validate=True)
            canon_ = base64.b64encode(strict).decode("ascii") == s_
        except Exception:  # noqa
            strict, canon_ = None, False
        if canon_:
            try:
                if base64.b64decode(s_.encode("utf-8")) != strict:
                    lenient_bad.append(s_)
            except Exception:  # noqa
                lenient_bad.append(s_)
        ccases.append(f"({cstr(s_)}, {coq_bool(canon_)})")
        ctx.case(("canonical", s_), True, kind="b64-string:" + ("canonical" if canon_ else "non-canonical"))
    ctx.obligation("library: lenient b64decode == strict b64decode on canonical strings", not lenient_bad, str(lenient_bad[:3]))
    f_canon = POOL.submit(coq_eval_shards, ctx, "canon", PRE, "canon_case", ccases, shard=200, ty="str * bool")
    sizes = boundary_sizes(consts, ctx.tier == "quick")
    ctx.extra["payload_lengths_sampled"] = {"count": len(sizes), "max": max(sizes),
                                            "rule": "0..7, 2^k-1/2^k/2^k+1 for k=6..21 (quick tier: k=6..16,20,21), and c-1,c,c+1,2c-1,2c,2c+1,3c+1 for every "
                                                    "integer constant c (8 < c <= 8 MiB) of serialization.py; one pseudo-random "
                                                    "payload per length and carrier"}
    bio_cls = [(n, f.name) for n in g.names for f in dataclasses.fields(reg[n])
               if g.hints[n].get(f.name) in (io.BytesIO, typing.Optional[io.BytesIO])]
    byt_cls = [(n, f.name) for n in g.names for f in dataclasses.fields(reg[n])
               if g.hints[n].get(f.name) in (bytes, typing.Optional[bytes])]
    carriers = [("BytesIO", c, lambda b: io.BytesIO(b)) for c in bio_cls[:2]] + \
               [("bytes", c, lambda b: b) for c in byt_cls[:1]] + [("bytearray", c, lambda b: bytearray(b)) for c in byt_cls[1:2]]
    ctx.obligation("payload-length generator has BytesIO, bytes and bytearray carriers",
                   {k for k, _, _ in carriers} == {"BytesIO", "bytes", "bytearray"}, str([(k, c) for k, c, _ in carriers]))
    import random as _random
    for n_ in sizes:
        blob = _random.Random(f"{ctx.seed}-{n_}").randbytes(n_)
        want_b64 = base64.b64encode(blob).decode("ascii")
        # helper == library on the whole content (the model's enc / dec)
        for hname, arg, expect in (("_bytes_to_base64", blob, want_b64), ("_bytesio_to_base64", io.BytesIO(blob), want_b64),
                                   ("_base64_to_bytes", want_b64, blob), ("_base64_to_bytesio", want_b64, blob)):
            fn = getattr(S, hname, None)
            if fn is None:
                continue
            try:
                got = fn(arg)
                got = got.getvalue() if isinstance(got, io.BytesIO) else got
            except Exception as e:  # noqa
                got = repr(e)
            ctx.case(("codec", hname, n_), n_ > 0, kind="codec-helper:" + hname)
            if got != expect:
                ctx.finding(f"codec-helper-differs:{hname}",
                            f"{hname} on a payload of {n_} bytes is not base64 of the whole content "
                            f"(got {len(got) if hasattr(got, '__len__') else got} chars/bytes, want {len(expect)})",
                            {"payload_length": n_, "payload": f"random.Random('{ctx.seed}-{n_}').randbytes({n_})", "helper": hname})
        for kind, (cname, fname), mk in carriers:
            try:
                o = g.instance(cname)
                setattr(o, fname, mk(blob))
                text = json.dumps(S.serialize_extraction(o))
                y = S.deserialize_extraction(json.loads(text))
                back = payloads(y)
                ok = payloads(o) == back and jtext(S.serialize_extraction(y)) == text and type(y) is type(o)
                detail = f"restored payload lengths {[len(b) for b in back][:4]}"
            except Exception as e:  # noqa
                ok, detail = False, repr(e)
            ctx.case(("payload-length", kind, cname, n_), True, kind=f"payload-length:{kind}")
            if not ok and not has_marker_key(o) and not other_leaves(o):
                ctx.finding(f"payload-length:{kind}",
                            f"a {kind} payload of {n_} bytes in {cname}.{fname} does not survive to_json/from_json: {detail}",
                            {"payload_length": n_, "payload": f"random.Random('{ctx.seed}-{n_}').randbytes({n_})", "carrier": f"{cname}.{fname}",
                             "kind": kind, "how": "o = <instance of carrier class>; o.<field> = <kind>(payload); "
                                                  "deserialize_extraction(json.loads(json.dumps(serialize_extraction(o))))"})

    # ---- D2d: HISTORIES in one process.  (i) many short-lived results whose BytesIO / bytes payloads have the same length but
    # different content (address reuse after a result is freed); (ii) one buffer whose content is rewritten between two
    # to_json() calls.  to_json must be a function of the current content only.
    stp = state_inventory_problems()
    ctx.obligation("serialization.py keeps no state besides the type registry (ast + module attributes)", not stp, "; ".join(stp))
    import gc
    for kind, (cname, fname), mk in carriers:
        for L_ in (16, 4096):
            wrong = 0
            for i_ in range(ctx.n(120, 500)):
                blob = _random.Random(f"h-{ctx.seed}-{L_}-{i_}").randbytes(L_)
                try:
                    o = g.instance(cname, 3)
                    setattr(o, fname, mk(blob))
                    if has_marker_key(o) or other_leaves(o):
                        continue
                    y = S.deserialize_extraction(json.loads(json.dumps(S.serialize_extraction(o))))
                    okh_ = payloads(y) == payloads(o)
                except Exception as e:  # noqa
                    okh_ = False
                ctx.case(("history", kind, L_, i_), True, kind=f"history:same-length-payloads:{kind}")
                if not okh_:
                    wrong += 1
                    if wrong == 1:
                        ctx.finding(f"history:same-length-payloads:{kind}",
                                    f"after {i_} earlier (freed) results with {L_}-byte {kind} payloads, {cname}.{fname} is restored "
                                    f"with other bytes than it holds (to_json depends on the history of the process)",
                                    {"carrier": f"{cname}.{fname}", "kind": kind, "length": L_, "index": i_,
                                     "how": "for i in range(n): o = <carrier instance with a fresh payload random.Random(f'h-{seed}-{L}-{i}')"
                                            ".randbytes(L)>; y = from_json(loads(dumps(to_json(o)))); compare payload bytes; drop o, y"})
                o = y = None
                if i_ % 16 == 0:
                    gc.collect()
    if bio_cls:
        cname, fname = bio_cls[0]
        for i_ in range(20):
            try:
                o = g.instance(cname, 3)
                buf = io.BytesIO(b"A" * 64)
                setattr(o, fname, buf)
                S.serialize_extraction(o)
                new = _random.Random(f"m-{i_}").randbytes(64)
                buf.seek(0)
                buf.write(new)
                y = S.deserialize_extraction(json.loads(json.dumps(S.serialize_extraction(o))))
                okm = has_marker_key(o) or bool(other_leaves(o)) or new in payloads(y)
            except Exception:  # noqa
                okm = False
            ctx.case(("history", "rewritten-buffer", i_), True, kind="history:rewritten-buffer")
            if not okm:
                ctx.finding("history:rewritten-buffer", f"{cname}.{fname}: to_json after the buffer was rewritten in place (same length) "
                            f"still carries the old content", {"carrier": f"{cname}.{fname}", "how": "to_json(o); buf.seek(0); buf.write(new); to_json(o)"})
                break

    # ---- D2e: the path argument of metadata / extractor entry points: str or pathlib.Path or None, on disk or not
    import pathlib
    real0 = next((p_ for p_ in fixture_files() if p_.suffix == ".txt"), None)
    def path_variants(real):
        return [("str-existing", str(real)), ("Path-existing", pathlib.Path(real)), ("str-missing", "memory/" + real.name),
                ("Path-missing", pathlib.Path("memory") / real.name), ("Path-missing-absolute", pathlib.Path("/nonexistent-dir/x") / real.name),
                ("str-odd", "pack.zip!/./docs//" + real.name), ("None", None)]
    if real0 is not None:
        for cname in g.names:
            cls_ = reg[cname]
            if not hasattr(cls_, "populate_from_path"):
                continue
            for vname, arg in path_variants(real0):
                try:
                    m_ = cls_()
                    m_.populate_from_path(arg)
                except Exception:  # noqa
                    continue
                ctx.case(("populate_from_path", cname, vname), True, kind="path-argument:populate_from_path")
                bad = other_leaves(m_) + universe_problems(m_)
                if bad:
                    ctx.finding(f"path-argument:populate_from_path:{vname}",
                                f"{cname}().populate_from_path({arg!r}) stores a value json.dumps rejects: {bad[:2]}",
                                {"class": cname, "argument": repr(arg), "leaves": bad[:5]})
        from sharepoint2text.parsing import router as _router
        small = [p_ for p_ in fixture_files() if p_.stat().st_size < 40_000 and "password" not in str(p_)
                 and p_.suffix in (".txt", ".md", ".csv", ".html", ".docx", ".odt", ".eml", ".rtf", ".pptx", ".ods", ".xlsx", ".epub", ".json")]
        seen_ext = set()
        for real in small:
            if real.suffix in seen_ext:
                continue
            seen_ext.add(real.suffix)
            data_ = real.read_bytes()
            try:
                extractor = _router.get_extractor(str(real))
            except Exception:  # noqa
                continue
            for vname, arg in path_variants(real):
                try:
                    rs_ = list(extractor(io.BytesIO(data_), arg))
                except Exception:  # noqa
                    ctx.count("path-argument:extractor-raises")
                    continue
                for r_ in rs_:
                    ctx.case(("extractor-path", real.suffix, vname), True, kind="path-argument:extractor")
                    bad = other_leaves(r_) + universe_problems(r_)
                    y, err, stage = roundtrip_impl(r_)
                    if bad or y is None:
                        ctx.finding(f"path-argument:extractor:{vname}",
                                    f"{extractor.__name__}(bytes of {real.name}, path={arg!r}) gives a result whose to_json() the JSON "
                                    f"encoder rejects or from_json does not restore: {(bad or [err])[:2]}",
                                    {"extractor": extractor.__name__, "fixture": str(real), "path_argument": repr(arg), "stage": stage,
                                     "leaves": bad[:5], "error": err})

    def finish_b64():
        okcn, fcn, logcn = f_canon.result()
        ctx.obligation("correspondence:b64_canonical == (strict library decode succeeds and re-encodes to the string)",
                       okcn and not fcn, (f"{len(fcn)} disagreements, first: {ccases[fcn[0]] if fcn else ''} " + logcn)[:800])
        okb, fb, logb = f_b64.result()
        ctx.traces += len(bsamples)
        ctx.obligation("correspondence:model base64 (b64enc/b64dec) == base64 library", okb and not fb,
                       (f"{len(fb)} disagreements, first: {bsamples[fb[0]].hex() if fb else ''} " + logb)[:800])

    # oracle self-test: the comparisons used below must see a truncated payload, a changed key type and a leaked marker
    if "EmailAttachment" in reg:
        a1 = reg["EmailAttachment"](filename="f", mime_type="m", data=io.BytesIO(b"0123456789"))
        a2 = reg["EmailAttachment"](filename="f", mime_type="m", data=io.BytesIO(b"012345678"))
        st1 = bool(same_object_views(a1, a2)) and not same_object_views(a1, copy.deepcopy(a1))
    else:
        st1 = True
    st2 = typed({2020: 1}) != typed({"2020": 1}) and bool(nonstring_keys({"a": [{1: 2}]}))
    st3 = binary_marker_paths({"a": [{"_bytes": "QQ=="}]}) == ["$.a[0]._bytes"] and not binary_marker_paths({"a": None})
    ctx.obligation("oracle self-test (truncated payload, key type, marker leak are seen)", st1 and st2 and st3,
                   f"payload={st1} keytype={st2} marker={st3}")
    mark("codec+payload-lengths")

    # ---- D3: real extractor outputs
    results_small = []
    with tempfile.TemporaryDirectory(dir="/var/tmp") as tds:
        td = Path(tds)
        docs = [("fixture:" + str(p.relative_to(common.REPO / "sharepoint2text" / "tests" / "resources")), p)
                for p in fixture_files()] + make_xlsx_cases(td)
        xls_docs, xls_problems = make_xls_cases(td)
        ods_docs, ods_problems = make_ods_cases(td)
        docs += xls_docs + ods_docs
        xls_problems = xls_problems + ods_problems
        ctx.obligation("generated .xls inputs (numeric header cell, marker-named header cell) could be derived", not xls_problems,
                       "; ".join(xls_problems))
        multi = None
        unit_bin, result_bin = [], set()    # fixtures whose units / results carry binary payloads
        universe_bad = []
        for label, p in docs:
            try:
                rs = list(sharepoint2text.read_file(str(p)))
            except Exception:  # noqa  (encrypted / unsupported fixtures)
                ctx.count("document:not-extracted")
                continue
            if len(rs) > 1 and multi is None and p.stat().st_size < 3_000_000:
                multi = (label, p)
            for k, x in enumerate(rs):
              try:
                up = universe_problems(x)
                if up:
                    universe_bad.append((label, up[:3]))
                nsk = nonstring_keys(x)
                if nsk:
                    ctx.finding(f"non-string-dict-key:{label}",
                                f"extraction result of {label} holds dict keys that are not str ({nsk[:3]}) although every dict "
                                f"hint of the registry is Dict[str, ...]: from_json can only restore str keys",
                                {**doc_replay(label, p), "keys": nsk[:10], "how": "list(sharepoint2text.read_file(document))"})
                key = label if len(rs) == 1 else f"{label}#{k}"
                objs = [("result", x)]
                try:
                    objs += [("unit", u) for u in x.iterate_units()]
                except Exception:  # noqa
                    pass
                if payloads(x):
                    result_bin.add(label)
                if len(rs) == 1 and payloads(x) and any(payloads(u) for _, u in objs[1:]) and p.stat().st_size < 1_500_000 \
                        and (label, p) not in unit_bin:
                    unit_bin.append((label, p))
                for role, o in objs:
                    ctx.case((key, role, len(objs)), bool(payloads(o)) or role == "result", kind=f"document:{role}")
                    others = other_leaves(o)
                    try:
                        text = json.dumps(o.to_json(), allow_nan=False)   # NaN / Infinity tokens are not JSON
                    except Exception as e:  # noqa
                        fk = label if label.startswith("xlsx-") else f"to_json-not-encodable:{label}"
                        ctx.finding(fk, f"json.dumps(to_json()) raises {e!r} for {label} ({role}); non-JSON leaves: {others[:3]}",
                                    {**doc_replay(label, p), "role": role, "leaves": others[:10],
                                     "how": "list(sharepoint2text.read_file(document)); json.dumps(x.to_json())"})
                        continue
                    if role != "result":
                        continue
                    try:
                        y = ExtractionInterface.from_json(json.loads(text))
                        diffs = same_object_views(o, y)
                    except Exception as e:  # noqa
                        diffs = ["from_json raises " + repr(e)]
                    if diffs and not (nsk and not has_marker_key(o)):   # (non-string keys: reported above, same document)
                        fk = "marker-key-in-content-dict" if has_marker_key(o) else f"roundtrip-differs:{label}"
                        ctx.finding(fk, f"extraction result of {label} is not restored by from_json: {diffs}",
                                    {**doc_replay(label, p), "diffs": [d[:300] for d in diffs],
                                     "payload_sizes": [len(b) for b in payloads(o)][:20],
                                     "how": "x = list(sharepoint2text.read_file(document))[k]; "
                                            "ExtractionInterface.from_json(json.loads(json.dumps(x.to_json())))"})
                    jf = S.serialize_extraction(o, include_binary=False)
                    if jtext(S.serialize_extraction(null_binary(o), include_binary=True)) != jtext(jf):
                        ctx.finding(f"no-binary-differs:{label}", "include_binary=False changed more than the binary fields",
                                    doc_replay(label, p))
                    if len(text) < 40_000 and len(results_small) < ctx.n(8, 40):
                        results_small.append((key, o))
              except Exception as e:  # noqa  — never let an implementation exception stop the harness
                ctx.finding(f"implementation-raises:{label}", f"an accessor/serialiser call raises {e!r} on the result of {label}",
                            {**doc_replay(label, p), "error": repr(e), "trace": __import__("traceback").format_exc()[-1500:]})

        ctx.obligation("inventory: every leaf of every real extraction result lies in the modelled value universe "
                       "(exact builtin types, open BytesIO)", not universe_bad, str(universe_bad[:4]))
        mark("documents")
        # ---- CLI: four JSON modes, on single results, on multi-result fixtures, on a generated archive whose members
        # carry images (binary payloads in the units AND in the extraction objects), and on combinations of real
        # image-bearing results with shortened payloads (small enough for the model comparison in Coq)
        cli_inputs = []                     # (label, path, results)
        cli_docs = [(lb, p) for lb, p in docs if lb.startswith(("xlsx-", "xls-", "ods-"))]
        for want in ("fixture:modern_ms", "fixture:plain_text", "fixture:mails", "fixture:html", "fixture:open_office",
                     "fixture:legacy_ms"):
            c = [(lb, p) for lb, p in docs if lb.startswith(want) and p.stat().st_size < 400_000]
            cli_docs += c[:ctx.n(1, 4)]
        if multi:
            cli_docs.append(multi)
        for label, p in cli_docs:
            try:
                cli_inputs.append((label, p, list(sharepoint2text.read_file(str(p)))))
            except Exception:  # noqa
                continue
        # results whose content dicts carry marker-named keys (the known finding's shape): the CLI output must still be
        # exactly serialize_extraction(include_binary=flag) of them
        anyp = docs[0][1]
        for hdr in ("_bytes", "_bytesio", "_type"):
            try:
                w1 = reg["XlsContent"](sheets=[reg["XlsSheet"](name="S", data=[{hdr: 5, "name": "a"}, {hdr: "aGk=", "name": "b"}], text="t")])
                cli_inputs.append((f"generated:xls-result-with-{hdr}-header", anyp, [w1]))
                cli_inputs.append((f"generated:xls-result-with-{hdr}-header-twice", anyp, [copy.deepcopy(w1), copy.deepcopy(w1)]))
            except Exception:  # noqa
                pass
        unit_bin.sort(key=lambda lp: lp[1].stat().st_size)
        picks = unit_bin[:ctx.n(3, 6)]
        ctx.extra["cli_binary_unit_sources"] = [lb for lb, _ in picks]
        if len(picks) >= 2:
            import zipfile
            zp = td / "two_with_images.zip"
            with zipfile.ZipFile(zp, "w") as z:
                z.write(picks[0][1], "a/" + picks[0][1].name)
                z.write(picks[0][1], "b/copy_" + picks[0][1].name)
                z.write(picks[1][1], "c/" + picks[1][1].name)
            try:
                rs_zip = list(sharepoint2text.read_file(str(zp)))
                cli_inputs.append(("generated:zip-of-documents-with-images", zp, rs_zip))
            except Exception as e:  # noqa
                ctx.obligation("generated archive with image-bearing members is extracted", False, repr(e))
        shrunk = []
        for lb, p in picks:
            try:
                shrunk.append((lb, p, [shrink_payloads(r) for r in sharepoint2text.read_file(str(p))]))
            except Exception:  # noqa
                continue
        att = [(lb, p) for lb, p in docs if lb.startswith("fixture:mails") and lb in result_bin]
        if att:
            try:
                shrunk.append((att[0][0], att[0][1], [shrink_payloads(r) for r in sharepoint2text.read_file(str(att[0][1]))]))
            except Exception:  # noqa
                pass
        for i, (lb, p, rs_) in enumerate(shrunk):
            cli_inputs.append((f"shrunk:{lb}", p, rs_))
            if i + 1 < len(shrunk):
                cli_inputs.append((f"shrunk:{lb}+{shrunk[i + 1][0]}", p, copy.deepcopy(rs_) + copy.deepcopy(shrunk[i + 1][2])))
        if len(shrunk) >= 3:
            cli_inputs.append(("shrunk:all", shrunk[0][1], [copy.deepcopy(r) for _, _, rs_ in shrunk for r in rs_]))
        have_multi_bin = any(len(rs_) > 1 and any(payloads(u) for r in rs_ for u in copy.deepcopy(r).iterate_units())
                             and any(payloads(r) for r in rs_) for _, _, rs_ in cli_inputs)
        ctx.obligation("cli inputs include >=2 results with binary payloads in units and in extraction objects",
                       have_multi_bin, f"image-bearing fixtures found: {[lb for lb, _ in unit_bin][:6]}")

        astp = cli_ast_problems()
        ctx.obligation("cli.py: include_binary is handed explicitly to every serialiser call (ast)", not astp, "; ".join(astp))
        cli_cases = []
        for label, p, base in cli_inputs:
            content_markers = any(has_marker_key(r) for r in base)
            for binary in (False, True):
                parsed_by_flag = {}
                for flag in ("--json", "--json-unit"):
                    # The CLI is run on exactly these results (read_file patched to replay them): extraction need not
                    # be deterministic (C06: timestamps of "now", iterate_units mutating a result) and C05 only
                    # speaks about the shaping/encoding of given results.
                    argv = [str(p), flag] + (["--binary"] if binary else [])
                    orig_read = sharepoint2text.read_file
                    seen_args = []
                    sharepoint2text.read_file = lambda *a, _b=base, **k: (seen_args.append((a, k)), iter(copy.deepcopy(_b)))[1]
                    try:
                        rc, out, err = run_cli(argv)
                    finally:
                        sharepoint2text.read_file = orig_read
                    if rc == 0 and not (len(seen_args) == 1 and len(seen_args[0][0]) == 1 and not seen_args[0][1]
                                        and os.fspath(seen_args[0][0][0]) == str(p)):
                        ctx.finding("cli-read_file-argument", f"the CLI does not hand the given path to read_file unchanged: given "
                                    f"{str(p)!r}, read_file called with {[tuple(map(repr, a)) for a, _ in seen_args][:2]}",
                                    {**doc_replay(label, p), "argv": argv[1:]})
                    rs = copy.deepcopy(base)
                    several = "one" if len(rs) == 1 else "several"
                    mode = f"{flag}{'+binary' if binary else ''}:{several}"
                    ctx.case(("cli", label, flag, binary), True, kind=f"cli:{mode}" +
                             (":binary-in-units" if any(payloads(u) for r in copy.deepcopy(base) for u in r.iterate_units()) else ""))
                    try:
                        if flag == "--json":
                            per = [S.serialize_extraction(r, include_binary=binary) for r in rs]
                        else:
                            per = [[S.serialize_extraction(u, include_binary=binary) for u in r.iterate_units()] for r in rs]
                    except Exception as e:  # noqa
                        ctx.finding(f"implementation-raises:cli-expected:{label}", f"serialize_extraction/iterate_units raises {e!r} for {label}",
                                    {"input": label, "document": str(p), "error": repr(e)})
                        continue
                    want_payload = per[0] if len(rs) == 1 else per
                    try:
                        want_text = json.dumps(want_payload) + "\n"
                    except Exception as e:  # noqa
                        want_text = None
                    rp = {**doc_replay(label, p), "argv": argv[1:], "exit": rc, "stdout_len": len(out),
                          "stderr": err[-300:], "results": [type(r).__name__ for r in rs],
                          **({"results_python": [repr(r)[:1500] for r in rs],
                              "document_note": "results are constructed objects handed to the CLI through a patched read_file"}
                             if label.startswith("generated:xls-result") else {}),
                          "how": "list(sharepoint2text.read_file(document)) gives the results (for shrunk:* inputs the binary "
                                 "payloads are cut to 6 bytes and several fixtures' results are concatenated); "
                                 "sharepoint2text.cli.main([document] + argv)"}
                    if want_text is None:
                        # payload is not encodable (reported above as its own finding); the CLI must then fail cleanly
                        if out.strip():
                            ctx.finding(f"cli-partial-json-on-stdout:{label}",
                                        f"CLI {flag} exits {rc} after writing {len(out)} bytes of truncated JSON to stdout "
                                        f"for {label}", rp)
                        elif rc == 0:
                            ctx.finding(f"cli-exit0-without-output:{label}", "CLI returned 0 without JSON", rp)
                        continue
                    try:
                        parsed = json.loads(out) if rc == 0 else None
                    except Exception:  # noqa
                        parsed = None
                    if rc == 0 and any(tok in out for tok in ("NaN", "Infinity")):
                        try:
                            json.loads(out, parse_constant=lambda c_: (_ for _ in ()).throw(ValueError(c_)))
                        except ValueError as e:
                            ctx.finding(f"cli-non-json-token:{flag}", f"CLI {flag} output for {label} contains the token {e} "
                                        f"(not JSON; strict parsers reject it)", rp)
                            continue
                    # without --binary no binary marker with a payload may appear anywhere in the output
                    if parsed is not None and not binary and not content_markers:
                        leak = binary_marker_paths(parsed)
                        if leak:
                            rp2 = dict(rp, marker_paths=leak[:5])
                            ctx.finding(f"cli-binary-leak:{flag}:{several}",
                                        f"CLI {flag} without --binary emits base64 payloads ({len(leak)} markers, first at "
                                        f"{leak[0]}) for {label}", rp2)
                            continue
                    if rc != 0 or out != want_text:
                        ctx.finding(f"cli-output-differs:{mode}",
                                    f"CLI stdout is not json.dumps of the shaped payload (exit {rc}) for {label}", rp)
                        continue
                    shape_ok = (isinstance(parsed, dict) if (flag == "--json" and len(rs) == 1) else isinstance(parsed, list))
                    if not shape_ok:
                        ctx.finding(f"cli-shape:{flag}", f"{label}: one result must give an object, several an array", rp)
                    parsed_by_flag[flag] = (parsed, len(out))
                # model vs the CLI's two actual outputs for this include_binary
                if len(parsed_by_flag) == 2 and sum(n for _, n in parsed_by_flag.values()) < ctx.n(90_000, 160_000):
                    rs = copy.deepcopy(base)
                    tb = Tables()
                    rterm = coq_list([f"({val_term(r, tb)}, {coq_list([val_term(u, tb) for u in copy.deepcopy(r).iterate_units()])})"
                                      for r in rs])
                    cli_cases.append(f"({rterm}, {tb.enc_table()}, {coq_bool(binary)}, "
                                     f"{json_term(parsed_by_flag['--json'][0])}, {json_term(parsed_by_flag['--json-unit'][0])})")
                    ctx.count("cli-model-case:" + ("several" if len(base) > 1 else "one") + (":binary" if binary else ""))

        # ---- CLI end to end (read_file NOT patched) over the FORM of the path argument: the CLI's JSON must be the JSON of
        # the library result for the very path given — regular, relative (several cwd-relative spellings), symbolic links
        # whose target has another name / extension / folder / no extension, links to links, linked directories
        forms = make_path_forms(td)
        ctx.extra["cli_path_forms"] = [f[0] for f in forms]

        def cli_vs_library(form):
            label_, cwd_, arg_, flag_, binary_ = form
            old_cwd = os.getcwd()
            os.chdir(cwd_)
            try:
                try:
                    lib = [r for r in sharepoint2text.read_file(arg_)]
                    if flag_ == "--json":
                        per_ = [S.serialize_extraction(r, include_binary=binary_) for r in lib]
                    else:
                        per_ = [[S.serialize_extraction(u, include_binary=binary_) for u in r.iterate_units()] for r in lib]
                    want_ = json.dumps(per_[0] if len(lib) == 1 else per_) + "\n"
                except Exception as e:  # noqa
                    want_ = ("LIBRARY-RAISES", type(e).__name__)
                rc_, out_, err_ = run_cli([arg_, flag_] + (["--binary"] if binary_ else []))
            finally:
                os.chdir(old_cwd)
            if isinstance(want_, tuple):
                return ("both-fail",) if rc_ != 0 and not out_.strip() else ("cli-succeeds-library-raises", want_[1], out_[:200])
            if rc_ == 0 and out_ == want_:
                return ("same", hashlib.sha1(out_.encode("utf-8", "surrogatepass")).hexdigest()[:12])
            meta = lambda s: [m[:120] for m in __import__("re").findall(r'"(?:filename|file_extension|folder_path)": "[^"]*"', s)][:6]  # noqa: E731
            return ("differs", rc_, meta(out_), meta(want_), err_[-160:])

        form_cases = [(lb, str(cw), a, fl, b) for lb, cw, a in forms for fl in ("--json", "--json-unit") for b in (False,)]
        form_cases += [(lb, str(cw), a, "--json", True) for lb, cw, a in forms[:3]]
        for fc in form_cases:
            res = cli_vs_library(fc)
            ctx.case(("cli-path-form", fc[0], fc[3]), True, kind="cli-path-form:" + fc[0].split(":")[0])
            if res[0] not in ("same", "both-fail"):
                ctx.finding(f"cli-differs-from-library:{fc[0].split(':')[0]}",
                            f"CLI {fc[3]} for the path form '{fc[0]}' (argument {fc[2]!r}) is not the JSON of read_file of that "
                            f"path: {res}", {"form": fc[0], "cwd": "<temp dir>", "argument": fc[2], "flag": fc[3], "result": res,
                                             "layout": PATH_FORM_LAYOUT})
        common.env_sweep(ctx, "cli-json-vs-library", cli_vs_library, form_cases[:ctx.n(16, 40)], describe=lambda c: f"{c[0]} {c[3]}")

    # ---- the environment must not matter: DEBUG logging, worker thread, time zones, cwd — for the round trip of generated
    # instances and for extraction -> to_json of small fixtures
    sample = list(range(0, len(insts), max(1, len(insts) // ctx.n(100, 400))))

    def rt_view(i):
        x_ = copy.deepcopy(insts[i])
        tj_ = S.serialize_extraction(x_)
        tn_ = S.serialize_extraction(x_, include_binary=False)
        try:
            y_ = S.deserialize_extraction(json.loads(json.dumps(tj_)))
            back = (type(y_).__name__, jtext(S.serialize_extraction(y_)))
        except Exception as e:  # noqa
            back = ("EXC", type(e).__name__)
        return hashlib.sha1(repr((jtext(tj_), jtext(tn_), back)).encode("utf-8", "surrogatepass")).hexdigest()[:16]

    common.env_sweep(ctx, "instance-roundtrip", rt_view, sample, describe=lambda i: f"instance #{i} ({type(insts[i]).__name__})")
    small_fx = [str(p) for p in fixture_files() if p.stat().st_size < 60_000 and "password" not in str(p)][:ctx.n(12, 60)]

    def fx_view(path):
        rs_ = list(sharepoint2text.read_file(path))
        return hashlib.sha1("\n".join(jtext(S.serialize_extraction(r, include_binary=False)) for r in rs_)
                            .encode("utf-8", "surrogatepass")).hexdigest()[:16]

    common.env_sweep(ctx, "fixture-to_json", fx_view, small_fx, describe=lambda s_: s_.split("/resources/")[-1])
    mark("cli")
    # model vs implementation on the small real results and the CLI payloads
    rcases = []
    for key, o in results_small:
        tb = Tables()
        vt = val_term(o, tb)
        rcases.append(f"({vt}, {tb.enc_table()}, {json_term(S._serialize_for_json(o, include_binary=True))}, "
                      f"{json_term(S._serialize_for_json(o, include_binary=False))}, {json_term(o.to_json())})")
    f_real = POOL.submit(coq_eval_shards, ctx, "real", PRE, "ser_case", rcases, shard=2, timeout=900,
                         ty="val * list (bytes * str) * json * json * json") if rcases else None
    f_cli = POOL.submit(coq_eval_shards, ctx, "cli", PRE, "cli_case", cli_cases, shard=2, timeout=900,
                        ty="list (val * list val) * list (bytes * str) * bool * json * json") if cli_cases else None
    finish_instances()
    finish_deser()
    finish_cells()
    finish_b64()
    if rcases:
        okr, fr, logr = f_real.result()
        ctx.traces += len(rcases)
        ctx.obligation("correspondence:serialize model==implementation on real extraction results", okr and not fr,
                       (f"{len(fr)} disagreements, first: {results_small[fr[0]][0] if fr else ''} " + logr)[:1500])
    if cli_cases:
        okc, fc, logc = f_cli.result()
        ctx.traces += len(cli_cases)
        ctx.obligation("correspondence:cli payload shaping model==implementation", okc and not fc,
                       (f"{len(fc)} disagreements " + logc)[:1500])
    mark("real+cli-coq")
    ctx.extra["real_results_in_coq"] = len(rcases)
    ctx.extra["cli_cases_in_coq"] = len(cli_cases)


META = {
    "technique": "Coq proof over a value universe (val/json/ty) of an executable model of serialization.py + cli shaping, "
                 "parametric in the registry and in base64/isspace; registry dumped from the live modules with "
                 "kernel-decided well-formedness; vm_compute differential correspondence",
    "design_ref": "DESIGN.md §5 C05",
    "level_text": "Kernel-checked: no foreign leaf => to_json is json-encodable; for every well-typed instance without "
                  "marker-named dict keys from_json(loads(dumps(to_json v))) = canon v (same class, same to_json with and "
                  "without binary, same payloads); include_binary=False equals serialising the value with exactly its "
                  "binary leaves set to None; BytesIO position restored; CLI shape. The unrestricted 'markers never "
                  "confused' statement is refuted with a witness replayed on the real registry. Model tied to the code by "
                  "the regenerated registry (registry_wf, hints_known, defaults_ok) and ~3k differential cases per run.",
    "level_note": "Trusted: Coq kernel+VM; G-dump printer and the ast inventories (codec helpers, cli.py flag flow); hand-written "
                  "model (validated differentially). base64 is now a proved executable model (C05_roundtrip_concrete_codec, "
                  "C05_decoder_sees_only_canonical) tied to the library on sampled strings; Python's lenient b64decode on "
                  "non-canonical input is proved irrelevant for to_json output. Outside, by nature: the json module's text "
                  "encoder/decoder (third party; taken as identity on values without foreign leaves, validated on every case, "
                  "incl. NaN/Infinity tokens and lone surrogates); cyclic object graphs and interpreter recursion limits "
                  "(runtime; nesting depth 30/60 is sampled); closed BytesIO and str/int/list subclasses are not in the value "
                  "universe — an inventory obligation checks that no real extraction result contains them; exception classes "
                  "other than deserialize_extraction's ValueError are one class 'raises'; payload lengths above 2 MiB only around "
                  "constants found in serialization.py.",
}
