"""C12 — explicit limits hold exactly; archive members above the limit; size arithmetic of amplifiers.

G: limits dumped from the live modules (Gen/C12Limits.v) + Inst obligations.
D: model (vm_compute) vs implementation for the limit decisions, the member event traces (zip/tar/7z, monitored
   from outside) and the ODS expansion shape; measured sandboxed workers for the amplifiers (measurement, not proof).
"""
from __future__ import annotations

import inspect
from pathlib import Path
import io
import json
import os
import resource
import subprocess
import sys
import tarfile
import tempfile
import time
import zipfile

import common
from common import coq_eval_shards


def gen_limits(ctx):
    import sharepoint2text
    from sharepoint2text.parsing.extractors import archive_extractor as ae
    d = {
        "MAX_7Z_FILE_SIZE": ae.MAX_7Z_FILE_SIZE,
        "READ_FILE_DEFAULT_MAX": inspect.signature(sharepoint2text.read_file).parameters["max_file_size"].default,
        "MAX_MEMORY_SIZE": ae.MAX_MEMORY_SIZE,
        "MAX_ARCHIVE_FILE_SIZE": ae.MAX_ARCHIVE_FILE_SIZE,
    }
    txt = "(* GENERATED on every check run from the live modules of /repo — do not edit. *)\n"
    txt += "From Coq Require Import ZArith.\nOpen Scope Z_scope.\n"
    for k, v in d.items():
        txt += f"Definition {k} : Z := {int(v)}.\n"
    ctx.gen_write("Gen/C12Limits.v", txt)
    return d


class FakeSized(io.BytesIO):
    """A stream that reports an arbitrary size to seek(0, END)/tell() without holding the bytes."""
    def __init__(self, size):
        super().__init__(b"7z\xbc\xaf\x27\x1c" + b"\0" * 64)
        self._size = size
        self._at_end = False

    def seek(self, off, whence=0):
        self._at_end = whence == os.SEEK_END
        return super().seek(off if not self._at_end else 0, 0 if self._at_end else whence)

    def tell(self):
        return self._size if self._at_end else super().tell()


def d_limits(ctx, lim):
    import sharepoint2text
    from sharepoint2text.parsing.exceptions import ExtractionFileTooLargeError
    from sharepoint2text.parsing.extractors import archive_extractor as ae
    cases, info = [], []
    with tempfile.TemporaryDirectory(dir="/var/tmp") as td:
        for L in [1, 2, 5, 100, 4096, 0, -1, -100]:
            for s in sorted({0, 1, abs(L) - 1, abs(L), abs(L) + 1, 2 * abs(L) + 3, 5000}):
                if s < 0:
                    continue
                fp = os.path.join(td, f"f_{L}_{s}.txt")
                with open(fp, "wb") as fh:
                    fh.write(b"x" * s)
                # the limit is about the size of the FILE that is read, however the path names it
                forms = [("plain", fp)]
                try:
                    lk = os.path.join(td, f"l_{L}_{s}.txt")
                    os.symlink(fp, lk)
                    forms.append(("symlink", lk))
                    lk2 = os.path.join(td, f"ll_{L}_{s}.txt")
                    os.symlink(os.path.basename(lk), lk2)
                    forms.append(("symlink-chain-relative", lk2))
                    forms.append(("pathlib", Path(fp)))
                    forms.append(("dot-segments", os.path.join(td, ".", "..", os.path.basename(td), os.path.basename(fp))))
                except OSError:
                    pass
                outcomes = {}
                for form, arg in forms:
                    r_ = False
                    try:
                        list(sharepoint2text.read_file(arg, max_file_size=L))
                    except ExtractionFileTooLargeError:
                        r_ = True
                    except Exception:  # noqa
                        pass
                    outcomes[form] = r_
                refused = outcomes["plain"]
                for form, r_ in outcomes.items():
                    if r_ != refused:
                        ctx.finding(f"read_file-limit:access-form:{form}", f"read_file(max_file_size={L}) on a {s}-byte file reached through "
                                    f"'{form}': refused={r_}, through the plain path: {refused}", {"max_file_size": L, "size": s, "form": form})
                ctx.case(("read_file", L, s), abs(s - abs(L)) <= 1, kind="limit:read_file")
                cases.append(f"({L}, {s}, {'true' if refused else 'false'})%Z")
                info.append((L, s, refused))
                # oracle
                want = L > 0 and s > L
                if refused != want:
                    ctx.finding(f"read_file-limit:{L}:{'over' if s > L else 'under'}",
                                f"read_file(max_file_size={L}) on a {s}-byte file: refused={refused}, expected {want}",
                                {"max_file_size": L, "size": s})
    pre = "From S2T Require Import C12.Model C12.Corr.\nOpen Scope Z_scope.\n"
    ok, failing, log = coq_eval_shards(ctx, "rf", pre, "read_file_case", cases, ty="Z * Z * bool")
    ctx.obligation("correspondence:read_file_refuses==read_file size check", ok and not failing,
                   f"{[info[i] for i in failing[:5]]} {log[:500]}")
    # 7z size limit
    cases, info = [], []
    L7 = lim["MAX_7Z_FILE_SIZE"]
    for s in [0, 32, L7 - 1, L7, L7 + 1, 2 * L7, 10 ** 12]:
        refused = False
        try:
            list(ae._extract_from_7z_optimized(FakeSized(s), None))
        except ExtractionFileTooLargeError:
            refused = True
        except Exception:  # noqa
            pass
        ctx.case(("7z-size", s), abs(s - L7) <= 1, kind="limit:7z")
        cases.append(f"({L7}, {s}, {'true' if refused else 'false'})%Z")
        info.append((s, refused))
        if refused != (s > 100 * 1024 * 1024):
            ctx.finding(f"7z-limit:{'over' if s > 100 * 1024 * 1024 else 'under'}",
                        f"7z archive of {s} bytes: refused={refused}; documented limit is 100 MB", {"size": s})
    ok, failing, log = coq_eval_shards(ctx, "sz", pre, "sevenz_case", cases, ty="Z * Z * bool")
    ctx.obligation("correspondence:sevenz_refuses==7z archive size check", ok and not failing,
                   f"{[info[i] for i in failing[:5]]} {log[:500]}")


def d_archives(ctx):
    """Member event traces: which members are read (zip/tar) / written to the temp dir (7z) / processed."""
    import sevenz_min
    from sharepoint2text.parsing.extractors import archive_extractor as ae
    rng = ctx.rng
    # the per-member limit is RE-CONFIGURED between archives (lower and higher than before): the limit in force is
    # the one configured when the archive is read, whatever the process extracted or configured earlier
    LIMITS = [64, 40, 96, 64, 128, 48, 200, 33]
    LIMIT = LIMITS[0]
    limit_hist = []
    saved = ae._config
    zcases, scases, zinfo, sinfo = [], [], [], []
    reads, writes = [], []
    orig_read = zipfile.ZipFile.read
    orig_extractfile = tarfile.TarFile.extractfile
    orig_seq = ae._process_7z_files_sequential

    def spy_read(self, name, *a, **k):
        # identify the member actually read by its position in the central directory (names may repeat)
        info = name if isinstance(name, zipfile.ZipInfo) else self.getinfo(name)
        idx = [i for i, x in enumerate(self.infolist()) if x is info]
        reads.append(idx[0] if idx else -1)
        return orig_read(self, name, *a, **k)

    def spy_extractfile(self, member):
        m = member if isinstance(member, tarfile.TarInfo) else self.getmember(member)
        idx = [i for i, x in enumerate(self.getmembers()) if x is m]
        reads.append(idx[0] if idx else -1)
        return orig_extractfile(self, member)

    def spy_seq(files_to_process, temp_dir, archive_path):
        for root, _, fs in os.walk(temp_dir):
            for f in fs:
                writes.append(os.path.relpath(os.path.join(root, f), temp_dir))
        return orig_seq(files_to_process, temp_dir, archive_path)

    zipfile.ZipFile.read = spy_read
    tarfile.TarFile.extractfile = spy_extractfile
    ae._process_7z_files_sequential = spy_seq
    try:
        # scripted scenarios first: same-name members on both sides of the limit, in both orders
        def mk_scripted(LIMIT):
          scripted = []
          for fmt0 in ("zip", "zip-stored", "tar", "tar.gz"):
            for a, b in ((LIMIT - 4, LIMIT * 3), (LIMIT * 3, LIMIT - 4), (LIMIT, LIMIT + 1), (LIMIT + 1, LIMIT)):
                scripted.append((fmt0, [(0, "same.txt", "txt", a), (1, "same.txt", "txt", b), (2, "other.txt", "txt", 5)]))
                scripted.append((fmt0, [(0, "x.txt", "txt", 7), (1, "d/same.md", "md", a), (2, "d/same.md", "md", b)]))
          # tar link / special members: not regular files, must never be read (a hard link to an oversize
          # member would otherwise be materialised under the link's name)
          for fmt0 in ("tar", "tar.gz"):
            for a in (LIMIT * 3, LIMIT - 4):
                scripted.append((fmt0, [(0, "big.txt", "txt", a), (1, "hard.txt", "lnk:big.txt", 0), (2, "soft.txt", "sym:big.txt", 0),
                                        (3, "fifo.txt", "fifo", 0), (4, "z.txt", "txt", 5)]))
          return scripted
        n_scripted = len(mk_scripted(64))
        n_random = ctx.n(90, 600)
        for it in range(n_scripted + n_random):
            LIMIT = LIMITS[it % len(LIMITS)] if it % 3 else LIMITS[(it // 3) % len(LIMITS)]
            ae.configure_archive_extraction(max_memory_size=LIMIT)
            ctx.count(f"archive:limit-in-force:{LIMIT}")
            limit_hist.append(LIMIT)
            scripted = mk_scripted(LIMIT)
            n = rng.randint(0, 6) if it >= len(scripted) else 0
            members = [] if it >= len(scripted) else list(scripted[it][1])
            for i in range(n):
                kind = rng.choice(["txt", "txt", "txt", "dir", "hidden", "unsupported", "md"])
                size = rng.choice([0, 1, LIMIT - 1, LIMIT, LIMIT + 1, LIMIT * 3, rng.randint(0, 200)])
                name = {"txt": f"f{i}.txt", "md": f"d/g{i}.md", "dir": f"dir{i}/", "hidden": f".h{i}.txt",
                        "unsupported": f"u{i}.bin"}[kind]
                if (members and kind in ("txt", "md") and members[-1][2] in ("txt", "md") and rng.random() < 0.25
                        and size > 0 and members[-1][3] > 0):
                    name = members[-1][1]          # duplicate member name (legal in zip and tar); both non-empty so
                                                   # that the content token identifies which one produced a result
                members.append((i, name, kind, size))
            fmt = rng.choice(["zip", "zip-stored", "tar", "tar.gz", "7z", "7z-solid"]) if it >= len(scripted) else scripted[it][0]
            if fmt.startswith("7z") and len({nm for _, nm, _, _ in members}) < len(members):
                members = [(i, (nm if k == "dir" else f"u{i}_" + nm), k, sz) for i, nm, k, sz in members]  # 7z: keep names unique
            data_of = {}
            special = lambda k: k == "dir" or k == "fifo" or k.startswith(("lnk:", "sym:"))
            for i, nm, k, sz in members:
                tok = b"%d " % i
                data_of[i] = (tok * ((max(sz, len(tok)) // len(tok)) + 1))[:max(sz, len(tok))] if (sz > 0 and not special(k)) else b""
            del reads[:], writes[:]
            buf = io.BytesIO()
            if fmt.startswith("zip"):
                with zipfile.ZipFile(buf, "w", zipfile.ZIP_STORED if fmt == "zip-stored" else zipfile.ZIP_DEFLATED) as zf:
                    for i, nm, k, sz in members:
                        zf.writestr(nm, b"" if k == "dir" else data_of[i])
                path = "a.zip"
            elif fmt.startswith("tar"):
                with tarfile.open(fileobj=buf, mode="w:gz" if fmt == "tar.gz" else "w") as tf:
                    for i, nm, k, sz in members:
                        ti = tarfile.TarInfo(nm.rstrip("/"))
                        if k == "dir":
                            ti.type = tarfile.DIRTYPE
                            tf.addfile(ti)
                        elif k.startswith(("lnk:", "sym:")) or k == "fifo":
                            ti.type = {"lnk": tarfile.LNKTYPE, "sym": tarfile.SYMTYPE, "fif": tarfile.FIFOTYPE}[k[:3]]
                            if ":" in k:
                                ti.linkname = k.split(":", 1)[1]
                            tf.addfile(ti)
                        else:
                            ti.size = len(data_of[i])
                            tf.addfile(ti, io.BytesIO(data_of[i]))
                path = "a.tar.gz" if fmt == "tar.gz" else "a.tar"
            else:
                buf = io.BytesIO(sevenz_min.write_7z(
                    [(nm.rstrip("/"), None if k == "dir" else data_of[i]) for i, nm, k, sz in members],
                    solid=(fmt == "7z-solid")))
                path = "a.7z"
            try:
                results = list(ae.read_archive(io.BytesIO(buf.getvalue()), path))
                err = None
            except Exception as e:  # noqa
                results, err = [], repr(e)
            id_of = {nm.rstrip("/"): i for i, nm, k, sz in members}
            base_to_id = {os.path.basename(nm.rstrip("/")): i for i, nm, k, sz in members}

            def result_id(r):
                txt = r.get_full_text().split()
                if txt and txt[0].isdigit():
                    return int(txt[0])          # the content names the member it came from
                return base_to_id.get(r.get_metadata().filename, 999)
            pr_ids = [result_id(r) for r in results]
            mem_terms = []
            for i, nm, k, sz in members:
                regular = not special(k)
                skip = ae._should_skip_file(nm, os.path.basename(nm)) if regular else False
                real_size = len(data_of[i]) if regular else 0
                mem_terms.append(f"({i}%nat, {real_size}, {'true' if regular else 'false'}, {'true' if skip else 'false'})")
            nontriv = any(len(data_of[i]) > LIMIT for i, nm, k, sz in members if k != "dir")
            ctx.case((fmt, tuple(members)), nontriv, kind=f"archive:{fmt}")
            natl = lambda l: "[" + ";".join(f"{x}%nat" for x in l) + "]"
            if fmt.startswith("7z"):
                # 7z with empty files: members with no data have no stream -> not written by extractall
                wr_ids = sorted(id_of.get(w, 999) for w in writes)
                scases.append(f"({LIMIT}, [{';'.join(mem_terms)}], {natl(wr_ids)}, {natl(pr_ids)})")
                sinfo.append((fmt, members, wr_ids, pr_ids, err))
                for i, nm, k, sz in members:
                    if k != "dir" and len(data_of[i]) > LIMIT and i in wr_ids:
                        ctx.finding("7z-oversize-member-decompressed-and-written",
                                    f"7z member {nm} ({len(data_of[i])} B > per-member limit {LIMIT} B) was decompressed and "
                                    f"written to the temporary directory by extractall()",
                                    {"format": fmt, "members": members, "limit": LIMIT, "archive": buf.getvalue()})
                    if k != "dir" and len(data_of[i]) > LIMIT and i in pr_ids:
                        ctx.finding(f"oversize-member-processed:{fmt}", f"oversize member {nm} ({len(data_of[i])} B > limit in force "
                                    f"{LIMIT} B, configured after {limit_hist[-4:-1]}) produced a result",
                                    {"format": fmt, "members": members, "archive": buf.getvalue(), "limit_in_force": LIMIT,
                                     "limits_configured_before_in_this_process": limit_hist[:-1][-6:]})
            else:
                rd_ids = list(reads)
                for i, nm, k, sz in members:
                    if special(k) and k != "dir" and (i in rd_ids or i in pr_ids):
                        ctx.finding(f"non-regular-member-read:{fmt}:{k[:3]}", f"{fmt} member {nm} ({k}) is not a regular file but was read/processed",
                                    {"format": fmt, "members": members, "archive": buf.getvalue()})
                zcases.append(f"({LIMIT}, [{';'.join(mem_terms)}], {natl(rd_ids)}, {natl(pr_ids)})")
                zinfo.append((fmt, members, rd_ids, pr_ids, err))
                for i, nm, k, sz in members:
                    if k != "dir" and len(data_of[i]) > LIMIT and (i in rd_ids or i in pr_ids):
                        ctx.finding(f"oversize-member-read:{fmt}", f"{fmt} member {nm} ({len(data_of[i])} B) above the per-member limit "
                                    f"in force ({LIMIT} B, configured after {limit_hist[-4:-1]}) was decompressed/processed",
                                    {"format": fmt, "members": members, "archive": buf.getvalue(), "limit_in_force": LIMIT,
                                     "limits_configured_before_in_this_process": limit_hist[:-1][-6:]})
    finally:
        zipfile.ZipFile.read = orig_read
        tarfile.TarFile.extractfile = orig_extractfile
        ae._process_7z_files_sequential = orig_seq
        ae._config = saved
    pre = "From S2T Require Import C12.Model C12.Corr.\nOpen Scope Z_scope.\n"
    ty = "Z * list (nat * Z * bool * bool) * list nat * list nat"
    ok, failing, log = coq_eval_shards(ctx, "zip", pre, "zip_case", zcases, ty=ty)
    ctx.obligation("correspondence:zip_events==monitored zip/tar member reads+results", ok and not failing,
                   f"{[zinfo[i] for i in failing[:3]]} {log[:500]}")
    # the 7z model says every regular member is written; members without data have no stream in a real archive
    scases2 = []
    for c, (fmt, members, wr, pr, err) in zip(scases, sinfo):
        scases2.append(c)
    ok, failing, log = coq_eval_shards(ctx, "svz", pre, "sevenz_arch_case", scases2, ty=ty)
    ctx.obligation("correspondence:sevenz_events==monitored 7z temp-dir writes+results", ok and not failing,
                   f"{[sinfo[i] for i in failing[:3]]} {log[:500]}")


ODS_NS = ('xmlns:office="urn:oasis:names:tc:opendocument:xmlns:office:1.0" '
          'xmlns:table="urn:oasis:names:tc:opendocument:xmlns:table:1.0" '
          'xmlns:text="urn:oasis:names:tc:opendocument:xmlns:text:1.0"')


# encodings of a cell that shows nothing (no text, no usable value): all of them are "empty" for the repeat caps
BLANK_CELLS = [
    '<table:table-cell{rep}/>',
    '<table:table-cell{rep} office:value-type="string"><text:p/></table:table-cell>',
    '<table:table-cell{rep} office:value-type="string" office:string-value=""/>',
    '<table:table-cell{rep} office:value-type="string" office:string-value=""><text:p/></table:table-cell>',
    '<table:table-cell{rep} office:value-type="float" office:value=""/>',
    '<table:table-cell{rep} office:value-type="date" office:date-value=""/>',
    '<table:table-cell{rep} office:value-type="boolean" office:boolean-value=""><text:p></text:p></table:table-cell>',
    '<table:table-cell{rep} office:value-type="" table:style-name="ce1"/>',
    '<table:table-cell{rep} office:value-type="string"><text:p><text:span/></text:p></table:table-cell>',
]
FILLED_CELLS = [
    '<table:table-cell{rep} office:value-type="string"><text:p>v</text:p></table:table-cell>',
    '<table:table-cell{rep} office:value-type="float" office:value="0"><text:p>0</text:p></table:table-cell>',
    '<table:table-cell{rep} office:value-type="boolean" office:boolean-value="false"><text:p>FALSE</text:p></table:table-cell>',
    '<table:table-cell{rep}><text:p>w</text:p></table:table-cell>',
]


def ods_bytes(rows, variants=None):
    """rows: [(row_repeat, [(cell_repeat, is_none)])]; variants: optional parallel structure of encoding indices"""
    x = [f'<?xml version="1.0" encoding="UTF-8"?><office:document-content {ODS_NS}><office:body><office:spreadsheet>'
         '<table:table table:name="S">']
    for ri, (rrep, cells) in enumerate(rows):
        x.append(f'<table:table-row table:number-rows-repeated="{rrep}">')
        for ci, (crep, none) in enumerate(cells):
            v = variants[ri][ci] if variants else 0
            tmpl = (BLANK_CELLS[v % len(BLANK_CELLS)] if none else FILLED_CELLS[v % len(FILLED_CELLS)])
            x.append(tmpl.replace("{rep}", f' table:number-columns-repeated="{crep}"'))
        x.append("</table:table-row>")
    x.append("</table:table></office:spreadsheet></office:body></office:document-content>")
    buf = io.BytesIO()
    with zipfile.ZipFile(buf, "w") as z:
        z.writestr("mimetype", "application/vnd.oasis.opendocument.spreadsheet")
        z.writestr("content.xml", "".join(x))
        z.writestr("META-INF/manifest.xml", '<?xml version="1.0"?><manifest:manifest xmlns:manifest='
                   '"urn:oasis:names:tc:opendocument:xmlns:manifest:1.0"/>')
    return buf.getvalue()


def d_ods(ctx):
    from sharepoint2text.parsing.extractors.open_office.ods_extractor import read_ods
    rng = ctx.rng
    cases, info = [], []
    for _ in range(ctx.n(150, 1500)):
        rows = []
        for _ in range(rng.randint(0, 4)):
            cells = [(rng.choice([1, 1, 2, 3, 0, 100, 101, 150, -1]), rng.random() < 0.5) for _ in range(rng.randint(0, 4))]
            rows.append((rng.choice([1, 1, 2, 3, 0, 100, 101, 200, -2]), cells))
        variants = [[rng.randrange(10) for _ in cs] for _, cs in rows]
        for (_, cs), vs in zip(rows, variants):
            for (_, none), v in zip(cs, vs):
                ctx.count(("ods:blank-encoding:%d" % (v % len(BLANK_CELLS))) if none else ("ods:filled-encoding:%d" % (v % len(FILLED_CELLS))))
        try:
            res = list(read_ods(io.BytesIO(ods_bytes(rows, variants))))
            sheets = res[0].sheets
            dim = sheets[0].get_dim() if sheets else None
            got = (dim.rows, dim.columns) if dim else (0, 0)
        except Exception as e:  # noqa
            ctx.count("ods:error:" + type(e).__name__)
            continue
        ctx.case(("ods", tuple((r, tuple(c)) for r, c in rows)), any(r > 1 or any(c > 1 for c, _ in cs) for r, cs in rows),
                 kind="ods:shape")
        term = "[" + ";".join(f"({r}, [" + ";".join(f"({c}, {'true' if n else 'false'})" for c, n in cs) + "])" for r, cs in rows) + "]"
        cases.append(f"({term}%Z, ({got[0]}%nat, {got[1]}%nat))")
        info.append((rows, got, variants))
    pre = "From S2T Require Import C12.Model C12.Corr.\nOpen Scope Z_scope.\n"
    ok, failing, log = coq_eval_shards(ctx, "ods", pre, "ods_case", cases, ty="list row * (nat * nat)")
    ctx.obligation("correspondence:final_dims(expand_rows)==read_ods sheet shape", ok and not failing,
                   f"{[info[i] for i in failing[:3]]} {log[:500]}")
    # failing-input search: a sheet that comes out LARGER than the model's shape materialised cells the caps should
    # have collapsed/trimmed (which cell encodings count as empty is part of the repeat caps)
    for i in failing[:40]:
        rows, got, variants = info[i]
        want = py_final_dims(rows)
        if got[0] * max(got[1], 1) > want[0] * max(want[1], 1):
            encs = sorted({BLANK_CELLS[v % len(BLANK_CELLS)].replace("{rep}", "") for (_, cs), vs in zip(rows, variants)
                           for (rep, none), v in zip(cs, vs) if none})
            ctx.finding("ods-empty-cells-materialised", f"ODS sheet comes out as {got[0]}x{got[1]} cells, the repeat caps for empty "
                        f"cells/rows give {want[0]}x{want[1]}: cells that show nothing are not treated as empty (encodings "
                        f"in this sheet: {encs})", {"rows": rows, "cell_encodings": variants, "input": ods_bytes(rows, variants),
                                                    "got_dims": got, "model_dims": want})


def py_final_dims(rows):
    """Python twin of C12.Model.final_dims (only used to phrase a finding; the decision is the Coq correspondence)."""
    out = []
    for rrep, cells in rows:
        v = []
        for crep, none in cells:
            v += [True] if (none and crep > 100) else [none] * max(crep, 0)
        out += [v] if (rrep > 100 and all(v)) else [v] * max(rrep, 0)
    while out and all(out[-1]):
        out.pop()
    cols = 0
    for r in out:
        k = len(r)
        while k and r[k - 1]:
            k -= 1
        cols = max(cols, k)
    return (len(out), cols)


def d_xlsx(ctx):
    """Sparse XLSX sheets through openpyxl's read-only reader, _read_sheet_data and _format_sheet_as_text: the row
    count, the widest row and each row's width vs C12.Xlsx (widths / num_cols), and the size of the text block."""
    from openpyxl import load_workbook
    from props import c12_amp
    from sharepoint2text.parsing.extractors.ms_modern import xlsx_extractor as xe
    rng = ctx.rng

    def colname(c):
        s_ = ""
        while c:
            c, rem = divmod(c - 1, 26)
            s_ = chr(65 + rem) + s_
        return s_
    cases, info = [], []
    for it in range(ctx.n(120, 1200)):
        shape = rng.choice(["sparse", "sparse", "dense", "far-row", "far-col", "single", "gap-first-row"])
        if shape == "dense":
            n, m = rng.randint(1, 6), rng.randint(1, 6)
            cells = {(r, c) for r in range(1, n + 1) for c in range(1, m + 1)}
        elif shape == "far-row":
            cells = {(1, 1), (rng.randint(2, 400), rng.randint(1, 3))}
        elif shape == "far-col":
            cells = {(1, rng.randint(1, 3)), (rng.randint(1, 3), rng.randint(4, 300))}
        elif shape == "single":
            cells = {(rng.randint(1, 30), rng.randint(1, 30))}
        elif shape == "gap-first-row":
            cells = {(rng.randint(2, 9), rng.randint(1, 9)) for _ in range(rng.randint(1, 5))}
        else:
            cells = {(rng.randint(1, 25), rng.randint(1, 25)) for _ in range(rng.randint(1, 12))}
        rows = {}
        for r, c in cells:
            rows.setdefault(r, []).append(c)
        xml = c12_amp._SH + "<sheetData>" + "".join(
            f'<row r="{r}">' + "".join(f'<c r="{colname(c)}{r}" t="inlineStr"><is><t>v{r}x{c}</t></is></c>' for c in sorted(rows[r])) + "</row>"
            for r in sorted(rows)) + "</sheetData></worksheet>"
        data = c12_amp._xlsx(xml)
        try:
            wb = load_workbook(io.BytesIO(data), read_only=True, data_only=True)
            try:
                _, all_rows = xe._read_sheet_data(wb.worksheets[0])
                text = xe._format_sheet_as_text(all_rows)
            finally:
                wb.close()
        except Exception as e:  # noqa
            ctx.count("xlsx:error:" + type(e).__name__)
            continue
        ws_ = [len(r) for r in all_rows]
        n_rows, k = len(all_rows), max(ws_, default=0)
        ctx.case(("xlsx", tuple(sorted(cells))), len(cells) < n_rows * max(k, 1), kind="xlsx:" + shape)
        zl = lambda l: "[" + ";".join(str(x) for x in l) + "]"
        cases.append(f"([{';'.join(f'({r},{c})' for r, c in sorted(cells))}], ({n_rows}, {k}, {zl(ws_)}))%Z")
        info.append((sorted(cells), n_rows, k))
        # the aligned text really has a field (>= 1 character) for every grid position
        if text and (len(text.split("\n")) != n_rows or any(len(line) < k - 1 for line in text.split("\n"))):
            ctx.finding("xlsx-text-not-a-full-grid", f"XLSX sheet text is not a rows x widest-row grid for cells {sorted(cells)[:6]}",
                        {"cells": sorted(cells), "text": text[:400], "input": data})
    pre = "From Coq Require Import ZArith List.\nImport ListNotations.\nFrom S2T Require Import C12.Xlsx.\nOpen Scope Z_scope.\n"
    ok, failing, log = coq_eval_shards(ctx, "xlsx", pre, "xlsx_case", cases, ty="list xcell * (Z * Z * list Z)")
    ctx.obligation("correspondence:widths/num_cols==openpyxl read-only rows through _read_sheet_data", ok and not failing,
                   f"{[info[i] for i in failing[:3]]} {log[:500]}")


def d_ole(ctx):
    """util/ole_text._check_property_vectors on generated property-set streams vs C12.Ole.check_vectors."""
    import struct
    from sharepoint2text.parsing.extractors.util import ole_text
    rng = ctx.rng
    fn = getattr(ole_text, "_check_property_vectors", None)
    import ast
    shape = ""
    try:
        body = ast.parse(inspect.getsource(ole_text.read_ole_metadata)).body[0].body
        body = [b for b in body if not (isinstance(b, ast.Expr) and isinstance(b.value, ast.Constant))]    # docstring
        shape = " ; ".join(ast.unparse(b) for b in body)
    except Exception as e:  # noqa
        shape = repr(e)
    ctx.obligation("ole-guard:read_ole_metadata is `_check_property_vectors(ole); return ole.get_metadata()`",
                   fn is not None and shape == "_check_property_vectors(ole) ; return ole.get_metadata()", shape)
    # every get_metadata() of the legacy extractors goes through the guard
    import re as _re
    direct = []
    for modname in ("doc_extractor", "ppt_extractor", "xls_extractor"):
        src = inspect.getsource(__import__(f"sharepoint2text.parsing.extractors.ms_legacy.{modname}", fromlist=["x"]))
        direct += [f"{modname}:{m.group(0)}" for m in _re.finditer(r"\b\w+\.get_metadata\(\)", src) if "ole" in m.group(0)]
    ctx.obligation("ole-guard:no legacy extractor calls ole.get_metadata() directly", not direct, str(direct))
    if fn is None:
        return

    class FakeOle:
        def __init__(self, name, data, other=None):
            self.streams = {name: data}
            if other is not None:
                self.streams[other[0]] = other[1]

        def exists(self, n):
            return n in self.streams

        def openstream(self, n):
            return io.BytesIO(self.streams[n])
    cases, info = [], []
    prev_stream = None
    for it in range(ctx.n(300, 3000)):
        nprops = rng.choice([0, 1, 2, 3, 5, 2 ** 32 - 1, rng.randint(0, 12)])
        real = rng.randint(0, 5)
        section = rng.choice([48, 48, 48, 44, 60, 0, 2 ** 31, rng.randint(0, 120)])
        body = bytearray(struct.pack("<II", rng.randint(0, 400), nprops))
        vals = bytearray()
        entries = []
        for k in range(real):
            off = 8 + 8 * real + len(vals) if rng.random() < 0.8 else rng.choice([0, 4, 8, 2 ** 32 - 1, rng.randint(0, 300)])
            entries.append((k + 2, off))
            ptype = rng.choice([0x1E, 0x03, 0x1001, 0x1000, 0x101E, 0x100C, 0x40, 0x1003, 0xFFFF, 0x2000])
            count = rng.choice([0, 1, 5, 40, 71, 72, 73, 200, 2 ** 16, 2 ** 32 - 1, rng.randint(0, 400)])
            vals += struct.pack("<II", ptype, count) + rng.randbytes(rng.choice([0, 4, 12]))
        for pid, off in entries:
            body += struct.pack("<II", pid, off & 0xFFFFFFFF)
        body += vals
        head = bytearray(rng.randbytes(44)) + struct.pack("<I", section & 0xFFFFFFFF)
        data = bytes(head) + bytes(body)
        if rng.random() < 0.15:
            data = data[: rng.randint(0, len(data))]
        name = rng.choice(["\x05SummaryInformation", "\x05DocumentSummaryInformation"])
        # BOTH property-set streams are guarded: the decision for a container holding two streams is the conjunction of
        # the decisions for each of them (the previous case's stream is placed under the other name)
        if prev_stream is not None and it % 2:
            other_name = "\x05DocumentSummaryInformation" if name == "\x05SummaryInformation" else "\x05SummaryInformation"
            def single(nm, dt):
                try:
                    fn(FakeOle(nm, dt))
                    return True
                except ValueError:
                    return False
                except Exception:  # noqa
                    return None
            a_, b_ = single(name, data), single(other_name, prev_stream)
            try:
                fn(FakeOle(name, data, (other_name, prev_stream)))
                both = True
            except ValueError:
                both = False
            except Exception:  # noqa
                both = None
            ctx.case(("ole2", data, prev_stream), True, kind="ole:two-streams")
            if a_ is not None and b_ is not None and both != (a_ and b_):
                ctx.finding("ole-guard-two-streams", f"_check_property_vectors on a container with both property-set streams says {both}; "
                            f"alone the streams are judged {a_} ({name!r}) and {b_} ({other_name!r})",
                            {"stream_a": data, "name_a": name, "stream_b": prev_stream, "name_b": other_name})
        prev_stream = data
        try:
            fn(FakeOle(name, data))
            ok_ = True
        except ValueError:
            ok_ = False
        except Exception as e:  # noqa
            ctx.finding(f"ole-guard-raises:{type(e).__name__}", f"_check_property_vectors raised {type(e).__name__} on a {len(data)}-byte stream",
                        {"input": data})
            continue
        ctx.case(("ole", data), not ok_ or len(data) >= 56, kind="ole:" + ("accepted" if ok_ else "rejected"))
        cases.append("([" + ";".join(str(b) for b in data) + "]%Z, " + ("true" if ok_ else "false") + ")")
        info.append(data.hex())
    pre = "From Coq Require Import ZArith List.\nImport ListNotations.\nFrom S2T Require Import C12.Ole.\nOpen Scope Z_scope.\n"
    ok, failing, log = coq_eval_shards(ctx, "ole", pre, "ole_case", cases, ty="list Z * bool")
    ctx.obligation("correspondence:check_vectors==util/ole_text._check_property_vectors", ok and not failing and len(cases) > 100,
                   f"{[info[i] for i in failing[:3]]} {log[:500]}")


def d_spaces(ctx):
    """<text:s text:c=RAW/> through the real read_odt: number of spaces between two tokens vs the model."""
    from sharepoint2text.parsing.extractors.open_office.odt_extractor import read_odt
    rng = ctx.rng
    raws = ["1", "2", "0", "-3", "17", "x", "", " 4 ", "1e3", "+5", "007", "３", None] + [str(rng.randint(-5, 300)) for _ in range(ctx.n(30, 300))]
    cases, info = [], []
    for raw in raws:
        attr = "" if raw is None else f' text:c="{raw}"'
        odt = io.BytesIO()
        with zipfile.ZipFile(odt, "w") as z:
            z.writestr("mimetype", "application/vnd.oasis.opendocument.text")
            z.writestr("content.xml", f'<?xml version="1.0" encoding="UTF-8"?><office:document-content {ODS_NS}><office:body><office:text>'
                       f'<text:p>AAA<text:s{attr}/>BBB</text:p></office:text></office:body></office:document-content>')
            z.writestr("META-INF/manifest.xml", '<?xml version="1.0"?><manifest:manifest xmlns:manifest='
                       '"urn:oasis:names:tc:opendocument:xmlns:manifest:1.0"/>')
        try:
            res = list(read_odt(io.BytesIO(odt.getvalue())))
            txt = res[0].get_full_text()
        except Exception as e:  # noqa
            ctx.count("spaces:error:" + type(e).__name__)
            continue
        a, b = txt.find("AAA"), txt.find("BBB")
        if a < 0 or b < 0:
            ctx.count("spaces:tokens-missing")
            continue
        between = txt[a + 3:b]
        got = len(between) if set(between) <= {" "} else -1
        try:
            parsed = int(raw) if raw is not None else 1
        except ValueError:
            parsed = None
        ctx.case(("text:s", raw), raw not in ("1", None), kind="odf:text-s")
        cases.append(f"({'None' if parsed is None else f'Some ({parsed})'}, {got})%Z")
        info.append((raw, got))
    pre = "From S2T Require Import C12.Model C12.Corr.\nOpen Scope Z_scope.\n"
    ok, failing, log = coq_eval_shards(ctx, "sp", pre, "space_case", cases, ty="option Z * Z")
    ctx.obligation("correspondence:space_count==spaces produced by read_odt for <text:s text:c>", ok and not failing and len(cases) > 10,
                   f"{[info[i] for i in failing[:5]]} {log[:400]}")


WORKER = r'''
import io, sys, resource, time, json
sys.path.insert(0, sys.argv[1])
import logging; logging.disable(logging.CRITICAL)
kind, path = sys.argv[2], sys.argv[3]
data = open(path, "rb").read()
from sharepoint2text.parsing.router import get_extractor
r0 = resource.getrusage(resource.RUSAGE_SELF).ru_maxrss
t0 = time.time()
try:
    n = 0
    for res in get_extractor(kind)(io.BytesIO(data), kind):
        n += 1
    out = "ok"
except MemoryError:
    out = "MemoryError"
except Exception as e:
    out = type(e).__name__
print(json.dumps({"out": out, "secs": time.time() - t0, "rss_kb_before": r0, "n": n,
                  "rss_kb_after": resource.getrusage(resource.RUSAGE_SELF).ru_maxrss, "in": len(data)}))
'''


def measured(ctx):
    """Run amplifier inputs in a sandboxed worker (address-space limit) and MEASURE rss/time.  Evidence, not proof."""
    amp = []
    N = ctx.n(1_500_000, 6_000_000)
    amp.append(("ods-repeat-nonempty-cell-amplification", "x.ods", ods_bytes([(1, [(N, False)])]),
                f"ODS: one non-empty cell with number-columns-repeated={N}"))
    amp.append(("ods-baseline", "x.ods", ods_bytes([(1, [(1, False)])]), "ODS baseline"))
    odt = io.BytesIO()
    with zipfile.ZipFile(odt, "w") as z:
        z.writestr("mimetype", "application/vnd.oasis.opendocument.text")
        z.writestr("content.xml", f'<?xml version="1.0"?><office:document-content {ODS_NS}><office:body><office:text>'
                   f'<text:p>a<text:s text:c="{N * 20}"/>b</text:p></office:text></office:body></office:document-content>')
        z.writestr("META-INF/manifest.xml", '<?xml version="1.0"?><manifest:manifest xmlns:manifest='
                   '"urn:oasis:names:tc:opendocument:xmlns:manifest:1.0"/>')
    amp.append(("odt-text-s-count-amplification", "x.odt", odt.getvalue(), f"ODT: <text:s text:c={N * 20}>"))
    # 7z holding ONE oversize, highly compressible member (LZMA): the member is above the per-member limit, so it
    # must not be decompressed at all; extractall() inflates it in memory and writes it to disk
    try:
        from props import c10_sevenz
        big = ctx.n(40, 120) * 1024 * 1024
        arch, _, _ = c10_sevenz.pack([("big.txt", "data", b"0" * big), ("small.txt", "data", b"hello")], [1, 1], "lzma")
        amp.append(("7z-oversize-member-decompressed-and-written", "x.7z", arch,
                    f"7z: a {big >> 20} MiB member (above the 10 MiB per-member limit) packed with LZMA into {len(arch)} bytes"))
    except Exception as e:  # noqa
        ctx.count("measured:7z-writer-unavailable:" + type(e).__name__)
    # the other amplifier families of the property text (declared dimensions, entities, nesting depth, OLE property
    # vectors, PDF object loops, extreme compression ratios)
    try:
        from props import c12_amp
        fam = c12_amp.all_amplifiers(ctx.tier == "quick")
        if ctx.tier == "quick":      # the three OLE cases each run into the time limit: one of them per quick run
            fam = [a for a in fam if not a[0].startswith("ole-property-vector-count:") or a[0].endswith(":doc")]
        amp += fam
    except Exception as e:  # noqa
        ctx.obligation("amplifier-families-generated", False, repr(e))
    meas = {}
    TLIM = ctx.n(45, 300)
    with tempfile.TemporaryDirectory(dir="/var/tmp") as td:
        wp = os.path.join(td, "worker.py")
        open(wp, "w").write(WORKER)

        def one(job):
            j, (key, name, data, what) = job
            os.makedirs(os.path.join(td, str(j)), exist_ok=True)
            fp = os.path.join(td, str(j), name)
            open(fp, "wb").write(data)

            def lim():
                resource.setrlimit(resource.RLIMIT_AS, (6 * 2 ** 30, 6 * 2 ** 30))
            try:
                p = subprocess.run(["/venv/bin/python", wp, str(common.REPO), name, fp], capture_output=True, text=True,
                                   timeout=TLIM, preexec_fn=lim)
                m = json.loads(p.stdout.strip().splitlines()[-1])
            except subprocess.TimeoutExpired:
                m = {"out": "time-limit", "secs": TLIM, "rss_kb_before": 0, "rss_kb_after": 0, "in": len(data)}
            except Exception as e:  # noqa
                m = {"out": "worker-failed:" + type(e).__name__, "secs": TLIM, "rss_kb_before": 0, "rss_kb_after": 0, "in": len(data)}
            return key, m
        from concurrent.futures import ThreadPoolExecutor
        with ThreadPoolExecutor(max_workers=5) as ex:
            for key, m in ex.map(one, list(enumerate(amp))):
                meas[key] = m
                ctx.case(("amplifier", key), True, kind="measured:" + key.split("#")[0])
    base = meas.get("ods-baseline", {})
    ctx.extra["measured"] = meas
    for key, name, data, what in amp:
        if key == "ods-baseline":
            continue
        m = meas[key]
        delta_kb = max(0, m["rss_kb_after"] - max(base.get("rss_kb_after", 0), m["rss_kb_before"]))
        ratio = delta_kb * 1024 / max(1, m["in"])
        # run time: more than 30 s (or the time limit) for an input below 1 MB is far outside any fixed multiple of the
        # time a same-size benign file takes (milliseconds)
        too_slow = m["out"] == "time-limit" or (m["secs"] > 20 and m["in"] < 1_000_000) or m.get("n", 0) > 20000
        if key.startswith("nested-archives:") and m.get("n", 0) > 50:
            # 7 top-level members; archives inside archives are not opened: more results than that means recursion,
            # and the result count is exponential in the nesting depth
            too_slow = True
            what = what + f" produced {m.get('n')} results (nested archives were opened recursively)"
        # memory: additive constants (module imports, parser tables: a few MiB) are not amplification - the test is a
        # large multiple of the input size AND at least 48 MiB in absolute terms
        if (ratio > 200 and delta_kb > 48 * 1024) or m["out"] in ("MemoryError",) or m["out"].startswith("worker-failed") or too_slow:
            ctx.finding(key.split("#")[0], f"{what}: a {m['in']}-byte input needed ~{delta_kb // 1024} MiB additional memory "
                        f"(x{int(ratio)} of the input size; outcome {m['out']}, {m['secs']:.1f}s) — cost is not bounded by a fixed "
                        f"multiple of the input size", {"input": data, "measurement": m, "file_name": name})


SCALE_WORKER = r'''
import io, sys, resource, time, json
sys.path.insert(0, sys.argv[1])
import logging; logging.disable(logging.CRITICAL)
kind, path = sys.argv[2], sys.argv[3]
data = open(path, "rb").read()
from sharepoint2text.parsing.router import get_extractor
f = get_extractor("x." + kind)
r0 = resource.getrusage(resource.RUSAGE_SELF)
try:
    n = sum(1 for _ in f(io.BytesIO(data), "x." + kind)); out = "ok"
except Exception as e:
    out = type(e).__name__
r1 = resource.getrusage(resource.RUSAGE_SELF)
print(json.dumps({"out": out, "cpu": (r1.ru_utime + r1.ru_stime) - (r0.ru_utime + r0.ru_stime), "in": len(data)}))
'''


def scaling(ctx):
    """CPU time of size-n vs size-4n inputs of the same shape (measured in a sandboxed worker; evidence, not proof).
    A super-linear blow-up is reported when t(4n)/t(n) > 10 and t(4n) > 2 s of CPU."""
    def mbox(k):
        msg = (b"From a@x.org Mon Jan  1 00:00:00 2024\nFrom: A <a@x.org>\nTo: B <b@x.org>\nSubject: s\n"
               b"Date: Mon, 01 Jan 2024 00:00:00 +0000\n\nb\n\n")
        return msg * k

    def html(k):
        return b"<html><body>" + b"<div><p>x</p>" * k + b"</div>" * k + b"</body></html>"

    def rtf(k):
        return b"{\\rtf1 " + b"{\\b x}" * k + b"}"

    def txt(k):
        return b"line of text\n" * k

    def _zipbytes(members):
        buf = io.BytesIO()
        with zipfile.ZipFile(buf, "w", zipfile.ZIP_STORED) as z:
            for nm, d in members:
                z.writestr(nm, d)
        return buf.getvalue()

    def epub(k):
        # k filler members + 3k manifest items (most of them referencing parts that do not exist): every lookup of a
        # referenced part must be O(1) in the number of members, or the cost is members x references
        items = "".join(f'<item id="i{i}" href="img/p{i}.png" media-type="image/png"/>' for i in range(3 * k))
        opf = ('<?xml version="1.0"?><package xmlns="http://www.idpf.org/2007/opf" version="3.0" unique-identifier="u">'
               '<metadata xmlns:dc="http://purl.org/dc/elements/1.1/"><dc:title>t</dc:title><dc:identifier id="u">x</dc:identifier>'
               '</metadata><manifest><item id="c1" href="c1.xhtml" media-type="application/xhtml+xml"/>' + items +
               '</manifest><spine><itemref idref="c1"/></spine></package>')
        ms = [("mimetype", "application/epub+zip"),
              ("META-INF/container.xml", '<?xml version="1.0"?><container version="1.0" xmlns="urn:oasis:names:tc:opendocument:'
               'xmlns:container"><rootfiles><rootfile full-path="OEBPS/content.opf" media-type="application/oebps-package+xml"/>'
               '</rootfiles></container>'),
              ("OEBPS/content.opf", opf),
              ("OEBPS/c1.xhtml", '<html xmlns="http://www.w3.org/1999/xhtml"><body><p>x</p></body></html>')]
        ms += [(f"OEBPS/filler/f{i}.bin", b"") for i in range(k)]
        return _zipbytes(ms)

    def odt(k):
        # k filler members + 3k picture frames whose xlink:href names parts that do not exist
        frames = "".join(f'<draw:frame draw:name="p{i}"><draw:image xlink:href="Pictures/p{i}.png"/></draw:frame>' for i in range(3 * k))
        content = (f'<?xml version="1.0"?><office:document-content {ODS_NS} xmlns:draw="urn:oasis:names:tc:opendocument:xmlns:drawing:1.0" '
                   'xmlns:xlink="http://www.w3.org/1999/xlink"><office:body><office:text><text:p>' + frames +
                   '</text:p></office:text></office:body></office:document-content>')
        ms = [("mimetype", "application/vnd.oasis.opendocument.text"), ("content.xml", content),
              ("META-INF/manifest.xml", '<?xml version="1.0"?><manifest:manifest xmlns:manifest="urn:oasis:names:tc:opendocument:xmlns:manifest:1.0"/>')]
        ms += [(f"Thumbnails/f{i}.bin", b"") for i in range(k)]
        return _zipbytes(ms)

    def targz_desc(k):
        # k small members stored in DESCENDING name order inside a compressed tar: one linear pass over the stream must
        # do (any backward seek re-decompresses the stream from its start)
        import gzip
        raw = io.BytesIO()
        with tarfile.open(fileobj=raw, mode="w") as t:
            for i in range(k, 0, -1):
                d = b"member %d\n" % i
                ti = tarfile.TarInfo(f"m{i:07d}.txt")
                ti.size = len(d)
                t.addfile(ti, io.BytesIO(d))
        return gzip.compress(raw.getvalue(), 6)

    shapes = [("epub", epub, ctx.n(3000, 8000)), ("odt", odt, ctx.n(3000, 8000)), ("tar.gz", targz_desc, ctx.n(1200, 3000)),
              ("mbox", mbox, ctx.n(1500, 6000)), ("html", html, ctx.n(150, 220)), ("rtf", rtf, ctx.n(4000, 16000)),
              ("txt", txt, ctx.n(20000, 80000))]
    meas = {}
    with tempfile.TemporaryDirectory(dir="/var/tmp") as td:
        wp = os.path.join(td, "w.py")
        open(wp, "w").write(SCALE_WORKER)
        for kind, gen, k in shapes:
            row = []
            for mult in (1, 4):
                fp = os.path.join(td, f"{kind}{mult}.{kind}")
                open(fp, "wb").write(gen(k * mult))
                try:
                    p = subprocess.run(["/venv/bin/python", wp, str(common.REPO), kind, fp], capture_output=True, text=True, timeout=240)
                    row.append(json.loads(p.stdout.strip().splitlines()[-1]))
                except Exception as e:  # noqa
                    row.append({"out": "worker-failed:" + type(e).__name__, "cpu": 240.0, "in": os.path.getsize(fp)})
            meas[kind] = row
            ctx.case(("scaling", kind), True, kind="measured:scaling:" + kind)
            t1, t4 = max(row[0]["cpu"], 0.02), row[1]["cpu"]
            if t4 / t1 > 10 and t4 > 2.0:
                ctx.finding(f"superlinear:{kind}", f"{kind}: CPU time grows super-linearly: {row[0]['in']} B -> {t1:.2f} s, "
                            f"{row[1]['in']} B -> {t4:.2f} s (x{t4 / t1:.1f} for x4 input)",
                            {"kind": kind, "measurements": row, "generator": f"{kind}({k}) and {kind}({4 * k})"})
    # function-level scaling of separator-driven splitters (dense inputs the whole extractor would take minutes on)
    fn_src = (
        "import sys,time,resource,json; sys.path.insert(0, sys.argv[1]);\n"
        "from sharepoint2text.parsing.extractors.mail.mbox_email_extractor import _split_mbox_messages as f\n"
        "out=[]\n"
        "for k in (int(sys.argv[2]), 4*int(sys.argv[2])):\n"
        "    d=(b'From a@x.org Mon Jan  1 00:00:00 2024\\n\\nx\\n\\n')*k\n"
        "    r0=resource.getrusage(resource.RUSAGE_SELF); n=len(f(d)); r1=resource.getrusage(resource.RUSAGE_SELF)\n"
        "    out.append({'in':len(d),'n':n,'cpu':(r1.ru_utime+r1.ru_stime)-(r0.ru_utime+r0.ru_stime)})\n"
        "print(json.dumps(out))\n")
    try:
        p = subprocess.run(["/venv/bin/python", "-c", fn_src, str(common.REPO), str(ctx.n(20000, 30000))], capture_output=True, text=True, timeout=240)
        row = json.loads(p.stdout.strip().splitlines()[-1])
    except subprocess.TimeoutExpired:
        row = [{"in": 0, "n": 0, "cpu": 0.0}, {"in": 0, "n": 0, "cpu": 240.0}]
    except Exception as e:  # noqa
        row = None
        ctx.count("scaling:split-worker-failed:" + type(e).__name__)
    if row:
        meas["_split_mbox_messages"] = row
        ctx.case(("scaling", "_split_mbox_messages"), True, kind="measured:scaling:mbox-split")
        t1, t4 = max(row[0]["cpu"], 0.02), row[1]["cpu"]
        if t4 / t1 > 10 and t4 > 1.5:
            ctx.finding("superlinear:mbox-split", f"_split_mbox_messages: CPU time grows super-linearly in the number of 'From ' lines: "
                        f"{row[0]['in']} B -> {t1:.2f} s, {row[1]['in']} B -> {t4:.2f} s (x{t4 / t1:.1f} for x4 input)",
                        {"measurements": row, "generator": "(b'From a@x.org Mon Jan  1 00:00:00 2024\\n\\nx\\n\\n') * k"})
    ctx.extra["scaling"] = meas


def run(ctx):
    import logging
    import warnings
    logging.disable(logging.CRITICAL)
    warnings.filterwarnings("ignore", message="Duplicate name")
    ctx.rule = ("limit lattice (each limit -1/0/+1, 0 and negative limits); random archives (zip/tar/7z, members around the "
                "per-member limit re-configured between archives, dirs/hidden/unsupported interleaved); random ODS repeat structures "
                "over 9 encodings of an empty cell; sparse/dense XLSX sheets; measured amplifier families and CPU scaling. "
                "non-trivial = a size within +-1 of a limit, an oversize member, a repeat attribute > 1, or an amplifier")
    ctx.trusted += [
        "G-dump of MAX_7Z_FILE_SIZE, MAX_MEMORY_SIZE, MAX_ARCHIVE_FILE_SIZE and read_file's default from the live modules",
        "hand-written models of the limit tests, the zip/tar/7z member loops (event traces) and ods _extract_sheet's repeat "
        "expansion, tied by differential runs with monitors attached from outside (ZipFile.read, TarFile.extractfile, "
        "temp-dir listing before _process_7z_files_sequential)",
        "oracles: zipfile/tarfile listing, _should_skip_file (C09), ElementTree parsing",
        "NOT provable here: real peak RSS / run time of CPython and third-party parsers — measured in a sandboxed worker "
        "(RLIMIT_AS) and reported as measurement",
    ]
    ctx.assumptions += ["resource usage is measured, not proved; the theorems cover the size arithmetic and limit decisions"]
    lim = gen_limits(ctx)
    ctx.prove("C12/Props.v", ["C12/Proofs.vo", "C12/Corr.vo", "C12/Xlsx.vo", "C12/Ole.vo"], expected=[
        "C12_read_file_limit_exact", "C12_sevenz_limit_exact", "C12_zip_tar_oversize_untouched",
        "C12_sevenz_oversize_not_decompressed_refuted", "C12_ods_output_linear_refuted", "C12_ods_bounded_repeats_partial",
        "C12_odf_space_count_spec", "C12_odf_space_count_unbounded_refuted", "C12_xlsx_text_is_full_grid",
        "C12_xlsx_output_linear_refuted", "C12_xlsx_output_linear_refuted_columns", "C12_xlsx_dense_sheet_linear_partial",
        "C12_ole_accepted_vectors_fit", "C12_ole_accepted_work_bounded", "C12_ole_unguarded_work_refuted"])
    ctx.prove("C12/Inst.v", ["Gen/C12Limits.vo", "C12/Proofs.vo"], expected=[
        "C12_sevenz_limit_is_100MB", "C12_read_file_default_on", "C12_member_limit_consistent"])
    d_limits(ctx, lim)
    d_archives(ctx)
    d_ods(ctx)
    d_xlsx(ctx)
    d_ole(ctx)
    d_spaces(ctx)
    measured(ctx)
    scaling(ctx)


META = {
    "technique": "Coq proofs of limit decisions, archive-member event traces and ODS expansion size arithmetic (incl. "
                 "kernel-checked refutations) + differential correspondence with external monitors; RSS/time measured",
    "design_ref": "DESIGN.md §5 C12",
    "level_text": "Kernel-checked: read_file/7z size limits decide exactly (0 disables); ZIP/TAR members above the per-member "
                  "limit are never decompressed or processed; for 7z the same statement is refuted (every regular member is "
                  "decoded and written) and only 'never processed' holds; the ODS repeat expansion size is exactly raw_cells, "
                  "which is unbounded in the input size (refutation) but <= k^2 per element for repeats <= k and <= 100^2 for "
                  "empty cells; the XLSX text block of a sheet is exactly the max_row x max_col grid (two cells far apart refute "
                  "linearity, a dense sheet is linear); the per-member limit in force is the one configured last. Partial: actual "
                  "memory/time of CPython and third-party parsers is measured, not proved (amplifier families of the property "
                  "text: declared dimensions, entities, nesting depth, OLE property vectors, PDF object loops, extreme ratios, "
                  "member-lookup scaling).",
    "level_note": "Trusted: Coq kernel+VM; G-dump of constants; hand models tied by differential runs; monitors; "
                  "the measured worker is evidence only.",
}
