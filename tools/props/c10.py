"""C10 — archive members come out as themselves: right bytes, name, order.

G: magic table, limits, nested-archive set, coder ids dumped from the live modules into Gen/C10Tables.v;
   C10/Inst.v re-decides their well-formedness (magic entries pairwise non-overlapping, every type routed).
D: archives written by zipfile, tarfile and the harness's independent 7z writer (c10_sevenz.py, validated
   against libarchive) over generated member documents; the model (coq/C10/Model.v) runs on the same
   header structure / listings with the lzma, zipfile, tarfile, router oracles recorded from the real
   libraries, and Coq compares the extractor calls (basename, bytes, path label) and the terminal state.
Property oracle: on the un-instrumented implementation, read_archive(...) must equal, in archive order,
   the direct extraction of every supported visible member's own bytes (to_json compared exactly: the
   file_path/filename metadata are part of the claim), and a corrupted member must leave the others alone.
"""
from __future__ import annotations

import bz2
import gzip
import io
import json
import logging
import lzma
import os
import re
import struct
import tarfile
import zipfile
import zlib

from common import REPO, coq_str, coq_list, coq_opt, coq_bool, coq_bytes, coq_eval_shards
from props import c10_sevenz as Z

PRE = "From S2T Require Import Lib.PyStr C10.Model C10.Corr Gen.C10Tables.\n"

EXN = {"ExtractionFailedError": "Failed", "ExtractionFileEncryptedError": "Encrypted",
       "ExtractionFileTooLargeError": "TooLarge"}


# ----------------------------------------------------------------------------- G
def gen_tables(ctx):
    from sharepoint2text.parsing.extractors import archive_extractor as ae
    from sharepoint2text.parsing.extractors.util import sevenzip as sz
    N = lambda n: f"{int(n)}%N"
    t = "(* GENERATED on every check run from the live modules of the repository under test — do not edit. *)\n"
    t += "From S2T Require Import Lib.PyStr C10.Model.\n\nDefinition T : tables := {|\n"
    t += "  magic := " + coq_list([f"({coq_bytes(m)}, {coq_str(ty)}, {N(ln)})" for m, ty, ln in ae.MAGIC_SIGNATURES]) + ";\n"
    t += f"  tar_magic_offset := {N(ae.TAR_MAGIC_OFFSET)};\n  tar_magic := {coq_bytes(ae.TAR_MAGIC)};\n"
    t += "  nested := " + coq_list([coq_str(e) for e in sorted(ae.NESTED_ARCHIVE_EXTENSIONS)]) + ";\n"
    t += f"  max_archive_file := {N(ae.MAX_ARCHIVE_FILE_SIZE)};\n  max_memory := {N(ae._config.max_memory_size)};\n"
    t += f"  max_7z := {N(ae.MAX_7Z_FILE_SIZE)};\n  aes_prefix := {coq_bytes(sz.CODER_AES_PREFIX)};\n"
    t += f"  id_copy := {coq_bytes(sz.CODER_COPY)}; id_lzma := {coq_bytes(sz.CODER_LZMA)}; "
    t += f"id_lzma2 := {coq_bytes(sz.CODER_LZMA2)}; id_bcj := {coq_bytes(sz.CODER_BCJ)}\n|}}.\n"
    ids = ["PROP_END", "PROP_HEADER", "PROP_ARCHIVE_PROPERTIES", "PROP_ADDITIONAL_STREAMS_INFO", "PROP_MAIN_STREAMS_INFO",
           "PROP_FILES_INFO", "PROP_PACK_INFO", "PROP_UNPACK_INFO", "PROP_SUBSTREAMS_INFO", "PROP_SIZE", "PROP_CRC",
           "PROP_FOLDER", "PROP_CODERS_UNPACK_SIZE", "PROP_NUM_UNPACK_STREAM", "PROP_EMPTY_STREAM", "PROP_EMPTY_FILE",
           "PROP_NAME", "PROP_WIN_ATTRIBUTES", "PROP_ENCODED_HEADER"]
    t += "\nDefinition prop_ids : list N := " + coq_list([N(getattr(sz, i)) for i in ids]) + ".\n"
    t += f"Definition magic7 : bytes := {coq_bytes(sz.MAGIC)}.\n"
    ctx.gen_write("Gen/C10Tables.v", t)


# ----------------------------------------------------------------------------- Coq emitters
def cN(n):
    return f"{int(n)}%N"


def c_optbytes(b):
    return "None" if b is None else f"(Some {coq_bytes(b)})"


def c_header(H):
    pk = H.get("pack")
    pack = "None" if pk is None else f"(Some ({cN(pk['pos'])}, {coq_list([cN(z) for z in pk['sizes']])}))"
    fl = coq_list(["{| f_coders := " + coq_list(
        [f"{{| c_id := {coq_bytes(cid)}; c_props := {c_optbytes(pr)} |}}" for cid, pr in f["coders"]])
        + "; f_unpack := " + coq_list([cN(z) for z in f["unpack"]]) + " |}" for f in H["folders"]])
    ss = H.get("ss")
    if ss is None:
        sst = "None"
    else:
        ol = lambda l: "None" if l is None else "(Some " + coq_list([cN(z) for z in l]) + ")"
        sst = f"(Some {{| ss_nus := {ol(ss.get('nus'))}; ss_sizes := {ol(ss.get('sizes'))} |}})"
    files = coq_list([f"{{| e_name := {coq_str(f['name'])}; e_empty := {coq_bool(f['empty'])}; "
                      f"e_attr := {cN(f.get('attr') or 0)} |}}" for f in H["files"]])
    return f"{{| h_pack := {pack}; h_folders := {fl}; h_ss := {sst}; h_files := {files} |}}"


def c_calls(calls):
    return coq_list([f"({coq_str(bn)}, {coq_bytes(d)}, {coq_str(p)})" for bn, d, p in calls])


def c_term(t):
    return "Done" if t is None else f"(Raise {t})"


def c_names(names):
    from sharepoint2text.parsing.router import is_supported_file
    seen, out = set(), []
    for n in names:
        bn = os.path.basename(n)
        if bn in seen:
            continue
        seen.add(bn)
        out.append(f"({coq_str(bn)}, ({coq_bool(is_supported_file(bn))}, {coq_str(bn.lower())}))")
    return coq_list(out)


def c_rev(new):
    return "rev_new" if new else "rev_old"


# ----------------------------------------------------------------------------- implementation drivers
class Spy:
    """Replace the extractor lookup of archive_extractor by a recorder: what the implementation hands to the
    member's extractor (basename that chose it, bytes, path label) is the observation the model predicts."""

    def __enter__(self):
        from sharepoint2text.parsing.extractors import archive_extractor as ae
        self.ae = ae
        self.orig = ae._get_file_extractor_cached
        self.calls = []

        def get(basename):
            def ex(file_bytes, path=None):
                # Member extractors are generators: their failures surface while the archive code ITERATES them.
                # Stub failure modes chosen by the member name; each yields its result first, so the model's `extract`
                # oracle (= what was yielded before the failure) is the one call record, and the failure itself must
                # stay inside the member:
                #   *rtboom*  then raises a RuntimeError subclass
                #   *encboom* then raises ExtractionFileEncryptedError (a password-protected document)
                #   *boom*    then raises ValueError
                low = basename.lower()
                tok = (basename, file_bytes.read(), path)
                self.calls.append(tok)
                yield tok
                if "rtboom" in low:
                    raise RecursionError("stub extractor failure (RuntimeError subclass)")
                if "encboom" in low:
                    from sharepoint2text.parsing.exceptions import ExtractionFileEncryptedError
                    raise ExtractionFileEncryptedError("stub: member is password protected")
                if "boom" in low:
                    raise ValueError("stub extractor failure after the first result")
            return ex
        ae._get_file_extractor_cached = get
        return self

    def __exit__(self, *a):
        self.ae._get_file_extractor_cached = self.orig


def drive(data: bytes, path):
    """-> (list of yielded items, terminal: None | exception class name)"""
    from sharepoint2text.parsing.extractors.archive_extractor import read_archive
    out, term = [], None
    try:
        for r in read_archive(io.BytesIO(data), path=path):
            out.append(r)
    except Exception as e:  # noqa
        term = type(e).__name__
    return out, term


def canon(r):
    """to_json without what is not content of the member: object addresses inside pypdf reprs and the
    'now' timestamps some extractors put into created/modified when the document has none (C06's subject)."""
    j = r.to_json()
    md = j.get("metadata") if isinstance(j, dict) else None
    if isinstance(md, dict):
        for k in ("created", "modified"):
            md.pop(k, None)
    t = json.dumps(j, sort_keys=True, ensure_ascii=True)
    return re.sub(r"IndirectObject\((\d+), (\d+), \d+\)", r"IndirectObject(\1, \2)", t)


def direct(name, data, apath):
    """Extraction of the member's bytes on their own through the public router, same path label."""
    from sharepoint2text.parsing.router import get_extractor
    full = f"{apath}!/{name}" if apath else name
    out = []
    try:
        for r in get_extractor(os.path.basename(name))(io.BytesIO(data), path=full):
            out.append(canon(r))
    except Exception:  # noqa  (a member that fails on its own yields what it yielded before failing)
        pass
    return out


ARCHIVE_EXTS = (".zip", ".tar", ".tar.gz", ".tgz", ".tar.bz2", ".tbz2", ".tar.xz", ".txz", ".7z", ".gz", ".bz2", ".xz")


def expected_member(name, kind):
    """The property's 'supported visible member' (independent of _should_skip_file)."""
    from sharepoint2text.parsing.router import is_supported_file
    if kind == "dir":
        return False
    bn = os.path.basename(name)
    if bn.startswith(".") or name.startswith("__MACOSX/"):
        return False
    if bn.lower().endswith(ARCHIVE_EXTS):
        return False
    return bool(is_supported_file(bn))


# ----------------------------------------------------------------------------- member documents
WORDS = ["alpha", "beta", "gamma", "delta", "Zürich", "naïve", "data", "report", "x", "7z", "PK", "BZ", "ustar", "τ"]


def gen_doc(rng, ext):
    w = lambda k: " ".join(rng.choice(WORDS) for _ in range(k))
    n = rng.randint(1, 6)
    if ext in (".txt", ".md"):
        t = ("# " if ext == ".md" else "") + "\n".join(w(rng.randint(1, 5)) for _ in range(n)) + "\n"
    elif ext in (".csv", ".tsv"):
        sep = "," if ext == ".csv" else "\t"
        t = "\n".join(sep.join(rng.choice(WORDS) for _ in range(3)) for _ in range(n)) + "\n"
    elif ext == ".json":
        t = json.dumps({rng.choice(WORDS): [rng.randint(0, 99), w(2)] for _ in range(n)}, ensure_ascii=False)
    elif ext in (".html", ".htm"):
        t = "<html><head><title>" + w(2) + "</title></head><body>" + "".join(f"<p>{w(3)}</p>" for _ in range(n)) + "</body></html>"
    else:
        return bytes(rng.randrange(256) for _ in range(rng.randint(1, 40)))
    return t.encode("utf-8")


import mimetypes as _mt
MIME_EXTS = sorted(set(_mt.types_map) | set(_mt.common_types))
EMPTY_ZIP = b"PK\x05\x06" + b"\x00" * 18
BROKEN_FIXTURES: list = []   # truncated real documents, filled by run()
GOOD_EXT = [".txt", ".md", ".csv", ".json", ".html", ".tsv", ".TXT", ".Json", ".htm"]
STEMS = ["a", "b", "report", "my.report", "notes 1", "größe", "日本", "x-y_z", "README", "data.v2",
         "Q1一览", "Ā名", "a\u3000b", "Ѐx", "Ω\u0600z", "rtboom", "encboom", "kaboom", "x boom y"]
DIRS = ["", "", "", "sub/", "sub/deeper/", "Dir With Space/"]


def gen_members(rng, nmax, fixtures=None, allow_empty=True):
    """-> list of (name, kind, data), distinct names, archive order."""
    k = rng.randint(0, nmax)
    used, out = set(), []
    for _ in range(k):
        r = rng.random()
        d = rng.choice(DIRS)
        if r < 0.10:
            name, kind, data = d + rng.choice(["folder", "empty dir", "d2"]) + str(len(out)), "dir", b""
        elif r < 0.17:
            name, kind = d + rng.choice([".hidden.txt", ".DS_Store", ".x.md"]), "data"
            data = gen_doc(rng, ".txt")
        elif r < 0.22:
            name, kind, data = "__MACOSX/" + d + "._res" + str(len(out)) + ".txt", "data", gen_doc(rng, ".txt")
        elif r < 0.30:
            # extensions the router has no extractor for - half of them drawn from the host's MIME database (.xml, .svg,
            # .css, .png, .taz ...): whatever is_supported_file / the MIME fallback say about them, the member may only
            # affect itself
            ext = rng.choice(MIME_EXTS) if rng.random() < 0.5 else rng.choice([".bin", ".exe", ".xyz", "", ".docx.bak", ".xml", ".xsl"])
            name, kind = d + rng.choice(STEMS) + ext, "data"
            data = gen_doc(rng, rng.choice([".bin", ".txt", ".html"]))
        elif r < 0.36:
            name, kind = d + rng.choice(["inner", "nested.v1"]) + rng.choice([".zip", ".7z", ".tar", ".tgz", ".tar.gz", ".TAR.XZ"]), "data"
            data = gen_doc(rng, ".bin")
        elif r < 0.44 and allow_empty:
            name, kind, data = d + rng.choice(STEMS) + str(len(out)) + rng.choice([".txt", ".csv", ".md"]), "empty", b""
        elif r < 0.50 and fixtures:
            fx = rng.choice(fixtures)
            name, kind, data = d + rng.choice(STEMS) + os.path.splitext(fx[0])[1], "data", fx[1]
        elif r < 0.58:
            # a supported-type member its own extractor cannot read (damaged / truncated / not the format at all):
            # the failure happens inside the member's extractor, not in the container
            ext = rng.choice([".docx", ".xlsx", ".pptx", ".pdf", ".odt", ".ods", ".epub", ".doc", ".xls", ".ppt", ".msg", ".rtf", ".eml"])
            junk = bytes(rng.randrange(256) for _ in range(rng.randint(1, 60)))
            data = rng.choice([junk, b"PK\x03\x04" + junk, b"%PDF-1.4\n" + junk, b"\xd0\xcf\x11\xe0\xa1\xb1\x1a\xe1" + junk,
                               EMPTY_ZIP, (BROKEN_FIXTURES and rng.choice(BROKEN_FIXTURES)) or junk])
            name, kind = d + rng.choice(STEMS[:10]) + "-bad" + ext, "data"
        else:
            ext = rng.choice(GOOD_EXT)
            name, kind, data = d + rng.choice(STEMS) + ext, "data", gen_doc(rng, ext)
        if kind == "data" and not data:
            kind = "empty"
        if name in used or name.rstrip("/") in used:
            continue
        used.add(name)
        out.append((name, kind, data))
    return out


def add_duplicates(rng, members):
    """Entries that share a member name (archive updated with zipfile mode 'a', `jar uf`, `tar -r`): 1-2 more
    entries with the same name and different contents at random positions, and/or a name differing only in case.
    Every entry is identified by its POSITION in the listing; -> (members, number of inserted entries)."""
    members = list(members)
    cands = [m for m in members if m[1] == "data" and expected_member(m[0], m[1]) and len(m[2]) < 2000]
    added = 0
    if cands and rng.random() < 0.35:
        name, _, data = rng.choice(cands)
        ext = os.path.splitext(name)[1].lower()
        for k in range(rng.randint(1, 2)):
            new = gen_doc(rng, ext if ext in (".txt", ".md", ".csv", ".tsv", ".json", ".html", ".htm") else ".txt")
            new += b" v%d" % (k + 2) if ext not in (".json", ".html", ".htm") else b""
            if new == data:
                new += b" "
            members.insert(rng.randint(0, len(members)), (name, "data", new))
            added += 1
    cands = [m for m in members if m[1] == "data" and expected_member(m[0], m[1]) and m[0].isascii()
             and m[0] != m[0].swapcase()]
    if cands and rng.random() < 0.15:
        name, _, data = rng.choice(cands)
        d, b = os.path.split(name)
        other = (d + "/" if d else "") + b.swapcase()
        if all(m[0] != other for m in members):
            members.insert(rng.randint(0, len(members)), (other, "data", gen_doc(rng, ".txt") + b" case twin"))
            added += 1
    return members, added



def load_fixtures():
    res = REPO / "sharepoint2text" / "tests" / "resources"
    out = []
    for rel in ("modern_ms/headings.docx", "pdf/sample.pdf", "modern_ms/mwe.xlsx"):
        p = res / rel
        if p.exists() and p.stat().st_size < 400_000:
            out.append((p.name, p.read_bytes()))
    return out


# ----------------------------------------------------------------------------- archive writers (reference packers)
class _Unseekable(io.RawIOBase):
    """A sink zipfile cannot seek in: members are written with data descriptors (flag bit 3), as streaming packers do."""

    def __init__(self):
        self.buf = io.BytesIO()

    def write(self, d):
        return self.buf.write(d)

    def writable(self):
        return True

    def seekable(self):
        return False

    def flush(self):
        pass


def write_zip(members, method, variant="plain", rng=None):
    """variant: 'plain' (writestr) | 'zip64-local' (some members through ZipFile.open(force_zip64=True): ZIP64 extra block in
    the LOCAL header only, so local and central extra fields differ) | 'stream' (unseekable sink: data descriptors) |
    'ut-extra' (extended-timestamp extra field on every member, as Info-ZIP writes)."""
    sink = _Unseekable() if variant == "stream" else io.BytesIO()
    with zipfile.ZipFile(sink, "w", compression=method) as zf:
        for name, kind, data in members:
            if kind == "dir":
                zf.writestr(zipfile.ZipInfo(name.rstrip("/") + "/"), b"")
                continue
            zi = zipfile.ZipInfo(name)
            zi.compress_type = method
            if variant == "ut-extra":
                zi.extra = b"UT\x05\x00\x03" + struct.pack("<I", 1_700_000_000)
            if variant == "zip64-local" and (rng is None or rng.random() < 0.6):
                with zf.open(zi, "w", force_zip64=True) as f:
                    f.write(data)
            else:
                zf.writestr(zi, data, compress_type=method)
    return sink.buf.getvalue() if variant == "stream" else sink.getvalue()


def reshape_name(rng, members):
    """Give one supported visible data member a name of another SHAPE that reference packers store verbatim (tar -P,
    ZipFile.writestr): absolute, './', '//', '..', './' inside, leading space, drive-letter/backslash.  The label of its
    result must still be archive!/<stored name>.  -> (members, shape or None)"""
    cands = [i for i, m in enumerate(members) if m[1] == "data" and expected_member(m[0], m[1])]
    if not cands or rng.random() >= 0.3:
        return members, None
    i = rng.choice(cands)
    name, kind, data = members[i]
    base = os.path.basename(name)
    shape = rng.choice(["abs", "abs-deep", "dot", "dslash", "dotdot", "innerdot", "updir", "space", "drive"])
    new = {"abs": "/" + name, "abs-deep": "/srv/share/" + base, "dot": "./" + name, "dslash": "a//" + name,
           "dotdot": "x/../" + base, "innerdot": "dir/./" + base, "updir": "../" + base, "space": " " + base,
           "drive": "C:\\win\\" + base}[shape]
    if any(m[0] == new for m in members):
        return members, None
    members = list(members)
    members[i] = (new, kind, data)
    return members, shape


def write_tar(members, comp, fmt=tarfile.PAX_FORMAT, extra=None):
    bio = io.BytesIO()
    with tarfile.open(fileobj=bio, mode="w:" + comp if comp else "w", format=fmt) as tf:
        for name, kind, data in members:
            ti = tarfile.TarInfo(name)
            if kind == "dir":
                ti.type = tarfile.DIRTYPE
                ti.mode = 0o755
                tf.addfile(ti)
            elif kind == "symlink":
                ti.type = tarfile.SYMTYPE
                ti.linkname = "a.txt"
                tf.addfile(ti)
            else:
                ti.size = len(data)
                tf.addfile(ti, io.BytesIO(data))
    return bio.getvalue()


# ----------------------------------------------------------------------------- lzma oracle (recorded from the real library)
def lz_alone(props5, size, data):
    hdr = props5 + (struct.pack("<Q", size) if size is not None else b"\xff" * 8)
    try:
        return lzma.LZMADecompressor(format=lzma.FORMAT_ALONE).decompress(hdr + data)
    except Exception:  # noqa
        return None


def lz_raw(pb, data):
    if pb < 40:
        ds = (2 | (pb & 1)) << (pb // 2 + 11) if pb > 0 else 1 << 12
        flt = [{"id": lzma.FILTER_LZMA2, "dict_size": ds}]
    else:
        flt = [{"id": lzma.FILTER_LZMA2, "preset": 6}]
    try:
        return lzma.LZMADecompressor(format=lzma.FORMAT_RAW, filters=flt).decompress(data)
    except Exception:  # noqa
        return None


def lz_table(H, body):
    """Every lzma call either revision of extractall can make on this archive: per folder, the folder's
    own pack stream and the 'first position, all pack sizes' read."""
    pk = H.get("pack")
    pos0 = pk["pos"] if pk else 0
    sizes = pk["sizes"] if pk else []

    def read(pos, total):
        return body[pos:] if total == 0 else body[pos:pos + total]
    cands = []
    pos = pos0
    whole = read(pos0, sum(sizes))
    for k, f in enumerate(H["folders"]):
        mine = sizes[k:k + 1]
        cands.append((f, read(pos, sum(mine))))
        cands.append((f, whole))
        pos += sum(mine)
    rows, seen = [], set()
    for f, data in cands:
        for cid, props in f["coders"]:
            if cid == Z.LZMA and props is not None and len(props) >= 5:
                size = f["unpack"][-1] if f["unpack"] else None
                key = (1, props[:5], size, data)
                res = lz_alone(props[:5], size, data) if key not in seen else None
            elif cid == Z.LZMA2 and props:
                key = (2, props[:1], None, data)
                res = lz_raw(props[0], data) if key not in seen else None
            else:
                continue
            if key in seen:
                continue
            seen.add(key)
            r = "DErr" if res is None else f"(DOk {coq_bytes(res)})"
            rows.append(f"({cN(key[0])}, {coq_bytes(key[1])}, {coq_opt(key[2], cN)}, {coq_bytes(key[3])}, {r})")
    return coq_list(rows)


# ----------------------------------------------------------------------------- 7z cases
def seven_std(rng, members, small=True):
    """A standard-layout 7z of the members: random folder cuts, coder, SubStreamsInfo style, attributes."""
    nd = sum(1 for m in members if m[1] == "data")
    layout = rng.choice(["solid", "perfile", "random"])
    if nd == 0:
        cuts = []
    elif layout == "solid":
        cuts = [nd]
    elif layout == "perfile":
        cuts = [1] * nd
    else:
        cuts, left = [], nd
        while left:
            c = rng.randint(1, left)
            cuts.append(c)
            left -= c
    kind = rng.choice(["copy", "lzma", "lzma2", "mixed"])
    kinds = [rng.choice(["copy", "lzma", "lzma2"]) for _ in cuts] if kind == "mixed" else kind
    ssm = rng.choice(["7zip", "7zip", "full"])
    attrs = rng.choice(["win", "unix", None])
    eh = rng.random() < 0.25
    arch, H, area = Z.pack(members, cuts, kinds, substreams=ssm, attrs=attrs, encode_header=eh)
    desc = {"layout": layout, "cuts": cuts, "coder": kind, "substreams": ssm, "attrs": attrs, "encoded_header": eh}
    return arch, H, desc


def seven_odd(rng, members):
    """Structurally valid headers that no standard packer writes (the model must still agree):
    no SubStreamsInfo, missing/odd coders, sizes that do not add up, zero stream counts, files without
    streams, attribute-only directories, truncated or shifted pack area, duplicate names."""
    nd = sum(1 for m in members if m[1] == "data")
    cuts = []
    left = nd
    while left:
        c = rng.randint(1, left)
        cuts.append(c)
        left -= c
    kinds = [rng.choice(["copy", "copy", "lzma", "lzma2"]) for _ in cuts]
    ssm = rng.choice(["7zip", "full", "none"])
    if ssm == "none":
        cuts = [1] * nd
        kinds = [rng.choice(["copy", "lzma", "lzma2"]) for _ in cuts]
    _, H, area = Z.pack(members, cuts, kinds, substreams=ssm, attrs=rng.choice(["win", None]))
    H["attr_external_byte"] = False  # the implementation's attribute parser has no External byte
    mut = rng.choice(["none", "coder-unknown", "coder-aes", "no-props", "no-coders", "bcj-chain", "size-up", "size-down",
                      "nus-zero", "extra-file", "fewer-files", "attr-dir", "truncate", "shift", "dup-name",
                      "unpack-up", "packsize-zero", "drop-packinfo", "short-props"])
    fl = H["folders"]
    f = rng.choice(fl) if fl else None
    if mut == "coder-unknown" and f:
        f["coders"] = [(b"\x04\x01\x08", None)]
    elif mut == "coder-aes" and f:
        f["coders"] = [(b"\x06\xf1\x07\x01", b"\x00")] + f["coders"]
        f["unpack"] = f["unpack"] + f["unpack"]
    elif mut == "no-props" and f:
        f["coders"] = [(cid, None) for cid, _ in f["coders"]]
    elif mut == "short-props" and f:
        f["coders"] = [(cid, (pr[:3] if cid == Z.LZMA else b"") if pr is not None else None) for cid, pr in f["coders"]]
    elif mut == "no-coders" and f:
        f["coders"], f["unpack"] = [], []
    elif mut == "bcj-chain" and f:
        f["coders"] = [(b"\x03\x03\x01\x03", None)] + f["coders"]
        f["unpack"] = f["unpack"] + f["unpack"]
    elif mut in ("size-up", "size-down") and H["ss"] and H["ss"].get("sizes"):
        i = rng.randrange(len(H["ss"]["sizes"]))
        H["ss"]["sizes"][i] = max(0, H["ss"]["sizes"][i] + (rng.choice([1, 7, 1 << 33]) if mut == "size-up" else -rng.randint(1, 3)))
    elif mut == "nus-zero" and H["ss"] and fl:
        k = rng.randrange(len(fl))
        nus = H["ss"].get("nus") or [1] * len(fl)
        sizes, out, i = H["ss"].get("sizes") or [], [], 0
        for j, n in enumerate(nus):  # keep the number of raw sizes consistent with the stream counts
            take = sizes[i:i + max(n - 1, 0)]
            i += max(n - 1, 0)
            if j != k:
                out += take
        nus = list(nus)
        nus[k] = 0
        H["ss"]["nus"], H["ss"]["sizes"] = nus, out
        H["ss"]["crcs"] = None
    elif mut == "extra-file":
        H["files"].append({"name": "ghost-%d.txt" % rng.randint(0, 9), "empty": False, "emptyfile": False, "attr": None})
    elif mut == "fewer-files" and H["files"]:
        H["files"].pop(rng.randrange(len(H["files"])))
    elif mut == "attr-dir" and H["files"]:
        for e in H["files"]:
            e["attr"] = e.get("attr") or 0
        rng.choice(H["files"])["attr"] |= 0x10
    elif mut == "truncate" and area:
        area = area[:rng.randrange(len(area))]
    elif mut == "shift" and H["pack"]:
        junk = bytes(rng.randrange(256) for _ in range(rng.randint(1, 9)))
        area = junk + area
        H["pack"]["pos"] = len(junk) if rng.random() < 0.7 else 0
    elif mut == "dup-name" and len(H["files"]) >= 2:
        a, b = rng.sample(range(len(H["files"])), 2)
        H["files"][b]["name"] = H["files"][a]["name"]
    elif mut == "unpack-up" and f and f["unpack"]:
        f["unpack"][-1] += rng.choice([1, 5])
    elif mut == "packsize-zero" and H["pack"] and H["pack"]["sizes"]:
        H["pack"]["sizes"][rng.randrange(len(H["pack"]["sizes"]))] = 0
    elif mut == "drop-packinfo" and H["pack"]:
        H["pack"] = None
    else:
        mut = "none" if mut == "none" else mut + "(n/a)"
    arch = Z.write_archive(H, area)
    return arch, H, {"odd": mut, "cuts": cuts, "coders": kinds, "substreams": ssm}


def impl_list7(arch):
    from sharepoint2text.parsing.extractors.util.sevenzip import SevenZipFile
    try:
        with SevenZipFile(io.BytesIO(arch), "r") as z:
            return [(f.filename, f.uncompressed, f.is_directory) for f in z.list()]
    except Exception:  # noqa
        return None


def case7_term(arch, H, apath, calls, term, listing, new, parsed=True):
    lst = "None" if listing is None else "(Some " + coq_list(
        [f"({coq_str(n)}, {cN(z)}, {coq_bool(d)})" for n, z, d in listing]) + ")"
    return ("{| k_rev := %s; k_asize := %s; k_header := %s; k_body := %s; k_apath := %s; k_names := %s; k_lz := %s; "
            "k_list := %s; k_expect := (%s, %s) |}" % (
                c_rev(new), cN(len(arch)), f"(Some {c_header(H)})" if parsed else "None", coq_bytes(arch[32:]),
                coq_opt(apath, coq_str), c_names([f["name"] for f in H["files"]]), lz_table(H, arch[32:]),
                lst, c_calls(calls), c_term(term)))



# ----------------------------------------------------------------------------- byte-level header parser cases
class LzmaProxy:
    """Stands in for the `lzma` module inside util/sevenzip.py and records every decompressor call."""

    def __init__(self):
        self.calls = []   # (format, filters, data, result|None)

    def __getattr__(self, k):
        return getattr(lzma, k)

    def LZMADecompressor(self, format=lzma.FORMAT_AUTO, filters=None, **kw):
        proxy = self

        class D:
            def decompress(self_, data, *a):
                try:
                    out = lzma.LZMADecompressor(format=format, filters=filters, **kw).decompress(data, *a)
                except Exception:  # noqa
                    proxy.calls.append((format, filters, bytes(data), None))
                    raise
                proxy.calls.append((format, filters, bytes(data), out))
                return out
        return D()


def lz_filters(pb):
    if pb < 40:
        ds = (2 | (pb & 1)) << (pb // 2 + 11) if pb > 0 else 1 << 12
        return [{"id": lzma.FILTER_LZMA2, "dict_size": ds}]
    return [{"id": lzma.FILTER_LZMA2, "preset": 6}]


def lz_rows(calls):
    rows = []
    for fmt, filters, data, res in calls:
        r = "DErr" if res is None else f"(DOk {coq_bytes(res)})"
        if fmt == lzma.FORMAT_ALONE and len(data) >= 13:
            size = struct.unpack("<Q", data[5:13])[0]
            sz = None if data[5:13] == b"\xff" * 8 else size
            rows.append(f"({cN(1)}, {coq_bytes(data[:5])}, {coq_opt(sz, cN)}, {coq_bytes(data[13:])}, {r})")
        elif fmt == lzma.FORMAT_RAW:
            for pb in range(256):
                if lz_filters(pb) == filters:
                    rows.append(f"({cN(2)}, {coq_bytes(bytes([pb]))}, None, {coq_bytes(data)}, {r})")
    return coq_list(rows)


def impl_parse(arch):
    """SevenZipReader(file): -> ('Bad'|'Enc'|'skip', None) or ('Ok', view) with the lzma calls it made."""
    from sharepoint2text.parsing.extractors.util import sevenzip as sz
    proxy = LzmaProxy()
    real = sz.lzma
    sz.lzma = proxy
    import resource
    soft, hard = resource.getrlimit(resource.RLIMIT_AS)
    try:
        try:
            # a mutated header may claim billions of files: cap the address space so that the allocation fails fast
            # (MemoryError -> case skipped) instead of exhausting the shared machine
            resource.setrlimit(resource.RLIMIT_AS, (min(hard, 12 << 30) if hard != resource.RLIM_INFINITY else 12 << 30, hard))
            rd = sz.SevenZipReader(io.BytesIO(arch))
        except sz.Encrypted7zError:
            return "Enc", None, proxy.calls
        except MemoryError:
            return "skip", None, proxy.calls
        except Exception:  # noqa
            return "Bad", None, proxy.calls
    finally:
        sz.lzma = real
        resource.setrlimit(resource.RLIMIT_AS, (soft, hard))
    if len(rd._files) > 2000:
        return "skip", None, proxy.calls
    pack = None if not rd._pack_positions else (rd._pack_positions[0] - 32, list(rd._pack_sizes))
    folders = [([(c, p) for c, p in f.coders], list(f.unpack_sizes), f.num_streams) for f in rd._folders]
    files = [(f.filename, f.uncompressed, f.is_directory, f.attributes) for f in rd._files]
    return "Ok", (pack, folders, list(rd._file_sizes), files), proxy.calls


def parse_case(arch):
    kind, view, calls = impl_parse(arch)
    if kind == "skip":
        return None, kind
    crcs = [(arch[12:32], zlib.crc32(arch[12:32]) & 0xFFFFFFFF)]
    if len(arch) >= 32:
        off, size = struct.unpack("<QQ", arch[12:28])
        hd = arch[32 + off: 32 + off + size] if off < (1 << 40) and size < (1 << 40) else b""
        crcs.append((hd, zlib.crc32(hd) & 0xFFFFFFFF))
    crct = coq_list([f"({coq_bytes(d)}, {cN(c)})" for d, c in crcs])
    if kind == "Ok":
        pack, folders, sizes, files = view
        pk = "None" if pack is None else f"(Some ({cN(pack[0])}, {coq_list([cN(z) for z in pack[1]])}))"
        fl = coq_list(["(" + coq_list([f"({coq_bytes(c)}, {c_optbytes(p)})" for c, p in cs]) + ", "
                       + coq_list([cN(u) for u in us]) + f", {cN(n)})" for cs, us, n in folders])
        fs = coq_list([f"({coq_str(n)}, {cN(z)}, {coq_bool(d)}, {cN(a)})" for n, z, d, a in files])
        ex = f"(XOk {pk} {fl} {coq_list([cN(z) for z in sizes])} {fs})"
    else:
        ex = "XBad" if kind == "Bad" else "XEnc"
    return f"({coq_bytes(arch)}, {lz_rows(calls)}, {crct}, {ex})", kind


def reassemble(area, hb, fix_crc=True):
    sig = Z._sig(len(area), hb)
    if not fix_crc:
        sig = sig[:28] + b"\x00\x00\x00\x00"
        tail = sig[12:32]
        sig = sig[:8] + Z.u32(zlib.crc32(tail)) + tail
    return sig + area + hb


INTERESTING = [0, 1, 2, 3, 4, 5, 6, 7, 8, 9, 10, 11, 12, 13, 14, 15, 17, 21, 23, 0x80, 0xC0, 0xE0, 0xFF, 0x20, 0x21, 0x10]


def mutate_bytes(rng, hb):
    hb = bytearray(hb)
    for _ in range(rng.randint(1, 3)):
        op = rng.choice(["set", "set", "flip", "insert", "delete", "truncate"])
        if not hb:
            break
        i = rng.randrange(len(hb))
        if op == "set":
            hb[i] = rng.choice(INTERESTING)
        elif op == "flip":
            hb[i] ^= 1 << rng.randrange(8)
        elif op == "insert":
            hb.insert(i, rng.choice(INTERESTING))
        elif op == "delete":
            del hb[i]
        else:
            del hb[rng.randrange(len(hb)):]
    return bytes(hb)

def path_label_shape(ctx):
    """Fail-closed inventory: _process_archive_entry must build the result path as
    f"{archive_path}!/{filename}" if archive_path else filename   and hand exactly that to the member's extractor
    (the shape the model's full_path and the theorems C10_path_label / C10_zip_labels / C10_tar_labels describe)."""
    import ast
    import inspect
    from sharepoint2text.parsing.extractors import archive_extractor as ae
    problems = []
    try:
        fn = ast.parse(inspect.getsource(ae._process_archive_entry)).body[0]
        assigns = [n for n in ast.walk(fn) if isinstance(n, ast.Assign) and any(isinstance(t, ast.Name) and t.id == "full_path" for t in n.targets)]
        if len(assigns) != 1:
            problems.append(f"{len(assigns)} assignments to full_path")
        else:
            v = assigns[0].value
            ok = (isinstance(v, ast.IfExp) and isinstance(v.test, ast.Name) and v.test.id == "archive_path"
                  and isinstance(v.orelse, ast.Name) and v.orelse.id == "filename" and isinstance(v.body, ast.JoinedStr)
                  and len(v.body.values) == 3
                  and isinstance(v.body.values[0], ast.FormattedValue) and isinstance(v.body.values[0].value, ast.Name)
                  and v.body.values[0].value.id == "archive_path" and v.body.values[0].conversion == -1 and v.body.values[0].format_spec is None
                  and isinstance(v.body.values[1], ast.Constant) and v.body.values[1].value == "!/"
                  and isinstance(v.body.values[2], ast.FormattedValue) and isinstance(v.body.values[2].value, ast.Name)
                  and v.body.values[2].value.id == "filename" and v.body.values[2].conversion == -1 and v.body.values[2].format_spec is None)
            if not ok:
                problems.append("full_path is not  f\"{archive_path}!/{filename}\" if archive_path else filename : " + ast.unparse(v)[:120])
        calls = [n for n in ast.walk(fn) if isinstance(n, ast.Call) and isinstance(n.func, ast.Name) and n.func.id == "extractor"]
        if not calls or not all(any(k.arg == "path" and isinstance(k.value, ast.Name) and k.value.id == "full_path" for k in c.keywords) for c in calls):
            problems.append("extractor(...) is not called with path=full_path")
        if any(isinstance(n, (ast.AugAssign, ast.AnnAssign)) and getattr(getattr(n, "target", None), "id", None) == "full_path" for n in ast.walk(fn)):
            problems.append("full_path is modified after it is built")
    except Exception as e:  # noqa
        problems.append("cannot analyse _process_archive_entry: " + repr(e))
    ctx.obligation("inventory:path-label-shape(_process_archive_entry builds archive!/name)", not problems, "; ".join(problems))


# ----------------------------------------------------------------------------- property oracle
def check_members(ctx, key, what, fmt, desc, members, arch, apath, empties_expected=True, skip_idx=None):
    """read_archive(arch) must equal the direct extraction of each supported visible member, in order.
    skip_idx: the member that was corrupted on purpose (excluded from both sides)."""
    res, term = drive(arch, apath)
    got = [canon(r) for r in res]
    skip_path = None
    if skip_idx is not None:
        skip_path = f"{apath}!/{members[skip_idx][0]}" if apath else members[skip_idx][0]
        got = [canon(r) for r in res if r.get_metadata().file_path != skip_path]
    exp = []
    for i, (name, kind, data) in enumerate(members):
        if i == skip_idx or not expected_member(name, kind):
            continue
        if kind == "empty" and not empties_expected:
            continue
        exp += direct(name, data, apath)
    ok = term is None and got == exp
    if not ok:
        names = [m[0] for m in members]
        first = next((i for i, (a, b) in enumerate(zip(got, exp)) if a != b), min(len(got), len(exp)))
        ctx.finding(key, f"{what}: {fmt} {desc}: read_archive raised {term}" if term else
                    f"{what}: {fmt} {desc}: result #{first} differs from extracting the member alone "
                    f"(got {len(got)} results, expected {len(exp)})",
                    {"format": fmt, "layout": desc, "members": [(n, k, d) for n, k, d in members],
                     "archive": arch, "archive_path": apath, "raised": term,
                     "got": got[:8], "expected": exp[:8], "member_names": names,
                     "how": "read_archive(io.BytesIO(archive), path=archive_path) vs "
                            "get_extractor(basename)(io.BytesIO(member bytes), path=archive_path+'!/'+name)"})
    return ok


# ----------------------------------------------------------------------------- main
def run(ctx):
    logging.disable(logging.CRITICAL)
    import warnings
    warnings.filterwarnings("ignore", message="Duplicate name")
    from sharepoint2text.parsing.extractors import archive_extractor as ae
    rng = ctx.rng
    ctx.rule = ("archives from zipfile (stored/deflated), tarfile (plain/gz/bz2/xz) and the harness's 7z writer "
                "(copy/LZMA/LZMA2/mixed; solid, one folder per file, random folder cuts; 7-Zip-style and full "
                "SubStreamsInfo; plain and encoded headers) over 0..N generated members with directories, empty files, "
                "hidden/unsupported/nested-archive members, damaged documents (member extractor fails) and entries sharing a name "
                "interleaved, names from several Unicode blocks, multi-stream gz/bz2/xz layers, plus one-member-corrupted variants and "
                "non-standard 7z headers; non-trivial = at least 2 members")
    ctx.trusted += [
        "G-dump: tools/props/c10.py prints MAGIC_SIGNATURES, TAR_MAGIC*, NESTED_ARCHIVE_EXTENSIONS, size limits and the "
        "7z coder ids of the imported modules as Coq literals",
        "oracles (Section variables in the theorems, recorded from the real libraries in the correspondence): lzma "
        "FORMAT_ALONE/FORMAT_RAW decompression, zipfile.infolist/read, tarfile.getmembers/extractfile, "
        "router.is_supported_file/get_extractor and the member extractors, str.lower",
        "7z header byte parsing is modelled (coq/C10/Parse.v, fuel-explicit) and tied by a differential run on written, "
        "mutated and encoded headers (parsed reader state and error class compared); termination is proved; the "
        "parse-after-serialise round trip is proved for plain headers (coder chains with bind pairs, attributes without External "
        "byte or absent), composed into C10_7z_members_exact_from_bytes; the Coq serialiser is tied to the Python writer by a "
        "differential run; encoded headers and the External-byte attribute dialect are covered by the "
        "correspondence only; the Python writer is validated against libarchive 3.8; struct.unpack and zlib.crc32 are oracles",
        "the temporary directory of the 7z path is modelled as a name->bytes map (path confinement is C09)",
    ]
    ctx.assumptions += ["member names are normalised relative POSIX paths (C09 covers hostile names)",
                        "POSIX os.path.basename; CPython 3.12 zipfile/tarfile/lzma as oracles"]
    gen_tables(ctx)
    path_label_shape(ctx)

    # ---- proofs
    ctx.prove("C10/Props.v", ["C10/Proofs.vo", "C10/Term.vo", "C10/RoundTrip.vo"], expected=[
        "C10_7z_parse_terminates", "C10_7z_end_header_terminates",
        "C10_7z_number_roundtrip", "C10_7z_name_roundtrip", "C10_7z_bitvector_roundtrip",
        "C10_7z_streams_info_roundtrip", "C10_7z_ser_streams_shape", "C10_7z_wf_header_satisfiable",
        "C10_7z_files_info_roundtrip", "C10_7z_archive_roundtrip", "C10_7z_members_exact_from_bytes",
        "C10_7z_from_bytes_satisfiable", "C10_path_label", "C10_zip_labels", "C10_tar_labels",
        "C10_7z_members_exact", "C10_7z_hypothesis_satisfiable", "C10_7z_members_exact_no_substreams",
        "C10_7z_multi_folder_refuted", "C10_7z_no_substreams_refuted", "C10_7z_empty_file_refuted",
        "C10_7z_corrupt_member_local_refuted", "C10_zip_members_exact", "C10_tar_members_exact",
        "C10_zip_corrupt_member_local", "C10_zip_corrupt_member_local_refuted", "C10_tar_member_local",
        "C10_detect_magic", "C10_detect_tar", "C10_detect_tar_fallback", "C10_routes"])
    ctx.prove("C10/Inst.v", ["Gen/C10Tables.vo", "C10/Corr.vo", "C10/Spec.vo"], expected=[
        "C10_tables_wf", "C10_magic_routes", "C10_coder_ids", "C10_detect_tar_shadowed_refuted",
        "C10_detect_magic_satisfiable", "C10_prop_ids"])

    # which revision does the tree under test implement?  The model follows the REPAIRED code (rev_new); the
    # correspondence therefore breaks on an unrepaired tree and the property oracle below names the input.
    fixtures = load_fixtures()
    BROKEN_FIXTURES[:] = [fx[1][:rng.randint(40, 300)] for fx in fixtures] + [fx[1][:150] + fx[1][-150:] for fx in fixtures]
    cases7, info7 = [], []
    casesz, infoz = [], []
    casest, infot = [], []
    apaths = ["arch.7z", "dir/my archive.7z", None, ""]
    sweep = []   # (format, archive bytes, path label): a sample re-run under other environments at the end

    # ================================================================= 7z, standard layouts
    n7 = ctx.n(160, 1500)
    for i in range(n7):
        members = gen_members(rng, 6)
        arch, H, desc = seven_std(rng, members)
        apath = rng.choice(apaths)
        with Spy() as spy:
            out, term = drive(arch, apath)
        calls = [(bn, d, p) for bn, d, p in out]
        t = EXN.get(term, term)
        listing = impl_list7(arch)
        cases7.append(case7_term(arch, H, apath, calls, t, listing, True))
        info7.append(("std", desc, [m[0] for m in members]))
        ctx.case(("7z", desc, [(m[0], m[1], len(m[2])) for m in members]), len(members) >= 2,
                 kind=f"7z:{desc['layout']}:{desc['coder']}")
        if len(sweep) < 40 and i % 4 == 0:
            sweep.append(("7z", arch, apath or "a.7z"))
        nfold = len(desc["cuts"])
        key = f"7z-multi-folder:{desc['coder']}" if nfold >= 2 else f"7z-members:{desc['layout']}:{desc['coder']}"
        ok = check_members(ctx, key, "7z member does not come out as itself", "7z", desc, members, arch, apath or "a.7z",
                           empties_expected=False)
        if ok and any(k == "empty" and expected_member(n, k) for n, k, _ in members):
            check_members(ctx, "7z-empty-file-dropped", "7z empty file member yields no result (ZIP/TAR yield one)",
                          "7z", desc, members, arch, apath or "a.7z", empties_expected=True)
    # bigger members (fixture docx/pdf/xlsx) — property oracle only
    for i in range(ctx.n(8, 60)):
        members = gen_members(rng, 5, fixtures=fixtures)
        arch, H, desc = seven_std(rng, members)
        ctx.case(("7z-fixture", desc, [(m[0], m[1], len(m[2])) for m in members]), len(members) >= 2, kind="7z:fixtures")
        nfold = len(desc["cuts"])
        key = f"7z-multi-folder:{desc['coder']}" if nfold >= 2 else f"7z-members:{desc['layout']}:{desc['coder']}"
        check_members(ctx, key, "7z member does not come out as itself", "7z", desc, members, arch, "big.7z",
                      empties_expected=False)
    # large members: folders of 6-60 KB in which a late member repeats (part of) an early one with distinct data between
    # (matches that reach far back in a solid folder; identical content under different names)
    def big_text(nbytes):
        out = []
        while sum(len(x) + 1 for x in out) < nbytes:
            out.append(format(rng.getrandbits(rng.choice([16, 32, 48])), "x"))
        return (" ".join(out)[:nbytes] + "\n").encode()
    for i in range(ctx.n(12, 80)):
        base = big_text(rng.randint(600, 5000))
        members = [("2023/terms%d.txt" % i, "data", base)]
        for j in range(rng.randint(1, 3)):
            members.append(("docs/filler%d-%d.%s" % (i, j, rng.choice(["txt", "md", "csv"])), "data", big_text(rng.randint(1500, 12000))))
        rep = base if rng.random() < 0.5 else base[rng.randrange(len(base) // 2):] + b"changed tail\n"
        members.append(("2024/terms%d.txt" % i, "data", rep))
        if rng.random() < 0.5:
            members.append(("2024/de/agb%d.txt" % i, "data", base))
        if rng.random() < 0.3:
            members.insert(rng.randint(0, len(members)), ("assets/settings%d.xml" % i, "data", b"<?xml version='1.0'?><a/>"))
        nd = len(members)
        kind = rng.choice(["lzma2", "lzma2", "lzma", "mixed"])
        cuts = [nd] if rng.random() < 0.6 else [nd - 1, 1] if rng.random() < 0.5 else [1, nd - 1]
        kinds = [rng.choice(["lzma", "lzma2"]) for _ in cuts] if kind == "mixed" else kind
        arch, _, _ = Z.pack(members, cuts, kinds, substreams=rng.choice(["7zip", "full"]))
        desc = {"layout": "solid" if len(cuts) == 1 else "two-folders", "cuts": cuts, "coder": kind,
                "folder_bytes": sum(len(m[2]) for m in members)}
        ctx.case(("7z-large", desc), True, kind=f"7z-large:{kind}")
        check_members(ctx, f"7z-large-folder:{kind}", "7z member of a large folder does not come out as itself", "7z", desc,
                      members, arch, "big%d.7z" % i, empties_expected=False)
        if i % 3 == 0:
            check_members(ctx, "zip-identical-content-members", "ZIP members with identical content do not each come out as themselves",
                          "zip", {"method": "deflated", "members": nd}, members, write_zip(members, zipfile.ZIP_DEFLATED), "big%d.zip" % i)
            check_members(ctx, "tar-identical-content-members", "TAR members with identical content do not each come out as themselves",
                          "tar", {"compression": "xz", "members": nd}, members, write_tar(members, "xz"), "big%d.tar.xz" % i)

    # no SubStreamsInfo (valid by the format specification, 7-Zip reads it; libarchive refuses it)
    for i in range(ctx.n(6, 40)):
        members = [m for m in gen_members(rng, 5) if m[1] != "empty"]
        nd = sum(1 for m in members if m[1] == "data")
        kind = rng.choice(["copy", "lzma", "lzma2"])
        arch, H, _ = Z.pack(members, [1] * nd, kind, substreams="none")
        desc = {"layout": "perfile", "coder": kind, "substreams": "none"}
        ctx.case(("7z-noss", kind, [(m[0], m[1], len(m[2])) for m in members]), len(members) >= 2, kind="7z:no-substreams")
        check_members(ctx, "7z-no-substreams-info", "7z without SubStreamsInfo: members come back empty/wrong", "7z", desc,
                      members, arch, "n.7z", empties_expected=False)

    # ================================================================= 7z, non-standard headers (model only)
    for i in range(ctx.n(140, 1200)):
        members = gen_members(rng, 5)
        arch, H, desc = seven_odd(rng, members)
        apath = rng.choice(apaths)
        with Spy() as spy:
            out, term = drive(arch, apath)
        t = EXN.get(term, term)
        listing = impl_list7(arch)
        cases7.append(case7_term(arch, H, apath, list(out), t, listing, True))
        info7.append(("odd", desc, [m[0] for m in members]))
        ctx.case(("7z-odd", desc, [(m[0], m[1], len(m[2])) for m in members]), len(members) >= 2, kind=f"7z-odd:{desc['odd']}")
        if t not in (None, "Failed", "Encrypted", "TooLarge"):
            ctx.finding(f"7z-unexpected-exception:{t}", f"read_archive raised {t} on a 7z with header variation {desc}",
                        {"archive": arch, "desc": desc})

    # ================================================================= 7z, one folder corrupted
    for i in range(ctx.n(30, 300)):
        members = [m for m in gen_members(rng, 6) if m[1] != "empty"]
        datas = [j for j, m in enumerate(members) if m[1] == "data"]
        if len(datas) < 2:
            continue
        kind = rng.choice(["copy", "lzma", "lzma2"])
        k = rng.randrange(len(datas))

        def flip(b):
            b = bytearray(b)
            j = rng.randrange(len(b))
            b[j] ^= 1 << rng.randrange(8)
            return bytes(b)
        arch, H, _ = Z.pack(members, [1] * len(datas), kind, corrupt_folder=(k, flip))
        desc = {"layout": "perfile", "coder": kind, "corrupt_member": members[datas[k]][0]}
        ctx.case(("7z-corrupt", desc), True, kind=f"7z-corrupt:{kind}")
        check_members(ctx, f"7z-corrupt-folder-aborts-archive:{kind}" if kind != "copy" else "7z-corrupt-member:copy",
                      "a corrupt 7z member affects other members", "7z", desc, members, arch, "c.7z",
                      empties_expected=False, skip_idx=datas[k])


    # ================================================================= real password-protected documents as members
    enc_fx = []
    for pth in sorted((REPO / "sharepoint2text" / "tests" / "resources").glob("*/password_protected/*")):
        if pth.suffix.lower() in (".docx", ".xlsx", ".pptx", ".pdf", ".doc", ".xls", ".odt", ".ods", ".odp") and pth.stat().st_size < 100_000:
            enc_fx.append((pth.name, pth.read_bytes()))
    ctx.extra["encrypted_member_fixtures"] = [n for n, _ in enc_fx]
    for fname, fdata in enc_fx:
        members = [("first.txt", "data", b"first member\n"), ("docs/" + fname, "data", fdata), ("last.md", "data", b"# last member\n")]
        ctx.case(("encrypted-member", fname), True, kind="encrypted-member")
        d = {"encrypted_member": fname}
        check_members(ctx, "zip-encrypted-member-affects-others", "a password-protected document inside a ZIP affects other members",
                      "zip", d, members, write_zip(members, zipfile.ZIP_DEFLATED), "e.zip")
        check_members(ctx, "tar-encrypted-member-affects-others", "a password-protected document inside a TAR affects other members",
                      "tar", d, members, write_tar(members, rng.choice(["", "gz", "xz"])), "e.tar")
        check_members(ctx, "7z-encrypted-member-affects-others", "a password-protected document inside a 7z affects other members",
                      "7z", d, members, Z.pack(members, rng.choice([[3], [1, 1, 1]]), rng.choice(["copy", "lzma2"]))[0], "e.7z",
                      empties_expected=False)

    # ================================================================= member names outside the BMP (UTF-16 surrogate pairs)
    for nm in ("\U0001F600.txt", "sub/r\U0001F4C4port.md", "\U00020000\u4e00.csv"):
        members = [("a.txt", "data", b"first member\n"), (nm, "data", b"named outside the BMP\n"), ("c.md", "data", b"# last\n")]
        ctx.case(("nonbmp", nm), True, kind="names:non-bmp")
        for kind in ("copy", "lzma2"):
            arch, H, _ = Z.pack(members, [3] if kind == "copy" else [1, 1, 1], kind)
            check_members(ctx, "7z-non-bmp-member-name", "7z member name with a character outside the BMP", "7z",
                          {"coder": kind, "name": nm}, members, arch, "n.7z", empties_expected=False)
        check_members(ctx, "zip-members:non-bmp-name", "ZIP member name with a character outside the BMP", "zip",
                      {"name": nm}, members, write_zip(members, zipfile.ZIP_DEFLATED), "n.zip")
        check_members(ctx, "tar-members:non-bmp-name", "TAR member name with a character outside the BMP", "tar",
                      {"name": nm}, members, write_tar(members, "gz"), "n.tar.gz")

    # ================================================================= 7z byte-level header parser (model: C10/Parse.v)
    casesp, infop = [], []
    casess, infos_ = [], []

    def add_parse_case(arch, what):
        term, kind = parse_case(arch)
        ctx.case(("7z-parse", what, len(arch), kind), True, kind=f"7z-parse:{what}:{kind}")
        if term is not None:
            casesp.append(term)
            infop.append((what, kind, arch.hex()[:200]))
    for i in range(ctx.n(70, 700)):
        members = gen_members(rng, 5)
        std = rng.random() < 0.5
        if std:
            arch, H, desc = seven_std(rng, members)
        else:
            arch, H, desc = seven_odd(rng, members)
        H = dict(H)
        if std:
            # the Coq serialiser (C10/Ser.v, subject of the round-trip theorems) must produce the writer's bytes
            H2 = dict(H)
            H2["attr_external_byte"] = False
            off0 = struct.unpack("<Q", arch[12:20])[0]
            area0 = arch[32:32 + off0] if not desc.get("encoded_header") else Z.pack(members, desc["cuts"], "copy")[2]
            if not desc.get("encoded_header"):
                if H2["folders"] and rng.random() < 0.35:
                    # a coder chain (BCJ filter in front of the codec): bind pairs in the folder record
                    H2["folders"] = [dict(f) for f in H2["folders"]]
                    fch = rng.choice(H2["folders"])
                    fch["coders"] = [(b"\x03\x03\x01\x03", None)] + list(fch["coders"])
                    fch["unpack"] = list(fch["unpack"]) + list(fch["unpack"])
                    if rng.random() < 0.4:
                        fch["coders"] = [(b"\x00", None)] + fch["coders"]
                        fch["unpack"] = fch["unpack"][:1] + fch["unpack"]
                hb0 = Z.header_bytes(H2)
                arch0 = reassemble(area0, hb0)
                ss0 = H2.get("ss")
                crcb = None if not ss0 or ss0.get("crcs") is None else b"".join(Z.u32(c) for c in ss0["crcs"])
                efl = [bool(f.get("emptyfile")) for f in H2["files"] if f["empty"]]
                efb = Z.bitvec(efl) if any(efl) else None
                wa = any(f.get("attr") is not None for f in H2["files"])
                tbl = coq_list([f"({coq_bytes(d)}, {cN(zlib.crc32(d) & 0xFFFFFFFF)})" for d in (arch0[12:32], hb0)])
                casess.append(f"({c_header(H2)}, {c_optbytes(crcb)}, {c_optbytes(efb)}, {coq_bool(wa)}, {coq_bytes(area0)}, "
                              f"{tbl}, {coq_bytes(hb0)}, {coq_bytes(arch0)})")
                infos_.append(desc)
        if rng.random() < 0.3 and H["files"]:
            # names outside the BMP and lone surrogates (header parser only: such names cannot be created on disk)
            H["files"] = [dict(f) for f in H["files"]]
            k = rng.randrange(len(H["files"]))
            H["files"][k]["name"] = rng.choice(["\U0001F600.txt", "a\ud800b.txt", "x\udc00\ud800y", "\ud83d\ude00z.md",
                                                 "\U00020000\u4e00", "\udbff\udfff", "q\ud800"]) 
        H["attr_external_byte"] = rng.random() < 0.5
        area = b"".join([])  # pack area is irrelevant for header parsing, but keep the real one
        off = struct.unpack("<Q", arch[12:20])[0]
        area = arch[32:32 + off]
        hb = Z.header_bytes(H)
        add_parse_case(reassemble(area, hb), "written")
        for _ in range(2):
            add_parse_case(reassemble(area, mutate_bytes(rng, hb)), "mutated-header")
        if rng.random() < 0.3:
            add_parse_case(reassemble(area, mutate_bytes(rng, hb), fix_crc=False), "bad-header-crc")
        if rng.random() < 0.3:
            whole = bytearray(reassemble(area, hb))
            whole[rng.randrange(min(32, len(whole)))] ^= 1 << rng.randrange(8)
            add_parse_case(bytes(whole), "mutated-signature")
        if rng.random() < 0.4:
            a2 = Z.write_archive(H, area, encode_header=True)
            add_parse_case(a2, "encoded-header")
            off2 = struct.unpack("<Q", a2[12:20])[0]
            add_parse_case(reassemble(a2[32:32 + off2], mutate_bytes(rng, a2[32 + off2:])), "mutated-encoded-header")
        if rng.random() < 0.15:
            # archive properties + additional streams info in front of the main streams info
            extra = b"\x02" + b"\x19" + Z.num(3) + b"abc" + b"\x00"
            hb2 = hb[:1] + extra + hb[1:]
            add_parse_case(reassemble(area, hb2), "archive-properties")
    # an AES-encoded header (7z -mhe=on): Encrypted7zError
    aes = bytearray([0x17, 0x06]) + Z.num(0) + Z.num(1) + b"\x09" + Z.num(16) + b"\x00"
    aes += b"\x07\x0b" + Z.num(1) + b"\x00" + Z.num(1) + bytes([4 | 0x20]) + b"\x06\xf1\x07\x01" + Z.num(2) + b"\x13\x00"
    aes += b"\x0c" + Z.num(10) + b"\x00" + b"\x00"
    add_parse_case(reassemble(b"\x00" * 16, bytes(aes)), "aes-encoded-header")
    add_parse_case(b"", "empty-file")
    add_parse_case(Z.MAGIC, "magic-only")

    # ================================================================= ZIP
    for i in range(ctx.n(120, 1200)):
        members, ndup = add_duplicates(rng, gen_members(rng, 6))
        method = rng.choice([zipfile.ZIP_STORED, zipfile.ZIP_DEFLATED])
        mname = "stored" if method == zipfile.ZIP_STORED else "deflated"
        members, shape = reshape_name(rng, members)
        zvariant = rng.choice(["plain", "plain", "zip64-local", "stream", "ut-extra"])
        arch = write_zip(members, method, zvariant, rng)
        corrupt = None
        names_once = [m[0] for m in members]
        datas = [j for j, m in enumerate(members) if m[1] == "data" and len(m[2]) >= 4 and names_once.count(m[0]) == 1]
        if datas and shape is None and rng.random() < 0.35:   # (the corrupted member is recognised by its path label)
            corrupt = rng.choice(datas)
            raw = bytearray(arch)
            with zipfile.ZipFile(io.BytesIO(arch)) as zf:
                zi = zf.infolist()[corrupt]   # the entry at this POSITION (write_zip writes one entry per member)
                nlen, xlen = struct.unpack("<HH", arch[zi.header_offset + 26:zi.header_offset + 30])   # LOCAL header lengths
                start = zi.header_offset + 30 + nlen + xlen
                pos = start + rng.randrange(max(1, zi.compress_size))
            raw[pos] ^= 0x55
            arch = bytes(raw)
        apath = rng.choice(["x.zip", "d/some.zip", None])
        # zipfile oracle
        try:
            with zipfile.ZipFile(io.BytesIO(arch)) as zf:
                infos = []
                for zi in zf.infolist():
                    try:
                        rd = "(ZOk %s)" % coq_bytes(zf.read(zi))
                    except RuntimeError:
                        rd = "ZRuntime"
                    except zipfile.BadZipFile:
                        rd = "ZBadZip"
                    except Exception:  # noqa
                        rd = "ZOther"
                    infos.append("{| z_name := %s; z_isdir := %s; z_flags := %s; z_size := %s; z_read := %s |}" % (
                        coq_str(zi.filename), coq_bool(zi.is_dir()), cN(zi.flag_bits), cN(zi.file_size), rd))
            zopen = "(Some " + coq_list(infos) + ")"
        except Exception:  # noqa
            zopen = "None"
        with Spy():
            out, term = drive(arch, apath)
        t = EXN.get(term, term)
        casesz.append("{| kz_rev := rev_new; kz_open := %s; kz_apath := %s; kz_names := %s; kz_expect := (%s, %s) |}" % (
            zopen, coq_opt(apath, coq_str), c_names([m[0] for m in members]), c_calls(list(out)), c_term(t)))
        infoz.append((mname, corrupt, [m[0] for m in members]))
        ctx.case(("zip", mname, corrupt, [(m[0], m[1], len(m[2])) for m in members]), len(members) >= 2,
                 kind=f"zip:{mname}:{zvariant}" + (":corrupt" if corrupt is not None else "") + (":dupnames" if ndup else "")
                 + (f":name-{shape}" if shape else ""))
        if corrupt is None:
            zkey = f"zip-duplicate-member-names:{mname}" if ndup else f"zip-members:{mname}"
            if shape:
                zkey = f"zip-member-name-shape:{shape}"
            elif zvariant != "plain" and not ndup:
                zkey = f"zip-members:{mname}:{zvariant}"
            okz = check_members(ctx, zkey,
                                "ZIP entry does not come out as itself" + (" (entries sharing a name)" if ndup else ""), "zip",
                                {"method": mname, "writer": zvariant, "name_shape": shape, "entries_sharing_a_name": ndup},
                                members, arch, apath or "z.zip")
            if len(sweep) < 70 and i % 3 == 0:
                sweep.append(("zip", arch, apath or "z.zip"))
        else:
            check_members(ctx, "zip-corrupt-member-aborts-archive", "a corrupt ZIP member affects other members", "zip",
                          {"method": mname, "corrupt_member": members[corrupt][0]}, members, arch, apath or "z.zip",
                          skip_idx=corrupt)
    for i in range(ctx.n(4, 30)):
        members = gen_members(rng, 4, fixtures=fixtures)
        arch = write_zip(members, zipfile.ZIP_DEFLATED)
        ctx.case(("zip-fixture", [(m[0], m[1], len(m[2])) for m in members]), len(members) >= 2, kind="zip:fixtures")
        check_members(ctx, "zip-members:deflated", "ZIP member does not come out as itself", "zip", "deflated", members, arch, "f.zip")

    # ================================================================= TAR
    for i in range(ctx.n(120, 1200)):
        members = gen_members(rng, 6)
        comp = rng.choice(["", "gz", "bz2", "xz"])
        if comp == "" and not members:
            # an empty plain TAR is 10 KiB of NUL bytes: it carries no magic at all, so it is not detectable by
            # content (read_archive raises "Unable to detect archive type"); outside the quantifier (>= 1 member)
            members = [("only.txt", "data", b"only member\n")]
        fmt = rng.choice([tarfile.PAX_FORMAT, tarfile.GNU_FORMAT, tarfile.USTAR_FORMAT])
        if fmt == tarfile.USTAR_FORMAT:
            members = [m for m in members if all(ord(c) < 128 for c in m[0])]
        if comp == "" and not members:
            members = [("only.txt", "data", b"only member\n")]
        members, ndup = add_duplicates(rng, members)
        members, shape = reshape_name(rng, members)
        withsym = list(members)
        if rng.random() < 0.3:
            withsym.insert(rng.randint(0, len(withsym)), ("link%d.txt" % i, "symlink", b""))
        arch = write_tar(withsym, comp, fmt)
        nstreams = 1
        if comp and rng.random() < 0.4:
            # the compression layer as several streams back to back (pbzip2, bgzip, `gzip -c more >> x.tar.gz`,
            # xz per-chunk): the plain TAR cut at arbitrary byte positions, every piece compressed on its own
            plain = write_tar(withsym, "", fmt)
            cuts = sorted(rng.sample(range(1, len(plain)), rng.randint(1, 3)))
            if rng.random() < 0.4:   # cuts on member (block) boundaries as well
                cuts = sorted(set(c - c % 512 for c in cuts if c >= 512)) or cuts
            pieces = [plain[a:b] for a, b in zip([0] + cuts, cuts + [len(plain)])]
            cfun = {"gz": gzip.compress, "bz2": bz2.compress, "xz": lambda b: lzma.compress(b, format=lzma.FORMAT_XZ)}[comp]
            arch = b"".join(cfun(p) for p in pieces)
            nstreams = len(pieces)
        corrupt = None
        names_once = [m[0] for m in members]
        datas = [j for j, m in enumerate(members) if m[1] == "data" and len(m[2]) >= 4 and names_once.count(m[0]) == 1]
        if comp == "" and datas and shape is None and rng.random() < 0.3:
            corrupt = rng.choice(datas)
            raw = bytearray(arch)
            with tarfile.open(fileobj=io.BytesIO(arch)) as tf:
                pos_in_tar = next(k for k, m in enumerate(withsym) if m is members[corrupt])
                ti = tf.getmembers()[pos_in_tar]   # the entry at this POSITION
                pos = ti.offset_data + rng.randrange(ti.size)
            raw[pos] ^= 0x55
            arch = bytes(raw)
        apath = rng.choice(["x.tar", "d/some.tar." + (comp or "tar"), None])
        first = withsym[0][0] if withsym else ""
        shadow = comp == "" and any(first.encode("utf-8", "replace")[:ln] == mg for mg, _, ln in ae.MAGIC_SIGNATURES)
        try:
            with tarfile.open(fileobj=io.BytesIO(arch), mode="r:" + (comp or "tar")) as tf:
                tin = []
                for m in tf.getmembers():
                    rd = "TNone"
                    if m.isreg():
                        try:
                            f = tf.extractfile(m)
                            rd = "TNone" if f is None else "(TOk %s)" % coq_bytes(f.read())
                        except Exception:  # noqa
                            rd = "TExc"
                    tin.append("{| t_name := %s; t_isreg := %s; t_size := %s; t_read := %s |}" % (
                        coq_str(m.name), coq_bool(m.isreg()), cN(m.size), rd))
            topen = "(Some " + coq_list(tin) + ")"
        except Exception:  # noqa
            topen = "None"
        with Spy():
            out, term = drive(arch, apath)
        t = EXN.get(term, term)
        if True:
            casest.append("{| kt_open := %s; kt_apath := %s; kt_names := %s; kt_expect := (%s, %s) |}" % (
                topen, coq_opt(apath, coq_str), c_names([m[0] for m in withsym]), c_calls(list(out)), c_term(t)))
            infot.append((comp, corrupt, [m[0] for m in withsym]))
        ctx.case(("tar", comp, fmt, corrupt, [(m[0], m[1], len(m[2])) for m in withsym]), len(members) >= 2,
                 kind=f"tar:{comp or 'plain'}" + (":corrupt" if corrupt is not None else "") + (":dupnames" if ndup else "")
                 + (":multistream" if nstreams > 1 else ""))
        key = f"tar-duplicate-member-names:{comp or 'plain'}" if ndup else f"tar-members:{comp or 'plain'}"
        if nstreams > 1:
            key = f"tar-multi-stream-compression:{comp}"
        if shape:
            key = f"tar-member-name-shape:{shape}"
        if corrupt is None and len(sweep) < 140 and i % 3 == 0:
            sweep.append(("tar", arch, apath or "t.tar"))
        if shadow:
            key = "tar-magic-shadowed-by-first-member-name"
        check_members(ctx, key if corrupt is None else "tar-corrupt-member", "TAR member does not come out as itself",
                      "tar", {"compression": comp or "plain", "format": fmt, "compression_streams": nstreams, "name_shape": shape}, members, arch, apath or "t.tar", skip_idx=corrupt)
    for i in range(ctx.n(3, 20)):
        members = gen_members(rng, 4, fixtures=fixtures)
        comp = rng.choice(["", "gz", "xz"])
        if comp == "" and not members:   # an empty plain TAR carries no magic (see above): outside the quantifier
            members = [("only.txt", "data", b"only member\n")]
        arch = write_tar(members, comp)
        ctx.case(("tar-fixture", comp, [(m[0], m[1], len(m[2])) for m in members]), len(members) >= 2, kind="tar:fixtures")
        check_members(ctx, f"tar-members:{comp or 'plain'}", "TAR member does not come out as itself", "tar", comp or "plain",
                      members, arch, "f.tar")
    # plain TAR whose first member name starts with a magic signature of another format
    for nm in ("BZ_report.txt", "PK\x03\x04.txt", "7z¼¯'\x1c.txt"):
        members = [(nm, "data", b"first member\n"), ("b.txt", "data", b"second member\n")]
        arch = write_tar(members, "", tarfile.GNU_FORMAT)
        ctx.case(("tar-shadow", nm), True, kind="tar:magic-shadow")
        if arch[:2] == b"BZ" or arch[:4] == b"PK\x03\x04":
            check_members(ctx, "tar-magic-shadowed-by-first-member-name",
                          "plain TAR whose first member name starts with another format's magic bytes is misdetected",
                          "tar", {"first_member": nm}, members, arch, "s.tar")

    # ================================================================= the same archives under other environments
    # (DEBUG logging for the library, worker thread, other time zones, other cwd): results must not change
    def sweep_fn(case):
        fmt_, arch_, apath_ = case
        res_, term_ = drive(arch_, apath_)
        return ([canon(r) for r in res_], term_)
    from common import env_sweep
    env_sweep(ctx, "read_archive", sweep_fn, sweep,
              describe=lambda c: f"{c[0]} archive of {len(c[1])} bytes read as {c[2]!r} (sha1 {__import__('hashlib').sha1(c[1]).hexdigest()[:12]})")
    ctx.extra["env_sweep_sample"] = {"cases": len(sweep), "by_format": {f: sum(1 for c in sweep if c[0] == f) for f in ("7z", "zip", "tar")}}

    # ================================================================= detection
    from sharepoint2text.parsing.extractors.archive_extractor import _detect_archive_type_optimized as det
    heads = [b"", b"P", b"PK", b"PK\x03", b"PK\x03\x04", b"PK\x05\x06" + b"\0" * 18, b"7z\xbc\xaf\x27\x1c\0\4", b"7z\xbc\xaf\x27",
             b"\x1f\x8b\x08", b"\x1f", b"BZh9", b"B", b"\xfd7zXZ\x00\x00", b"\xfd7zXZ", b"\0" * 257 + b"ustar", b"\0" * 257 + b"usta",
             b"\0" * 256 + b"ustar\0", b"BZ" + b"\0" * 255 + b"ustar", b"x" * 257 + b"ustar" + b"y" * 400, b"x" * 600,
             b"x" * 508 + b"usta"]
    for a in (write_zip([], zipfile.ZIP_STORED), write_zip([("a.txt", "data", b"x")], zipfile.ZIP_STORED),
              write_tar([("a.txt", "data", b"x")], ""), write_tar([("a.txt", "data", b"x")], "gz"),
              write_tar([("a.txt", "data", b"x")], "bz2"), write_tar([("a.txt", "data", b"x")], "xz"),
              write_tar([], ""), Z.pack([("a.txt", "data", b"x")], [1], "copy")[0], Z.pack([], [], "copy")[0]):
        heads.append(a[:700])
    for nm in ("BZ_report.txt", "PK\x03\x04x.txt", "\x1f\x8b.txt", "plain.txt"):
        heads.append(write_tar([(nm, "data", b"x")], "", tarfile.GNU_FORMAT)[:700])
    heads.append(b"PK\x03\x04" + b"\0" * 253 + b"ustar" + b"\0" * 250)
    for _ in range(ctx.n(150, 3000)):
        base = bytearray(rng.choice(heads))
        for _ in range(rng.randint(0, 2)):
            if base:
                base[rng.randrange(len(base))] = rng.randrange(256)
        if rng.random() < 0.3:
            base = base[:rng.randint(0, len(base))]
        heads.append(bytes(base))
    casesd = []
    for h in heads:
        got = det(io.BytesIO(h))
        try:  # tarfile oracle: is the first block a member header with a valid checksum?
            tarfile.TarInfo.frombuf(h[:512], tarfile.ENCODING, "surrogateescape")
            blk = True
        except tarfile.HeaderError:
            blk = False
        casesd.append(f"({coq_bytes(h)}, {coq_bool(blk)}, {coq_opt(got, coq_str)})")
        ctx.case(("detect", h[:8], len(h)), True, kind="detect")
    routes = []
    for ty in ["zip", "7z", "tar", "tar.gz", "tar.bz2", "tar.xz", "rar", ""]:
        routes.append(ty)

    # ================================================================= Coq compares
    def corr(name, fn, cases, ty, info, shard):
        if not cases:
            return
        ok, failing, log = coq_eval_shards(ctx, name, PRE, fn, cases, shard=shard, ty=ty)
        ctx.traces += len(cases)
        ctx.disagreements += len(failing)
        ctx.obligation(f"correspondence:{name} model==implementation", ok and not failing,
                       (f"{len(failing)} disagreements, first: {info[failing[0]] if failing and info else ''} " + log)[:1500])
        ctx.extra[f"corr_{name}_cases"] = len(cases)
        if failing and info:
            ctx.extra[f"corr_{name}_disagreements"] = [str(info[i])[:300] for i in failing[:10]]
    corr("sevenzip", "(corr7 T)", cases7, "case7", info7, 40)
    corr("sevenzip_header_parser", "(corrp T)", casesp, "bytes * lz_table * crc_table * pexpect", infop, 40)
    corr("sevenzip_serialiser", "corrs", casess,
         "header * option bytes * option bytes * bool * bytes * crc_table * bytes * bytes", infos_, 40)
    corr("zip", "(corrz T)", casesz, "casez", infoz, 60)
    corr("tar", "(corrt T)", casest, "caset", infot, 60)
    corr("detect", "(corrd T)", casesd, "bytes * bool * option str", heads, 200)


META = {
    "technique": "Coq proof over an executable model of the 7z folder/substream bookkeeping, the ZIP/TAR member loops, "
                 "_process_archive_entry, magic detection (codecs, zipfile, tarfile, extractors as Section-variable oracles) + "
                 "kernel-decided well-formedness of the live magic table + vm_compute differential correspondence on "
                 "archives from zipfile, tarfile and an independent 7z writer",
    "design_ref": "DESIGN.md §5 C10",
    "level_text": "Kernel-checked: for every 7z archive laid out by a standard packer (any split of the data files into "
                  "folders, any coder whose pack stream decodes to the folder's data, 7-Zip-style or full SubStreamsInfo, "
                  "directories and empty files interleaved) the model of the repaired reader hands every supported visible "
                  "member exactly its own bytes, in archive order, under basename and archive!/member label; the same for the "
                  "ZIP and TAR member loops; a failing ZIP/TAR member or an unsupported member changes nothing else; the magic "
                  "table routes each signature to the right handler and tar mode.  Refutations (old 7z extractall with >= 2 "
                  "folders, missing SubStreamsInfo, corrupt ZIP member aborting, 7z empty files dropped, corrupt compressed "
                  "7z folder aborting, TAR magic shadowed by a member name) are proved with witnesses and replayed.",
    "level_note": "Trusted: Coq kernel+VM; G-dump printer; hand-written models tied by differential runs. The 7z byte-level "
                  "header parser is modelled and proved terminating; its round trip with the writer (Coq serialiser == Python "
                  "writer, differential) gives C10_7z_members_exact_from_bytes for plain headers (coder chains with bind pairs included "
                  "in the header round trip). Outside the theorems (correspondence only): encoded headers (need the lzma oracle "
                  "to be a codec pair), the External-byte attribute dialect (the implementation does not read "
                  "that byte), real password-protected/damaged member documents (third-party extractors: property oracle only). "
                  "lzma/zipfile/tarfile/zlib.crc32/struct and the member extractors are oracles; temp-dir modelled as a map.",
}
