"""C11 — ZIP-container bomb guard decides exactly and runs before any read.

G: DEFAULT_ZIP_BOMB_LIMITS dumped from the live module into Gen/C11Limits.v; C11/Inst.v re-decides
   `limits_exact` for them.
D: model (vm_compute) vs implementation on (a) a boundary lattice of synthetic ZipInfo lists x limit
   settings, (b) Python's int/int on every quotient the lattice computes + extremes (also against Coq's
   SpecFloat.SFdiv), (c) validate_zip_bytesio / open_zipfile on real ZIPs with forged central directories
   at random stream positions, (d) ZipContext under random client programs.
X: inventory of zipfile.ZipFile( / load_workbook( call sites and of ZipContext subclasses (ast).
Monitor: ZipFile.__init__/open/read/close and zip_bomb.validate_zipfile wrapped from outside the repo while
   every ZIP-container extractor runs on fixtures and on forged variants; traces go through the Coq acceptor.
"""
from __future__ import annotations

import ast
import hashlib
import inspect
import io
import math
import struct
import zipfile
from fractions import Fraction
from pathlib import Path

import common
from common import coq_eval_shards

TWO53 = 2 ** 53


# ============================================================================ Coq printing
def zc(n: int) -> str:
    # decimal literals of hundreds of digits take Coq ~0.3 s each to parse; hexadecimal ones are linear
    s = hex(n) if abs(n) >= 2 ** 64 else str(n)
    return f"({s})" if n < 0 else s


def rl_coq(v) -> str:
    if isinstance(v, bool):
        v = int(v)
    if isinstance(v, int):
        return f"(RFin {zc(v)} 0)"
    if isinstance(v, float):
        if v != v:
            return "RNaN"
        if v == math.inf:
            return "RPosInf"
        if v == -math.inf:
            return "RNegInf"
        n, d = v.as_integer_ratio()
        return f"(RFin {zc(n)} {zc(-(d.bit_length() - 1))})"
    raise TypeError(f"ratio limit of unsupported type {type(v)}")


def limits_coq(L) -> str:
    return (f"(mkL {zc(L.max_entries)} {zc(L.max_total_uncompressed_bytes)} {zc(L.max_single_uncompressed_bytes)} "
            f"{rl_coq(L.max_total_compression_ratio)} {rl_coq(L.max_entry_compression_ratio)})")


def entries_coq(es) -> str:
    """es: list of (fs, cs, is_dir) or ('rep', n, (fs, cs, d)) blocks."""
    parts, cur = [], []
    for e in es:
        if e and e[0] == "rep":
            if cur:
                parts.append("[" + "; ".join(cur) + "]")
                cur = []
            _, n, (fs, cs, d) = e
            parts.append(f"(rep {n} (mk {zc(fs)} {zc(cs)} {'true' if d else 'false'}))")
        else:
            fs, cs, d = e
            cur.append(f"mk {zc(fs)} {zc(cs)} {'true' if d else 'false'}")
    if cur or not parts:
        parts.append("[" + "; ".join(cur) + "]")
    return "(" + " ++ ".join(parts) + ")"


def expand(es):
    out = []
    for e in es:
        if e and e[0] == "rep":
            out += [e[2]] * e[1]
        else:
            out.append(e)
    return out


# ============================================================================ exact oracle (Fractions, no floats)
def rl_value(v):
    """-> ('fin', Fraction) | 'inf' | '-inf' | 'nan'"""
    if isinstance(v, float):
        if v != v:
            return "nan"
        if v == math.inf:
            return "inf"
        if v == -math.inf:
            return "-inf"
    return ("fin", Fraction(v))


def exceeds(a, b, lim) -> bool:
    r = rl_value(lim)
    if r == "-inf":
        return True
    if r in ("inf", "nan"):
        return False
    return Fraction(a, b) > r[1]


def rl_exact(S: int, v) -> bool:
    """mirror of Model.rl_exact: finite, >= 1, and S * 2^max(-e,0) < 2^53 (v = m * 2^e)."""
    r = rl_value(v)
    if not isinstance(r, tuple) or r[1] < 1:
        return False
    den = r[1].denominator          # a power of two for floats, 1 for ints
    return S * den < TWO53


def rl_repr(v) -> bool:
    """mirror of Model.rl_repr on the (m, e) the G-dump prints: m < 2^53 and e >= -1074; non-finite: True."""
    r = rl_value(v)
    if not isinstance(r, tuple):
        return True
    if isinstance(v, float):
        n, d = v.as_integer_ratio()
        return n < TWO53 and -(d.bit_length() - 1) >= -1074
    return int(v) < TWO53


def limits_exact(L) -> bool:
    return (0 <= L.max_total_uncompressed_bytes and 0 <= L.max_single_uncompressed_bytes
            and rl_exact(L.max_total_uncompressed_bytes, L.max_total_compression_ratio)
            and rl_exact(L.max_single_uncompressed_bytes, L.max_entry_compression_ratio))


def bomb_clauses(L, es) -> list[str]:
    """The declarative Bomb disjunction of C11/Model.v, evaluated exactly; returns the clauses that hold."""
    files = [(fs, cs) for fs, cs, d in es if not d]
    out = []
    if len(es) > L.max_entries:
        out.append("count")
    if any(fs > L.max_single_uncompressed_bytes for fs, _ in files):
        out.append("single")
    if any(fs > 0 and cs == 0 for fs, cs in files):
        out.append("zero")
    if any(cs > 0 and exceeds(fs, cs, L.max_entry_compression_ratio) for fs, cs in files):
        out.append("entry-ratio")
    tu = sum(fs for fs, _ in files)
    tc = sum(cs for _, cs in files)
    if tu > L.max_total_uncompressed_bytes:
        out.append("total")
    if tc > 0 and exceeds(tu, tc, L.max_total_compression_ratio):
        out.append("total-ratio")
    return out


def near_threshold(L, es) -> bool:
    files = [(fs, cs) for fs, cs, d in es if not d]
    if abs(len(es) - L.max_entries) <= 1:
        return True
    tu = sum(fs for fs, _ in files)
    tc = sum(cs for _, cs in files)
    if abs(tu - L.max_total_uncompressed_bytes) <= 1:
        return True

    def near_ratio(a, b, lim):
        r = rl_value(lim)
        return isinstance(r, tuple) and b > 0 and abs(a - r[1] * b) <= 1
    if near_ratio(tu, tc, L.max_total_compression_ratio):
        return True
    for fs, cs in files:
        if abs(fs - L.max_single_uncompressed_bytes) <= 1 or (fs, cs) in ((1, 0), (1, 1), (0, 0)):
            return True
        if near_ratio(fs, cs, L.max_entry_compression_ratio):
            return True
    return False


# ============================================================================ implementation drivers
class FakeZip:
    def __init__(self, infos):
        self._infos = infos

    def infolist(self):
        return self._infos


S_IFDIR_MODE = 0o040755 << 16
ATTR_COMBOS = [(cs_, dos | unix) for cs_ in (0, 3) for dos in (0, 0x10) for unix in (0, S_IFDIR_MODE)]   # (create_system, external_attr)


def combo_name(k: int) -> str:
    cs_, ea = ATTR_COMBOS[k]
    return f"sys{cs_}{'+dosdir' if ea & 0x10 else ''}{'+S_IFDIR' if ea >> 16 else ''}"


NAME_MODES = ["unique", "all-same", "pairs", "default-NoName", "later-repeats-first"]


def entry_name(i: int, d: bool, mode: int) -> str:
    """Names never decide anything but the trailing slash; every mode keeps d <-> trailing slash."""
    if mode == 1:
        stem = "dup.bin"
    elif mode == 2:
        stem = f"f{i // 2}.bin"
    elif mode == 3:
        stem = "NoName"                      # zipfile.ZipInfo()'s default filename
    elif mode == 4:
        stem = "f0.bin" if i % 2 else f"f{i}.bin"
    else:
        stem = f"f{i}.bin"
    return (stem.replace(".bin", "") + "/") if d else stem


def zipinfos(es, attrs=None, names_mode: int = 0):
    """ZipInfo objects for (fs, cs, d) entries: d decides ONLY the trailing slash of the name; create_system and
    external_attr run through all 8 combinations (DOS directory bit x unix S_IFDIR x system), independently of d;
    names_mode picks unique / repeated member names (every record counts, whatever it is called)."""
    out = []
    for i, (fs, cs, d) in enumerate(es):
        zi = zipfile.ZipInfo(entry_name(i, d, names_mode))
        zi.file_size = fs
        zi.compress_size = cs
        k = attrs[i] if attrs is not None else (i + fs + cs) % 8
        zi.create_system, zi.external_attr = ATTR_COMBOS[k]
        out.append(zi)
    return out


def impl_validate(zb, L, es, attrs=None, names_mode: int = 0) -> int:
    """0 = returned, 1 = ExtractionZipBombError, 2 = OverflowError, otherwise the exception name."""
    from sharepoint2text.parsing.exceptions import ExtractionZipBombError
    try:
        r = zb.validate_zipfile(FakeZip(zipinfos(es, attrs, names_mode)), limits=L, source="verif")
        return 0 if r is None else "returned:" + repr(r)
    except ExtractionZipBombError:
        return 1
    except OverflowError:
        return 2
    except Exception as e:  # noqa
        return type(e).__name__


# ============================================================================ lattice generator
def limit_sets(zb):
    Z = zb.ZipBombLimits
    return [
        ("default", zb.DEFAULT_ZIP_BOMB_LIMITS),
        ("low", Z(3, 1000, 400, 10.0, 20.0)),
        ("lowint", Z(5, 5000, 1000, 3, 7)),
        ("one", Z(4, 100, 60, 1.0, 1.0)),
        ("big", Z(50_000, 2 ** 52, 2 ** 52, 200.0, 500.0)),
        ("edge53", Z(10, TWO53 - 1, TWO53 - 1, 3.0, 3.0)),
        ("frac", Z(10, 10 ** 6, 10 ** 5, 2.5, 7.25)),
        ("frac500", Z(50_000, 2 ** 32, 2 ** 30, 200.5, 500.5)),
        ("frac-edge", Z(10, 2 ** 50 - 1, 2 ** 50 - 1, 1.125, 3.875)),
        ("frac-over", Z(10, 2 ** 52, 2 ** 52, 2.5, 7.25)),
        ("tiny-ratio", Z(10, 10 ** 6, 10 ** 5, 0.5, 0.125)),
        ("zero-ratio", Z(10, 10 ** 4, 10 ** 4, 0.0, 0.0)),
        ("neg", Z(10, 10 ** 4, 10 ** 4, -1.0, -2.0)),
        ("inf", Z(10, 10 ** 4, 10 ** 4, math.inf, math.inf)),
        ("nan", Z(10, 10 ** 4, 10 ** 4, math.nan, -math.inf)),
        ("zero-limits", Z(0, 0, 0, 1.0, 1.0)),
        ("neg-total", Z(2, -1, 5, 2.0, 2.0)),
        ("wide", Z(50_000, 2 ** 70, 2 ** 70, 500.0, 500.0)),
        ("huge", Z(50_000, 2 ** 1100, 2 ** 1100, 200.0, 500.0)),
    ]


def fin(v, default):
    r = rl_value(v)
    return r[1] if isinstance(r, tuple) else Fraction(default)


def lattice(ctx, name, L):
    """Yield (kind, entries) — entries may contain ('rep', n, e) blocks."""
    rng = ctx.rng
    N, T, S = L.max_entries, L.max_total_uncompressed_bytes, L.max_single_uncompressed_bytes
    ER, TR = fin(L.max_entry_compression_ratio, 500), fin(L.max_total_compression_ratio, 200)
    D3 = (-1, 0, 1)
    zero_gadget = {-1: (0, 0, False), 0: (1, 1, False), 1: (1, 0, False), None: None}
    dirs = [(0, 0, True), (S + 5 if S >= 0 else 5, 0, True), (10 ** 12, 1, True), (1, 0, True)]

    def lowratio_cs(fs):
        # a compressed size that keeps the entry ratio well below both limits
        return max(1, fs)

    def with_dirs(es, k):
        es = list(es)
        for _ in range(k):
            es.insert(rng.randint(0, len(es)), rng.choice(dirs))
        return es

    # ---- A: single size x entry ratio x zero-compressed x total (tuned with ratio-1 fillers)
    for ds in D3 + (None,):
        for de in D3 + (None,):
            for dz in D3 + (None,):
                for dt in D3 + (None,):
                    es = []
                    if ds is not None and S + ds >= 0:
                        es.append((S + ds, lowratio_cs(S + ds), False))
                    if de is not None:
                        cs = rng.choice([1, 2, 3, 7, 64, 1000, 2 ** 20 + 1])
                        fs = int(math.floor(ER * cs)) + de
                        if fs >= 0:
                            es.append((fs, cs, False))
                    if zero_gadget[dz]:
                        es.append(zero_gadget[dz])
                    if dt is not None:
                        rem = T + dt - sum(e[0] for e in es)
                        k = 0
                        while rem > 0 and k < 8:
                            f = min(rem, max(S, 1)) if S > 0 else rem
                            es.append((f, lowratio_cs(f), False))
                            rem -= f
                            k += 1
                    rng.shuffle(es)
                    yield "A", with_dirs(es, rng.randint(0, 2))
    # ---- B: total ratio boundary, with and without an entry-ratio boundary inside
    for dr in D3:
        for de in D3 + (None,):
            for dz in (None, -1, 1):
                for _ in range(3):
                    c1 = rng.choice([1, 2, 5, 100, 4096])
                    c2 = rng.choice([1, 3, 10, 1000, 65536])
                    if de is None:
                        u1 = rng.randint(0, max(0, int(min(ER, TR) * c1)))
                    else:
                        u1 = max(0, int(math.floor(ER * c1)) + de)
                    u2 = int(math.floor(TR * (c1 + c2))) + dr - u1
                    if u2 < 0:
                        u1, u2 = max(0, u1 + u2), 0
                    es = [(u1, c1, False), (u2, c2, False)]
                    if zero_gadget[dz] and dz == -1:
                        es.append(zero_gadget[dz])
                    elif dz == 1:
                        es.append((1, 0, False))
                    rng.shuffle(es)
                    yield "B", with_dirs(es, rng.randint(0, 2))
    # ---- C: entry count boundary (directories count), small files / dirs
    for dn in D3:
        n = N + dn
        if n < 0:
            continue
        for filler in ((0, 0, True), (0, 0, False), (1, 1, False)):
            if n > 2000:
                if filler[0] == 0:   # 50k int/int evaluations per case cost the Coq side ~13 s: keep those small
                    yield "C", [("rep", n - 1, filler), (3, 3, False)]
            else:
                yield "C", [filler] * n
    # ---- D: random vectors from the gadget pool
    pool = []
    for d in (-2, -1, 0, 1, 2):
        if S + d >= 0:
            pool.append((S + d, lowratio_cs(S + d), False))
        for cs in (1, 2, 9, 333, 2 ** 16):
            fs = int(math.floor(ER * cs)) + d
            if fs >= 0:
                pool.append((fs, cs, False))
    pool += [(0, 0, False), (1, 0, False), (0, 1, False), (1, 1, False), (0, 5, False), (2, 1, False)] + dirs
    for _ in range(ctx.n(120, 1500)):
        k = rng.randint(0, 6)
        yield "D", [rng.choice(pool) for _ in range(k)]
    yield "D", []


def special_cases(zb):
    Z = zb.ZipBombLimits
    wide = Z(50_000, 2 ** 70, 2 ** 70, 500.0, 500.0)
    huge = Z(50_000, 2 ** 1100, 2 ** 1100, 200.0, 500.0)
    return [
        ("float-rounding-witness", wide, [(500 * 2 ** 60 + 1, 2 ** 60, False)]),
        ("float-rounding-40", wide, [(500 * 2 ** 40 + 1, 2 ** 40, False)]),
        ("overflow-witness", huge, [(2 ** 1030, 1, False)]),
        ("u64-max", wide, [(2 ** 64 - 1, 2 ** 64 - 1, False), (2 ** 64 - 1, 3, True)]),
    ]


# ============================================================================ int/int
def py_div(a, b):
    try:
        x = a / b
    except OverflowError:
        return None
    if x == 0:
        return (0, 0)
    m, e = math.frexp(x)
    return (int(m * TWO53), e - 53)


def div_pairs(ctx, seen):
    rng = ctx.rng
    ps = set(seen)
    for K in (1, 3, 200, 500, 2 ** 20):
        for b in (1, 2, 3, 2 ** 30, 2 ** 43, 2 ** 44 - 1, (TWO53 - 1) // K, (TWO53 - 1) // K - 1, 2 ** 52 // K):
            if b <= 0:
                continue
            for d in (-1, 0, 1):
                ps.add((K * b + d, b))
    for a, b in [(1, 3), (2 ** 64 - 1, 3), (500 * 2 ** 60 + 1, 2 ** 60), (500 * 2 ** 40 + 1, 2 ** 40), (TWO53 + 1, 1),
                 (TWO53 + 1, 2), (2 ** 54 + 2, 1), (2 ** 54 + 6, 1), (1, 2 ** 1074), (1, 2 ** 1075), (3, 2 ** 1075),
                 (3, 2 ** 1076), (1, 2 ** 1022), (2 ** 1024, 1), (2 ** 1024 - 2 ** 970, 1), (2 ** 1024 - 2 ** 970 - 1, 1),
                 (2 ** 1030, 1), (2 ** 2000, 2 ** 990), (2 ** 2000 + 1, 2 ** 976), (1, 1), (1, 2 ** 2000)]:
        ps.add((a, b))
    for _ in range(ctx.n(600, 6000)):
        ba, bb = rng.randint(1, 70), rng.randint(1, 70)
        ps.add((rng.getrandbits(ba) | 1, rng.getrandbits(bb) | 1))
    for _ in range(ctx.n(100, 1000)):
        # halfway cases: a / 2^k with 54..56 significant bits
        a = rng.getrandbits(rng.randint(54, 56)) | (1 << 53)
        ps.add((a, 1 << rng.randint(0, 20)))
        ps.add((a | 1, 1 << rng.randint(0, 20)))
    return sorted(p for p in ps if p[0] > 0 and p[1] > 0)


# ============================================================================ ZIP forging
def central_records(data: bytes):
    """[(offset_of_record, name)] and (eocd_offset, cd_offset, cd_size, count)."""
    eocd = data.rfind(b"PK\x05\x06")
    count, cd_size, cd_off = struct.unpack("<HII", data[eocd + 10:eocd + 20])
    recs, p = [], cd_off
    for _ in range(count):
        assert data[p:p + 4] == b"PK\x01\x02", "central record expected"
        nlen, elen, clen = struct.unpack("<HHH", data[p + 28:p + 34])
        recs.append((p, data[p + 46:p + 46 + nlen]))
        p += 46 + nlen + elen + clen
    return recs, (eocd, cd_off, cd_size, count)


def forge(data: bytes, sizes: dict[int, tuple[int, int]], extra_dirs: int = 0, attrs: dict | None = None) -> bytes:
    """Rewrite (file_size, compress_size) of central-directory record i; optionally append `extra_dirs`
    directory records (offset 0) and fix the end-of-central-directory counts."""
    b = bytearray(data)
    recs, (eocd, cd_off, cd_size, count) = central_records(data)
    for i, (fs, cs) in sizes.items():
        p = recs[i][0]
        b[p + 20:p + 24] = struct.pack("<I", cs)
        b[p + 24:p + 28] = struct.pack("<I", fs)
    for i, k in (attrs or {}).items():     # central record: create_system = high byte of "version made by", external_attr
        p = recs[i][0]
        b[p + 5] = ATTR_COMBOS[k][0]
        b[p + 38:p + 42] = struct.pack("<I", ATTR_COMBOS[k][1])
    if extra_dirs:
        add = bytearray()
        for k in range(extra_dirs):
            name = f"zz{k}/".encode()
            add += struct.pack("<4sHHHHHHIIIHHHHHII", b"PK\x01\x02", 20, 20, 0, 0, 0, 0x21, 0, 0, 0,
                               len(name), 0, 0, 0, 0, 0x10, 0) + name
        tail = bytes(b[cd_off + cd_size:])
        b = b[:cd_off + cd_size] + add + bytearray(tail)
        eocd2 = eocd + len(add)
        b[eocd2 + 8:eocd2 + 12] = struct.pack("<HH", count + extra_dirs, count + extra_dirs)
        b[eocd2 + 12:eocd2 + 16] = struct.pack("<I", cd_size + len(add))
    return bytes(b)


def dup_record(data: bytes, i: int, sizes: tuple[int, int] | None = None) -> bytes:
    """Append a copy of central-directory record i (same member NAME, same local header) at the end of the central
    directory, optionally with forged (file_size, compress_size): zipfile's NameToInfo then points at this LAST record."""
    recs, (eocd, cd_off, cd_size, count) = central_records(data)
    p = recs[i][0]
    end = recs[i + 1][0] if i + 1 < len(recs) else cd_off + cd_size
    rec = bytearray(data[p:end])
    if sizes is not None:
        rec[20:24] = struct.pack("<I", sizes[1])
        rec[24:28] = struct.pack("<I", sizes[0])
    b = bytearray(data[:cd_off + cd_size]) + rec + bytearray(data[cd_off + cd_size:])
    e2 = eocd + len(rec)
    b[e2 + 8:e2 + 12] = struct.pack("<HH", count + 1, count + 1)
    b[e2 + 12:e2 + 16] = struct.pack("<I", cd_size + len(rec))
    return bytes(b)


def forge_zip64(data: bytes, i: int, fs: int, cs: int) -> bytes:
    """Express the sizes of central record i through a ZIP64 extended-information extra field (0x0001): the 32-bit
    fields become 0xFFFFFFFF and zipfile decodes the 64-bit values."""
    recs, (eocd, cd_off, cd_size, count) = central_records(data)
    p = recs[i][0]
    end = recs[i + 1][0] if i + 1 < len(recs) else cd_off + cd_size
    rec = bytearray(data[p:end])
    nlen, elen, clen = struct.unpack("<HHH", rec[28:34])
    extra = struct.pack("<HHQQ", 1, 16, fs, cs)
    rec[20:24] = rec[24:28] = b"\xff\xff\xff\xff"
    rec[30:32] = struct.pack("<H", elen + len(extra))
    rec = rec[:46 + nlen] + extra + rec[46 + nlen:]
    b = bytearray(data[:p]) + rec + bytearray(data[end:])
    e2 = eocd + len(extra)
    b[e2 + 12:e2 + 16] = struct.pack("<I", cd_size + len(extra))
    return bytes(b)


def forge_local(data: bytes, i: int, fs: int, cs: int, data_descriptor: bool = False) -> bytes:
    """Rewrite the sizes in the LOCAL header of member i (the central directory stays as it is); with data_descriptor the
    local header gets flag bit 3 and zero crc/sizes, as streaming writers produce."""
    b = bytearray(data)
    recs, _ = central_records(data)
    p = recs[i][0]
    lo = struct.unpack("<I", data[p + 42:p + 46])[0]
    assert data[lo:lo + 4] == b"PK\x03\x04"
    if data_descriptor:
        flags = struct.unpack("<H", data[lo + 6:lo + 8])[0] | 0x08
        b[lo + 6:lo + 8] = struct.pack("<H", flags)
        b[p + 8:p + 10] = struct.pack("<H", struct.unpack("<H", data[p + 8:p + 10])[0] | 0x08)
        b[lo + 14:lo + 26] = b"\0" * 12
    else:
        b[lo + 18:lo + 22] = struct.pack("<I", cs)
        b[lo + 22:lo + 26] = struct.pack("<I", fs)
    return bytes(b)


class _Unseekable:
    """write-only sink: zipfile then emits data descriptors (flag bit 3) instead of patching local headers"""
    def __init__(self):
        self.buf = bytearray()

    def write(self, d):
        self.buf += d
        return len(d)

    def flush(self):
        pass


def make_streamed_zip(members) -> bytes:
    sink = _Unseekable()
    with zipfile.ZipFile(sink, "w", zipfile.ZIP_DEFLATED) as zf:
        for n, d in members:
            zf.writestr(n, d)
    return bytes(sink.buf)


def manifest_encrypted(data: bytes) -> bool:
    """oracle for is_odf_encrypted's last step (ElementTree): the manifest exists, parses, has an encryption-data element"""
    from xml.etree import ElementTree as ET
    try:
        with _ORIG["init_cls"](io.BytesIO(data)) as zf:
            m = zf.read("META-INF/manifest.xml")
        root = ET.fromstring(m)
    except Exception:  # noqa
        return False
    return any(isinstance(e.tag, str) and e.tag.rsplit("}", 1)[-1] == "encryption-data" for e in root.iter())


def zip_entries(data: bytes):
    """What zipfile (the oracle) makes of the container: (opens, entries | None, pos_open, pos_close)."""
    bio = io.BytesIO(data)
    try:
        zf = _ORIG["init_cls"](bio, "r")
    except Exception:  # noqa
        return False, None, 0, 0
    p1 = bio.tell()
    try:
        # directory = NAME ends with '/' (the model's name_is_dir; what zipfile inflates as a file otherwise)
        es = [(int(i.file_size), int(i.compress_size), i.filename.endswith("/")) for i in zf.infolist()]
    except Exception:  # noqa
        es = None
    zf.close()
    return True, es, p1, bio.tell()


def make_zip(members: list[tuple[str, bytes]], deflate=True) -> bytes:
    bio = io.BytesIO()
    with zipfile.ZipFile(bio, "w", zipfile.ZIP_DEFLATED if deflate else zipfile.ZIP_STORED) as zf:
        for n, d in members:
            zf.writestr(n, d)
    return bio.getvalue()


# ============================================================================ runtime monitor
_ORIG: dict = {"init_cls": zipfile.ZipFile}


class Monitor:
    """Wraps zipfile.ZipFile.__init__/open/close and zip_bomb.validate_zipfile (from outside the repo).
    Events are keyed by the *container*: the sha1 of the bytes under the ZipFile."""

    def __init__(self):
        self.events: list[tuple] = []
        self.objects: list[str] = []
        self.streams: list = []
        self.reads: list = []
        self.ids: dict[str, int] = {}
        self.depth = 0
        self.active = False

    def cid(self, zf) -> int:
        key = getattr(zf, "_verif_key", None)
        if key is None:
            key = "obj:%d" % id(zf)
        if key not in self.ids:
            self.ids[key] = len(self.ids)
        return self.ids[key]

    @staticmethod
    def key_of(file) -> str:
        try:
            if isinstance(file, io.BytesIO):
                return hashlib.sha1(file.getvalue()).hexdigest()
            if isinstance(file, (str, bytes)) or hasattr(file, "__fspath__"):
                return hashlib.sha1(Path(file).read_bytes()).hexdigest()
            if hasattr(file, "read") and hasattr(file, "seek") and hasattr(file, "tell"):
                p = file.tell()
                file.seek(0)
                d = file.read()
                file.seek(p)
                return hashlib.sha1(d).hexdigest()
        except Exception:  # noqa
            pass
        return "obj:%d" % id(file)

    @staticmethod
    def origin() -> str:
        """who constructed / read the archive: 'repo' (sharepoint2text code), 'openpyxl', or 'other' (harness, stdlib)"""
        import sys
        f = sys._getframe(2)
        while f is not None:
            fn = f.f_code.co_filename
            if "/openpyxl/" in fn:
                return "openpyxl"
            if "/sharepoint2text/" in fn and "/tests/" not in fn:
                return "repo"
            f = f.f_back
        return "other"

    def install(self):
        from sharepoint2text.parsing.extractors.util import zip_bomb
        mon = self
        ZF = zipfile.ZipFile
        o_init, o_open, o_close = ZF.__init__, ZF.open, ZF.close
        o_validate = zip_bomb.validate_zipfile
        o_getdec = zipfile._get_decompressor
        o_read1 = zipfile.ZipExtFile._read1
        self._saved = (o_init, o_open, o_close, o_validate, o_getdec, o_read1)

        class DProxy:          # counts what the decompressor really produces
            def __init__(s, d):
                s._d, s.out = d, 0

            def decompress(s, *a):
                r = s._d.decompress(*a)
                s.out += len(r)
                return r

            def flush(s, *a):
                r = s._d.flush(*a)
                s.out += len(r)
                return r

            def __getattr__(s, n):
                return getattr(s._d, n)

        def getdec(ct):
            d = o_getdec(ct)
            return DProxy(d) if (mon.active and d is not None) else d

        def read1(fp, n):
            r = o_read1(fp, n)
            if mon.active:
                fp._verif_ret = getattr(fp, "_verif_ret", 0) + len(r)
            return r

        def init(zf, file, *a, **k):
            key = mon.key_of(file) if mon.active else None
            o_init(zf, file, *a, **k)
            if mon.active:
                zf._verif_key = key
                zf._verif_closed = False
                zf._verif_oid = len(mon.objects)
                org = mon.origin()
                mon.objects.append(org)
                mon.events.append(("open", mon.cid(zf), zf._verif_oid, org))

        def open_(zf, *a, **k):
            live = mon.active and getattr(zf, "fp", None) is not None
            fp = o_open(zf, *a, **k)          # KeyError (no such member) / ValueError (closed archive): nothing is read
            if live:
                mon.events.append(("read", mon.cid(zf), getattr(zf, "_verif_oid", -1)))
            if live and isinstance(fp, zipfile.ZipExtFile):
                zi = getattr(fp, "_zinfo", None) or (a[0] if a and isinstance(a[0], zipfile.ZipInfo) else None)
                if zi is None:
                    try:
                        zi = zf.getinfo(a[0] if a else k.get("name"))
                    except Exception:  # noqa
                        zi = None
                mon.streams.append((fp, mon.cid(zf), getattr(zi, "filename", "?"), int(getattr(zi, "file_size", -1)), mon.origin()))
            return fp

        def close(zf):
            if mon.active and getattr(zf, "fp", None) is not None and hasattr(zf, "_verif_key"):
                mon.events.append(("close", mon.cid(zf), getattr(zf, "_verif_oid", -1)))
            return o_close(zf)

        def validate(zf, *a, **k):
            if not mon.active:
                return o_validate(zf, *a, **k)
            try:
                r = o_validate(zf, *a, **k)
            except BaseException:
                mon.events.append(("validate", mon.cid(zf), False, getattr(zf, "_verif_oid", -1)))
                raise
            mon.events.append(("validate", mon.cid(zf), True, getattr(zf, "_verif_oid", -1)))
            return r

        ZF.__init__, ZF.open, ZF.close = init, open_, close
        zip_bomb.validate_zipfile = validate
        zipfile._get_decompressor = getdec
        zipfile.ZipExtFile._read1 = read1
        return self

    def uninstall(self):
        from sharepoint2text.parsing.extractors.util import zip_bomb
        ZF = zipfile.ZipFile
        (ZF.__init__, ZF.open, ZF.close, zip_bomb.validate_zipfile, zipfile._get_decompressor,
         zipfile.ZipExtFile._read1) = self._saved

    def record(self):
        self.events = []
        self.ids = {}
        self.objects = []
        self.streams = []
        self.reads = []
        self.active = True
        return self

    def stop(self):
        self.active = False
        # per member read: (container, member, declared file_size, bytes returned to the caller, bytes the decompressor produced, origin)
        self.reads = [(c, nm, decl, getattr(fp, "_verif_ret", 0), getattr(getattr(fp, "_decompressor", None), "out", None), org)
                      for fp, c, nm, decl, org in self.streams]
        self.streams = []
        return list(self.events)


def objects_validated(ev) -> list:
    """archives constructed by repository code whose members are read without a validate_zipfile call on that very object"""
    validated, bad = set(), []
    repo = {e[2] for e in ev if e[0] == "open" and e[3] == "repo"}
    for e in ev:
        if e[0] == "validate" and e[2]:
            validated.add(e[3])
        elif e[0] == "read" and e[2] in repo and e[2] not in validated:
            bad.append(e)
    return bad


def trace_dominated(ev) -> bool:
    ok = set()
    for e in ev:
        if e[0] == "validate" and e[2]:
            ok.add(e[1])
        elif e[0] == "read" and e[1] not in ok:
            return False
    return True


def ev_coq(e) -> str:
    if e[0] == "open":
        return f"EvOpen {e[1]}"
    if e[0] == "validate":
        return f"EvValidate {e[1]} {'true' if e[2] else 'false'}"
    if e[0] == "read":
        return f"EvRead {e[1]}"
    return f"EvClose {e[1]}"


def trace_coq(ev) -> str:
    return "([" + "; ".join(ev_coq(e) for e in ev) + "])%N"


# ============================================================================ extractors
def container_extractors():
    from sharepoint2text.parsing.extractors.epub_extractor import read_epub
    from sharepoint2text.parsing.extractors.ms_modern.docx_extractor import read_docx
    from sharepoint2text.parsing.extractors.ms_modern.pptx_extractor import read_pptx
    from sharepoint2text.parsing.extractors.ms_modern.xlsx_extractor import read_xlsx
    from sharepoint2text.parsing.extractors.open_office.odf_extractor import read_odf
    from sharepoint2text.parsing.extractors.open_office.odg_extractor import read_odg
    from sharepoint2text.parsing.extractors.open_office.odp_extractor import read_odp
    from sharepoint2text.parsing.extractors.open_office.ods_extractor import read_ods
    from sharepoint2text.parsing.extractors.open_office.odt_extractor import read_odt
    R = common.REPO / "sharepoint2text" / "tests" / "resources"
    return [
        ("docx", read_docx, [R / "modern_ms/headings.docx", R / "modern_ms/sample.docm"]),
        ("xlsx", read_xlsx, [R / "modern_ms/mwe.xlsx", R / "modern_ms/image_in_excel.xlsx", R / "modern_ms/sample.xlsm"]),
        ("pptx", read_pptx, [R / "modern_ms/pptx_table.pptx", R / "modern_ms/sample.pptm"]),
        ("odt", read_odt, [R / "open_office/sample_document.odt", R / "open_office/image_extraction.odt"]),
        ("ods", read_ods, [R / "open_office/sample_spreadsheet.ods"]),
        ("odp", read_odp, [R / "open_office/sample_presentation.odp", R / "open_office/odp_with_table.odp"]),
        ("odg", read_odg, [R / "open_office/drawing.odg"]),
        ("odf", read_odf, [R / "open_office/formular.odf"]),
        ("epub", read_epub, [R / "epub/sample.epub"]),
    ]


def forged_variants(data: bytes, default, thorough: bool):
    """(variant name, bytes) — central directory forged to sit on each boundary of the default limits."""
    recs, _ = central_records(data)
    files = [i for i, (_, n) in enumerate(recs) if not n.endswith(b"/")]
    S, T = default.max_single_uncompressed_bytes, default.max_total_uncompressed_bytes
    ER, TR = int(default.max_entry_compression_ratio), int(default.max_total_compression_ratio)
    out = [("plain", data)]
    f0 = files[len(files) // 2]
    if S + 1 < 2 ** 32:
        cs = S // ER + 1
        out.append(("single+0", forge(data, {f0: (S, cs)})))
        out.append(("single+1", forge(data, {f0: (S + 1, cs + 1)})))
    out.append(("entry-ratio+0", forge(data, {f0: (ER * 7, 7)})))
    out.append(("entry-ratio+1", forge(data, {f0: (ER * 7 + 1, 7)})))
    out.append(("zero-compressed", forge(data, {f0: (1, 0)})))
    out.append(("empty-entry", forge(data, {f0: (0, 0)})))
    # total ratio: every file gets cs = 10, fs = TR*10, one of them +d  (entry ratio stays <= ER)
    if TR <= ER:
        for d in (0, 1):
            sizes = {i: (TR * 10, 10) for i in files}
            sizes[f0] = (TR * 10 + d, 10)
            out.append((f"total-ratio+{d}", forge(data, sizes)))
    # total size: spread T (+1) over the files, ratio 1
    if len(files) >= 2 and T // len(files) + 2 <= S and T // len(files) + 2 < 2 ** 32:
        for d in (0, 1):
            k = len(files)
            per = T // k
            sizes = {i: (per, per) for i in files}
            sizes[files[0]] = (T + d - per * (k - 1), T + d - per * (k - 1))
            out.append((f"total+{d}", forge(data, sizes)))
    elif len(files) >= 5 and S * len(files) > T and S < 2 ** 32:
        for d in (0, 1):
            sizes, rem = {}, T + d
            for i in files:
                f = min(rem, S)
                sizes[i] = (f, max(f, 0))
                rem -= f
            out.append((f"total+{d}", forge(data, sizes)))
    N = default.max_entries
    if N - len(recs) + 1 < 65000 - len(recs) and N >= len(recs):
        out.append(("count+0", forge(data, {}, extra_dirs=N - len(recs))))
        out.append(("count+1", forge(data, {}, extra_dirs=N - len(recs) + 1)))
    # forged attributes: a FILE member (zipfile inflates it) marked as a directory must still be checked
    for vn, k in (("attr-dosdir", 1 * 2), ("attr-unixdir", 4 + 1), ("attr-both", 4 + 2 + 1), ("attr-dosdir-sys3", 4 + 2)):
        out.append((vn + "-bomb", forge(data, {f0: (ER * 7 + 1, 7)}, attrs={f0: k})))
    out.append(("attr-all-files-dirbits-plain", forge(data, {}, attrs={i: 7 for i in files})))
    out.append(("attr-dosdir-single+1", forge(data, {f0: (S + 1, S // ER + 2)}, attrs={f0: 2})) if S + 1 < 2 ** 32 else ("plain2", data))
    out.append(("attr-dosdir-zero", forge(data, {f0: (1, 0)}, attrs={f0: 2})))
    # which sizes are judged: the central directory's (ZIP64 extra decoded), never the local header / data descriptor
    recs0, _ = central_records(data)
    real = {}
    for i in files:
        p0 = recs0[i][0]
        real[i] = (struct.unpack("<I", data[p0 + 24:p0 + 28])[0], struct.unpack("<I", data[p0 + 20:p0 + 24])[0],
                   struct.unpack("<H", data[p0 + 10:p0 + 12])[0])
    out.append(("zip64-same-sizes", forge_zip64(data, f0, real[f0][0], real[f0][1])))
    out.append(("zip64-single+1", forge_zip64(data, f0, S + 1, S // ER + 2)))
    out.append(("zip64-huge", forge_zip64(data, f0, 2 ** 40, 2 ** 33)))
    out.append(("local-claims-huge", forge_local(data, f0, 2 ** 32 - 2, 1)))
    out.append(("local-claims-zero", forge_local(data, f0, 0, 0)))
    out.append(("local-data-descriptor", forge_local(data, f0, 0, 0, data_descriptor=True)))
    # the central directory understates every deflated member (claims ratio 1): accepted by the claim-based guard
    out.append(("central-understates", forge(data, {i: (real[i][1], real[i][1]) for i in files if real[i][2] == 8 and real[i][1] > 0})))
    # a member name listed twice: zipfile reads the LAST record of a name, the guard must look at every record
    out.append(("dup-name-last-bomb", dup_record(data, f0, (ER * 7 + 1, 7))))
    out.append(("dup-name-last-zero", dup_record(data, f0, (1, 0))))
    out.append(("dup-name-first-bomb", forge(dup_record(data, f0, None), {f0: (ER * 7 + 1, 7)})))
    out.append(("dup-name-plain", dup_record(data, f0, None)))
    # a directory entry with absurd sizes must be ignored
    out.append(("dir-absurd", forge(forge(data, {}, extra_dirs=1), {len(recs): (2 ** 32 - 2, 0)})))
    return out


def run_extractor(fn, data, name: str):
    """data: bytes (a fresh io.BytesIO is made) or an io.BytesIO to be used as it is."""
    from sharepoint2text.parsing.exceptions import ExtractionZipBombError
    try:
        for _ in fn(data if isinstance(data, io.BytesIO) else io.BytesIO(data), name):
            pass
        return "ok"
    except ExtractionZipBombError:
        return "bomb"
    except Exception as e:  # noqa
        return "error:" + type(e).__name__


# ============================================================================ AST inventory
def call_name(node) -> str:
    f = node.func
    if isinstance(f, ast.Attribute):
        base = f.value.id if isinstance(f.value, ast.Name) else ""
        return f"{base}.{f.attr}" if base else f".{f.attr}"
    if isinstance(f, ast.Name):
        return f.id
    return ""


def inventory(ctx):
    pkg = common.REPO / "sharepoint2text"
    zip_ctor, lw_sites, imports_zipfile, ctx_classes, zip_assign = [], [], [], {}, []
    trees = {}
    for p in sorted(pkg.rglob("*.py")):
        rel = str(p.relative_to(pkg))
        if rel.startswith("tests/"):
            continue
        tree = ast.parse(p.read_text(encoding="utf-8"))
        trees[rel] = tree
        for node in ast.walk(tree):
            if isinstance(node, ast.Import) and any(a.name == "zipfile" for a in node.names):
                imports_zipfile.append(rel)
            if isinstance(node, ast.ImportFrom) and node.module == "zipfile":
                imports_zipfile.append(rel)
            if isinstance(node, ast.Call) and call_name(node) in ("zipfile.ZipFile", "ZipFile", "zipfile.PyZipFile"):
                zip_ctor.append(rel)
            if isinstance(node, ast.ClassDef):
                ctx_classes[(rel, node.name)] = node
            if isinstance(node, (ast.Assign, ast.AnnAssign, ast.AugAssign)):
                tg = node.targets if isinstance(node, ast.Assign) else [node.target]
                for t in tg:
                    if isinstance(t, ast.Attribute) and t.attr == "_zip":
                        zip_assign.append(rel)
    allowed_ctor = {"parsing/extractors/util/zip_bomb.py", "parsing/extractors/archive_extractor.py"}
    bad = sorted(set(zip_ctor) - allowed_ctor)
    ctx.obligation("inventory:zipfile.ZipFile( constructed only in zip_bomb.py and archive_extractor.py", not bad,
                   f"also constructed in: {bad}")
    allowed_imp = allowed_ctor | {"parsing/extractors/util/zip_utils.py", "parsing/extractors/util/encryption.py"}
    bad_imp = sorted(set(imports_zipfile) - allowed_imp)
    ctx.obligation("inventory:zipfile imported only by zip_bomb/zip_utils/encryption/archive_extractor", not bad_imp,
                   f"also imported in: {bad_imp}")
    bad_assign = sorted(set(zip_assign) - {"parsing/extractors/util/zip_context.py"})
    ctx.obligation("inventory:self._zip assigned only in ZipContext", not bad_assign, f"also assigned in: {bad_assign}")
    # ZipContext.__init__: _zip = open_zipfile(...)
    zc_tree = trees.get("parsing/extractors/util/zip_context.py")
    ok_init = False
    if zc_tree:
        for node in ast.walk(zc_tree):
            if isinstance(node, ast.Assign) and any(isinstance(t, ast.Attribute) and t.attr == "_zip" for t in node.targets):
                ok_init = isinstance(node.value, ast.Call) and call_name(node.value) == "open_zipfile" and not any(
                    k.arg == "limits" for k in node.value.keywords)
    ctx.obligation("inventory:ZipContext._zip = open_zipfile(...) with the default limits", ok_init, "")
    # subclasses of ZipContext with an __init__ must start with super().__init__(
    names = {"ZipContext"}
    changed = True
    while changed:
        changed = False
        for (rel, nm), node in ctx_classes.items():
            if nm not in names and any(isinstance(b, ast.Name) and b.id in names for b in node.bases):
                names.add(nm)
                changed = True
    bad_sub = []
    for (rel, nm), node in ctx_classes.items():
        if nm in names and nm != "ZipContext":
            for item in node.body:
                if isinstance(item, ast.FunctionDef) and item.name == "__init__":
                    first = item.body[0]
                    if isinstance(first, ast.Expr) and isinstance(first.value, ast.Constant):
                        first = item.body[1]
                    src = ast.unparse(first)
                    if not src.startswith("super().__init__("):
                        bad_sub.append(f"{rel}:{nm}")
    ctx.obligation("inventory:ZipContext subclasses call super().__init__ first", not bad_sub, f"{bad_sub}")
    ctx.extra["zipcontext_classes"] = sorted(names)
    # opener call sites per container-extractor module: every kind must be a validating one
    validating = set(names) | {"open_zipfile", "validate_zip_bytesio", "is_odf_encrypted", "is_ooxml_encrypted"}
    raw_kinds = {"zipfile.ZipFile", "ZipFile", "zipfile.PyZipFile", "load_workbook", "zipfile.is_zipfile", "is_zipfile"}
    per_module, unvalidated_sites = {}, []
    for rel, tree in trees.items():
        if not (rel.startswith("parsing/extractors/ms_modern/") or rel.startswith("parsing/extractors/open_office/")
                or rel == "parsing/extractors/epub_extractor.py"):
            continue
        counts = {}
        for node in ast.walk(tree):
            if isinstance(node, ast.Call):
                cn = call_name(node)
                short = cn.split(".")[-1]
                if cn in raw_kinds or short in validating or short == "load_workbook":
                    counts[short] = counts.get(short, 0) + 1
                    if (cn in raw_kinds or short == "load_workbook") and short != "load_workbook":
                        unvalidated_sites.append(f"{rel}:{node.lineno} {cn}(")
        if counts:
            per_module[rel] = counts
    ctx.extra["opener_call_sites(static)"] = per_module
    # ---- member reads: the modelled shape of read_zip_member, and no other way to a member's bytes
    zu = trees.get("parsing/extractors/util/zip_utils.py")
    rz = next((n for n in ast.walk(zu) if isinstance(n, ast.FunctionDef) and n.name == "read_zip_member"), None) if zu else None
    shape_ok, shape_why = False, "read_zip_member not found"
    if rz is not None:
        body = [s_ for s_ in rz.body if not (isinstance(s_, ast.Expr) and isinstance(s_.value, ast.Constant))]
        try:
            a, w = body
            info = a.targets[0].id
            ok1 = isinstance(a.value, ast.Call) and a.value.func.attr == "getinfo"
            item = w.items[0]
            ok2 = isinstance(item.context_expr, ast.Call) and item.context_expr.func.attr == "open" and \
                [ast.unparse(x) for x in item.context_expr.args] == [info] and not item.context_expr.keywords
            member = item.optional_vars.id
            ret = w.body[0]
            ok3 = len(w.body) == 1 and isinstance(ret, ast.Return) and isinstance(ret.value, ast.Call) and \
                ast.unparse(ret.value.func) == f"{member}.read" and [ast.unparse(x) for x in ret.value.args] == [f"{info}.file_size"] \
                and not ret.value.keywords
            shape_ok, shape_why = bool(ok1 and ok2 and ok3), f"getinfo={ok1} open(info)={ok2} member.read(info.file_size)={ok3}"
        except Exception as e:  # noqa
            shape_why = f"body has another shape: {type(e).__name__}"
    ctx.obligation("X:read_zip_member is `info = zf.getinfo(path); with zf.open(info) as member: return member.read(info.file_size)`",
                   shape_ok, shape_why)
    zip_receivers = ("zf", "self._zip", "_zip", "self.zf", "archive", "z", "zip_file", "zipf")
    raw_sites, stream_calls = [], []
    for rel, tree in trees.items():
        if rel.endswith("archive_extractor.py") or rel.endswith("sevenzip.py"):
            continue
        for fn_ in [n for n in ast.walk(tree) if isinstance(n, ast.FunctionDef)]:
            for n in ast.walk(fn_):
                if isinstance(n, ast.Call) and isinstance(n.func, ast.Attribute):
                    recv = ast.unparse(n.func.value)
                    if n.func.attr in ("read", "open", "extract", "extractall") and recv in zip_receivers:
                        if not ((rel.endswith("zip_utils.py") and fn_.name == "read_zip_member")
                                or (rel.endswith("zip_context.py") and fn_.name == "open_stream")):
                            raw_sites.append(f"{rel}:{n.lineno} {recv}.{n.func.attr}(")
                    if n.func.attr in ("open_stream", "open_file") and not (fn_.name == "open_file" and n.func.attr == "open_stream"):
                        stream_calls.append(f"{rel}:{n.lineno} .{n.func.attr}(")
    ctx.obligation("inventory:a ZIP member's bytes are obtained only through read_zip_member (no zf.read/zf.open/extract elsewhere; the raw-stream "
                   "accessors ZipContext.open_stream / open_file have no call site)", not raw_sites and not stream_calls,
                   f"raw reads: {raw_sites}; raw stream calls: {stream_calls}")
    modules_with_opens = [m for m in per_module if m.endswith("_extractor.py")]
    ctx.obligation("inventory:opener call sites per container extractor counted; each is a validating opener (ZipContext class / "
                   "open_zipfile / validate_zip_bytesio / is_odf_encrypted) or a guarded load_workbook",
                   not unvalidated_sites and len(modules_with_opens) >= 9, f"raw opens: {unvalidated_sites}; modules: {sorted(per_module)}")
    # load_workbook( only in xlsx_extractor.py; inside a function it follows validate_zip_bytesio on the same bytes
    problems, dead = [], []
    for rel, tree in trees.items():
        for fn in [n for n in ast.walk(tree) if isinstance(n, (ast.FunctionDef, ast.AsyncFunctionDef))]:
            calls = [n for n in ast.walk(fn) if isinstance(n, ast.Call)]
            lws = [c for c in calls if call_name(c).endswith("load_workbook")]
            if not lws:
                continue
            if rel != "parsing/extractors/ms_modern/xlsx_extractor.py":
                problems.append(f"{rel}:{fn.name} calls load_workbook")
                continue
            vals = [c for c in calls if call_name(c).endswith("validate_zip_bytesio")]
            first_lw = min((c.lineno, c.col_offset) for c in lws)
            guarded = any((v.lineno, v.col_offset) < first_lw and ast.unparse(v.args[0]) == ast.unparse(lws[0].args[0])
                          and not any(k.arg == "limits" for k in v.keywords) for v in vals if v.args)
            if guarded:
                continue
            refs = sum(1 for n in ast.walk(tree) if isinstance(n, ast.Name) and n.id == fn.name)
            refs += sum(1 for n in ast.walk(tree) if isinstance(n, ast.Attribute) and n.attr == fn.name)
            ext_refs = 0
            for rel2, t2 in trees.items():
                if rel2 != rel:
                    for n in ast.walk(t2):
                        if isinstance(n, ast.ImportFrom) and n.module and n.module.endswith("xlsx_extractor") and any(
                                a.name == fn.name for a in n.names):
                            ext_refs += 1
            # unguarded helper: tolerated only while nothing refers to it (checked by the next obligation)
            dead.append(f"{rel}:{fn.name}")
    ctx.obligation("inventory:load_workbook( only after validate_zip_bytesio on the same io.BytesIO(raw) expression",
                   not problems, "; ".join(problems))
    ctx.extra["unreferenced_unvalidated_load_workbook_helpers"] = dead
    # the unvalidated helpers must stay without any call site / reference anywhere in the package
    wired = []
    for d in dead:
        rel, fname = d.split(":")
        modname = Path(rel).stem
        for rel2, t2 in trees.items():
            for n in ast.walk(t2):
                if rel2 == rel:
                    hit = (isinstance(n, ast.Name) and n.id == fname) or (isinstance(n, ast.Attribute) and n.attr == fname) \
                        or (isinstance(n, ast.Constant) and n.value == fname)
                else:
                    hit = (isinstance(n, ast.ImportFrom) and n.module and n.module.endswith(modname)
                           and any(a.name in (fname, "*") for a in n.names)) \
                        or (isinstance(n, ast.Attribute) and n.attr == fname and modname in ast.unparse(n.value))
                if hit:
                    wired.append(f"{rel2}:{getattr(n, 'lineno', '?')} refers to {modname}.{fname}")
    ctx.obligation("inventory:unvalidated load_workbook helpers (xlsx_extractor._read_metadata/_read_content) have no call site",
                   not wired, "; ".join(wired) + f" (helpers: {dead})")


# ============================================================================ what counts as a directory
def directory_test(ctx, zb):
    """The model decides "directory" from the NAME alone (Model.name_is_dir = endswith '/').  Tie:
    (G) zipfile.ZipInfo.is_dir() of this Python is that test on every attribute combination (what is not a
        directory is inflated as a file);
    (D) zip_bomb._is_directory agrees on trailing slash x DOS bit 0x10 x unix S_IFDIR x create_system 0/3;
    (X) the body of _is_directory reads nothing of the entry but is_dir / filename."""
    bad_std, bad_impl = [], []
    isdir = getattr(zb, "_is_directory", None)
    for slash in (False, True):
        for nm in ("a", "a/b.txt", "dir", "x.d", "\u00e9"):
            for k in range(8):
                zi = zipfile.ZipInfo(nm + ("/" if slash else ""))
                zi.create_system, zi.external_attr = ATTR_COMBOS[k]
                zi.file_size, zi.compress_size = 7, 3
                want = zi.filename.endswith("/")
                ctx.case(("is_dir", zi.filename, k), True, kind="directory-test")
                if bool(zi.is_dir()) != want:
                    bad_std.append((zi.filename, combo_name(k)))
                if isdir is not None:
                    try:
                        got = bool(isdir(zi))
                    except Exception as e:  # noqa
                        got = type(e).__name__
                    if got != want:
                        bad_impl.append((zi.filename, combo_name(k), got))
                        ctx.finding(f"directory-test:{'slash' if slash else 'noslash'}:{combo_name(k)}",
                                    f"zip_bomb._is_directory({zi.filename!r}, create_system={zi.create_system}, external_attr="
                                    f"{zi.external_attr:#x}) = {got}, but zipfile treats it as a "
                                    f"{'directory' if want else 'FILE (it is inflated on read)'}: the guard "
                                    f"{'checks a directory' if want else 'skips a file member'}",
                                    {"filename": zi.filename, "create_system": zi.create_system,
                                     "external_attr": zi.external_attr, "got": got, "want": want})
    ctx.obligation("G:zipfile.ZipInfo.is_dir() == filename.endswith('/') on every attribute combination (model name_is_dir)",
                   not bad_std, f"{bad_std[:5]}")
    ctx.obligation("D:zip_bomb._is_directory == filename.endswith('/') on trailing slash x DOS bit x S_IFDIR x create_system",
                   not bad_impl, f"{bad_impl[:5]}")
    # X: attributes of the entry read by _is_directory
    src = (common.REPO / "sharepoint2text/parsing/extractors/util/zip_bomb.py").read_text(encoding="utf-8")
    tree = ast.parse(src)
    fn = next((n for n in ast.walk(tree) if isinstance(n, ast.FunctionDef) and n.name == "_is_directory"), None)
    if fn is None:
        ctx.obligation("X:_is_directory reads only is_dir/filename of the entry", False, "function _is_directory not found")
    else:
        used = {n.attr for n in ast.walk(fn) if isinstance(n, ast.Attribute)}
        used |= {n.args[1].value for n in ast.walk(fn) if isinstance(n, ast.Call) and call_name(n) == "getattr"
                 and len(n.args) >= 2 and isinstance(n.args[1], ast.Constant)}
        extra = sorted(used - {"is_dir", "filename", "endswith", "ZipInfo"})
        ctx.obligation("X:_is_directory reads only is_dir/filename of the entry", not extra, f"also reads: {extra}")
    # the loop of validate_zipfile skips an entry only through _is_directory
    vf = next((n for n in ast.walk(tree) if isinstance(n, ast.FunctionDef) and n.name == "validate_zipfile"), None)
    conts = []
    if vf is not None:
        for loop in [n for n in ast.walk(vf) if isinstance(n, ast.For)]:
            for n in ast.walk(loop):
                if isinstance(n, ast.If) and any(isinstance(x, ast.Continue) for b in n.body for x in ast.walk(b)):
                    conts.append(ast.unparse(n.test))
    if vf is not None:
        listed = {tg.id for n in ast.walk(vf) if isinstance(n, ast.Assign) and isinstance(n.value, ast.Call)
                  and isinstance(n.value.func, ast.Attribute) and n.value.func.attr == "infolist"
                  for tg in n.targets if isinstance(tg, ast.Name)}
        rebound = {tg.id for n in ast.walk(vf) if isinstance(n, ast.Assign) and not (isinstance(n.value, ast.Call) and isinstance(
            n.value.func, ast.Attribute) and n.value.func.attr == "infolist") for tg in n.targets if isinstance(tg, ast.Name)}
        iters = [ast.unparse(n.iter) for n in ast.walk(vf) if isinstance(n, (ast.For, ast.comprehension))]
        ok_iter = bool(iters) and all(i in listed and i not in rebound for i in iters)
        ctx.obligation("X:every loop of validate_zipfile iterates the infolist() result itself (a list: no generator / filtered view that "
                       "another statement could consume)", ok_iter, f"loop iterables: {iters}; bound to infolist(): {sorted(listed)}")
    ok_skip = vf is not None and all(c.replace(" ", "") == "_is_directory(info)" for c in conts) and len(conts) <= 1
    ctx.obligation("X:validate_zipfile skips entries only by `if _is_directory(info): continue`", ok_skip, f"skip conditions: {conts}")


def attr_probe_cases(zb):
    """Family E: one probe entry per (per-entry clause, trailing slash, attribute combination) next to an innocent file.
    -> (limit name, L, names, entries, attrs, clause, slash, k)"""
    Z = zb.ZipBombLimits
    sets = [("default", zb.DEFAULT_ZIP_BOMB_LIMITS), ("low", Z(3, 1000, 400, 10.0, 20.0)), ("frac500", Z(50_000, 2 ** 32, 2 ** 30, 200.5, 500.5))]
    out = []
    for name, L in sets:
        S = L.max_single_uncompressed_bytes
        ER = Fraction(L.max_entry_compression_ratio)
        probes = {"single": (S + 1, S + 1), "zero": (1, 0), "entry-ratio": (int(math.floor(ER * 3)) + 1, 3)}
        for clause, (fs, cs) in probes.items():
            for slash in (False, True):
                for k in range(8):
                    out.append((name, L, [(2, 2, False), (fs, cs, slash)], [0, k], clause, slash, k))
    return out


# ============================================================================ sessions: many calls, one process, one buffer
def guard_call(zb, ZipContext, buf, op, L):
    from sharepoint2text.parsing.exceptions import ExtractionZipBombError
    from sharepoint2text.parsing.extractors.util import encryption
    try:
        if op == "validate_zip_bytesio":
            zb.validate_zip_bytesio(buf, limits=L, source="verif")
        elif op == "open_zipfile":
            zb.open_zipfile(buf, limits=L, source="verif").close()
        elif op == "ZipContext":
            ZipContext(buf).close()
        else:
            return "enc:" + str(encryption.is_odf_encrypted(buf))
        return 0
    except ExtractionZipBombError:
        return 1
    except OverflowError:
        return 2
    except zipfile.BadZipFile:
        return 3
    except Exception as e:  # noqa
        return type(e).__name__


def refill(buf: io.BytesIO, content: bytes, pos: int):
    """the usual reusable download buffer: same object, new content"""
    buf.seek(0)
    buf.truncate(0)
    buf.write(content)
    buf.seek(pos)


def odf_samples():
    MAN = '<manifest:manifest xmlns:manifest="urn:oasis:names:tc:opendocument:xmlns:manifest:1.0">%s</manifest:manifest>'
    odf_enc = make_zip([("mimetype", b"application/vnd.oasis.opendocument.text"), ("META-INF/manifest.xml", (MAN % (
        '<manifest:file-entry manifest:full-path="content.xml"><manifest:encryption-data/></manifest:file-entry>')).encode())])
    odf_plain = make_zip([("mimetype", b"application/vnd.oasis.opendocument.text"),
                          ("META-INF/manifest.xml", (MAN % '<manifest:file-entry manifest:full-path="content.xml"/>').encode())])
    return odf_enc, odf_plain


def session_contents():
    base = make_zip([("a.txt", b"A" * 300), ("b/", b""), ("c.bin", bytes(range(256)) * 2)])
    base2 = make_zip([("x", b"hello"), ("y", b"")], deflate=False)
    contents = {"base": base, "base2": base2, "bomb-default": forge(base, {0: (500 * 9 + 1, 9)}),
                "zero": forge(base, {2: (1, 0)}), "bomb-low-only": forge(base2, {0: (401, 401)}), "notzip": b"no zip here"}
    odf_enc, odf_plain = odf_samples()
    contents.update({"odf-encrypted": odf_enc, "odf-plain": odf_plain,
                     "odf-encrypted-bomb": forge(odf_enc, {1: (500 * 9 + 1, 9)}), "truncated": base[: len(base) - 9]})
    return contents


def environment_sweeps(ctx, zb, ZipContext, pool):
    """The guard's decision is a function of the container and the limits -- not of the logging level, the thread, the time
    zone or the cwd (common.env_sweep): a sample of the lattice through validate_zipfile, every guard entry point on real ZIPs,
    and every extractor on accepted and rejected variants."""
    rng = ctx.rng
    Z = zb.ZipBombLimits
    lims = {"default": zb.DEFAULT_ZIP_BOMB_LIMITS, "low": Z(3, 1000, 400, 10.0, 20.0)}
    # (1) validate_zipfile on lattice cases: as many rejected as accepted ones, every clause represented
    rej = [c for c in pool if c[4] == 1]
    acc = [c for c in pool if c[4] == 0]
    rng.shuffle(rej)
    rng.shuffle(acc)
    by_clause = {}
    for c in rej:
        by_clause.setdefault(c[5], []).append(c)
    # round-robin over the clause combinations, those the entry-count clause does not already decide first
    groups = sorted(by_clause, key=lambda cl: ("count" in cl.split("+"), len(cl.split("+")), cl))
    picked = []
    for rnd in range(8):
        for cl in groups:
            if rnd < len(by_clause[cl]) and len(picked) < 200:
                picked.append(by_clause[cl][rnd])
    sample = picked + acc[:100]
    ctx.extra["env_validate_sample_clauses"] = {cl: sum(1 for c in picked if c[5] == cl) for cl in groups}

    def f_validate(case):
        nm, fields, flat, nmode, _, _ = case
        return impl_validate(zb, Z(*fields), [tuple(e) for e in flat], names_mode=nmode)
    common.env_sweep(ctx, "validate_zipfile", f_validate, sample, describe=lambda c: f"limits {c[0]} entries {c[2][:6]} (clauses {c[5]})")
    ctx.count("env:validate-cases-rejected", sum(1 for c in sample if c[4] == 1))
    # (2) the guard entry points on real containers
    contents = session_contents()
    steps = [(c, op, ln) for c in contents for op, lns in (("validate_zip_bytesio", ("default", "low")), ("open_zipfile", ("default", "low")),
                                                           ("ZipContext", ("default",)), ("is_odf_encrypted", ("default",))) for ln in lns]

    def f_guard(case):
        c, op, ln = case
        return guard_call(zb, ZipContext, io.BytesIO(contents[c]), op, lims[ln])
    common.env_sweep(ctx, "guard-entry-points", f_guard, steps)
    # (3) the extractors on an accepted fixture and on rejected variants
    table, ecases = {}, []
    for fmt, fn, fixtures in container_extractors():
        fx = fixtures[0]
        variants = dict(forged_variants(fx.read_bytes(), lims["default"], False))
        for v in ("plain", "entry-ratio+0", "entry-ratio+1", "zero-compressed", "single+1", "total-ratio+1", "total+1", "count+1",
                  "attr-dosdir-bomb", "dup-name-last-bomb", "zip64-single+1"):
            if v in variants:
                table[(fmt, fx.name, v)] = (fn, variants[v])
                ecases.append((fmt, fx.name, v))

    def f_extract(case):
        fn, data = table[case]
        return run_extractor(fn, data, case[1])
    common.env_sweep(ctx, "container-extractors", f_extract, ecases)


def guard_sessions(ctx, zb, ZipContext, pre):
    rng = ctx.rng
    default = zb.DEFAULT_ZIP_BOMB_LIMITS
    low = zb.ZipBombLimits(3, 1000, 400, 10.0, 20.0)
    lims = {"default": default, "low": low}
    contents = session_contents()
    oracles = {k: zip_entries(v) for k, v in contents.items()}
    is_zip = {k: bool(zipfile.is_zipfile(io.BytesIO(v))) for k, v in contents.items()}
    enc = {k: manifest_encrypted(v) for k, v in contents.items()}
    steps = [(c, op, ln) for c in contents for op, lns in (("validate_zip_bytesio", ("default", "low")), ("open_zipfile", ("default", "low")),
                                                           ("ZipContext", ("default",)), ("is_odf_encrypted", ("default",)))
             for ln in lns]
    fresh = {}
    for c, op, ln in steps:
        fresh[(c, op, ln)] = guard_call(zb, ZipContext, io.BytesIO(contents[c]), op, lims[ln])
    sessions = [[a, b] for a in steps for b in steps]
    n_pairs_all = len(sessions)
    if ctx.tier != "thorough":   # 60 steps -> 3600 ordered pairs; quick keeps every pair whose second step opens the archive
        keep, rest = [], []      # through open_zipfile, or that reuses the content, and a sample of the others
        for s_ in sessions:
            (keep if s_[1][1] in ("open_zipfile", "ZipContext", "is_odf_encrypted") or s_[0][0] == s_[1][0] else rest).append(s_)
        rng.shuffle(rest)
        sessions = keep + rest[:150]
    n_pairs = len(sessions)
    for _ in range(ctx.n(150, 1500)):
        sessions.append([rng.choice(steps) for _ in range(rng.randint(3, 5))])
    scases, sinfo = [], []
    for si, sess in enumerate(sessions):
        mode = "reused" if si % 4 else "fresh-objects"     # 3 of 4 sessions reuse ONE io.BytesIO object
        buf = io.BytesIO()
        got = []
        for j, (c, op, ln) in enumerate(sess):
            if mode == "reused":
                refill(buf, contents[c], rng.randint(0, len(contents[c])))
            else:
                buf = io.BytesIO(contents[c])           # the previous object is dropped: ids may be recycled
            r = guard_call(zb, ZipContext, buf, op, lims[ln])
            got.append(r)
            want = fresh[(c, op, ln)]
            if r != want:
                pc, pop, pln = sess[j - 1] if j else ("-", "-", "-")
                ctx.finding(f"history-dependent:{op}[{ln}]:after:{pop}[{pln}]:{'same' if pc == c else 'new'}-content:{mode}",
                            f"{op}(limits={ln}) on content {c!r} gives {r} after the calls {sess[:j]} on "
                            f"{'the same io.BytesIO object' if mode == 'reused' else 'fresh buffers'}, but {want} on its own: "
                            f"the guard's decision depends on earlier calls, not on the bytes and limits of this call",
                            {"session": sess[:j + 1], "mode": mode, "contents": {k: contents[k] for k, _, _ in sess[:j + 1]},
                             "got": r, "alone": want})
        ctx.case(("session", mode, tuple(sess)), True, kind=f"session:{mode}:{len(sess)}")
        calls, codes = [], []
        for (c, op, ln), r in zip(sess, got):
            opens, es, p1, p2 = oracles[c]
            infos = "None" if es is None else "(Some " + entries_coq(es) + ")"
            o = f"(mkO {'true' if opens else 'false'} {infos} {p1} {p2})"
            ctor = {"validate_zip_bytesio": f"CValidateBytesio {limits_coq(lims[ln])} 0 {o}",
                    "open_zipfile": f"COpenZipfile {limits_coq(lims[ln])} {o}", "ZipContext": f"CZipContext {limits_coq(default)} {o}",
                    "is_odf_encrypted": f"CIsOdfEncrypted {limits_coq(default)} {'true' if is_zip[c] else 'false'} {o} "
                                        f"{'true' if enc[c] else 'false'}"}[op]
            calls.append(ctor)
            codes.append(str(r if r in (0, 1, 2, 3) else {"enc:False": 10, "enc:True": 11}.get(r, 9)))
        scases.append("([" + "; ".join(calls) + "], [" + "; ".join(codes) + "])")
        sinfo.append((mode, sess, got))
    pres = pre + "From S2T Require Import C11.ModelSession.\n"
    oks, fsn, logs = coq_eval_shards(ctx, "session", pres, "corr_session", scases, shard=300, ty="list call * list Z")
    ctx.obligation("correspondence:model run_session (stateless map of the single-call semantics) == call sequences on one reused "
                   "io.BytesIO / on fresh buffers, limits varied between calls", oks and not fsn,
                   (f"{len(fsn)} disagreements, first: {sinfo[fsn[0]] if fsn else ''} " + logs)[:1200])
    ctx.traces += len(scases)
    ctx.disagreements += len(fsn)
    ctx.extra["sessions"] = {"pairs_possible": len(steps) ** 2, "sessions_run": len(sessions), "steps": len(steps), "pairs_run": n_pairs, "random_longer": len(sessions) - n_pairs,
                             "sampled": "ordered pairs of (10 contents x 6 op/limit combinations): all in the thorough tier; quick keeps all pairs whose second "
                                        "call opens the archive or reuses the content + 150 others; + random sessions of length 3-5; "
                                        "3 of 4 sessions on one reused BytesIO object"}


def extractor_sessions(ctx, mon, default, traces):
    """Each extractor three times on ONE io.BytesIO: accepted fixture, then a rejected variant written into the same object,
    then the fixture again; and the rejected one first.  Every step must do what it does on a fresh buffer."""
    for fmt, fn, fixtures in container_extractors():
        fx = fixtures[0]
        plain = fx.read_bytes()
        variants = dict(forged_variants(plain, default, False))
        for bad in ("entry-ratio+1", "zero-compressed"):
            if bad not in variants:
                continue
            for order in (("plain", bad, "plain"), (bad, "plain", bad)):
                alone = {k: run_extractor(fn, plain if k == "plain" else variants[k], fx.name) for k in set(order)}
                buf = io.BytesIO()
                mon.record()
                for j, k in enumerate(order):
                    refill(buf, plain if k == "plain" else variants[k], 0)
                    out = run_extractor(fn, buf, fx.name)
                    if out != alone[k]:
                        ctx.finding(f"history-dependent:{fmt}:{k}:after:{order[j - 1] if j else '-'}",
                                    f"{fn.__name__} on variant {k!r} of {fx.name} written into a reused io.BytesIO gives {out} after "
                                    f"{list(order[:j])}, but {alone[k]} on a fresh buffer",
                                    {"fixture": str(fx), "order": order[:j + 1], "got": out, "alone": alone[k]})
                ev = mon.stop()
                traces.append(ev)
                ctx.case(("extractor-session", fmt, bad, order), True, kind=f"extractor-session:{fmt}")
                if not trace_dominated(ev):
                    ctx.finding(f"read-before-validate:{fmt}:reused-buffer", f"{fn.__name__} read a member of a container that was never "
                                f"validated in a session {order} on one reused io.BytesIO: {ev[:10]}",
                                {"fixture": str(fx), "order": order, "events": ev})


# ============================================================================ the check
def gen_limits(ctx, zb):
    L = zb.DEFAULT_ZIP_BOMB_LIMITS
    txt = ("(* GENERATED on every check run from the live module sharepoint2text...util.zip_bomb — do not edit. *)\n"
           "From Coq Require Import ZArith.\nFrom S2T Require Import C11.Model C11.Corr.\nOpen Scope Z_scope.\n\n"
           f"Definition default_limits : limits := {limits_coq(L)}.\n")
    ctx.gen_write("Gen/C11Limits.v", txt)
    # the defaults really are what every entry point uses
    bad = []
    for fn in (zb.validate_zipfile, zb.open_zipfile, zb.validate_zip_bytesio):
        d = inspect.signature(fn).parameters.get("limits")
        if d is None or d.default is not L:
            bad.append(fn.__name__)
    ctx.obligation("G:limits default of validate_zipfile/open_zipfile/validate_zip_bytesio is DEFAULT_ZIP_BOMB_LIMITS",
                   not bad, f"{bad}")
    ctx.extra["default_limits"] = {k: getattr(L, k) for k in L.__dataclass_fields__}


def run(ctx):
    import logging
    logging.disable(logging.CRITICAL)
    from sharepoint2text.parsing.extractors.util import zip_bomb as zb
    from sharepoint2text.parsing.extractors.util.zip_context import ZipContext
    from sharepoint2text.parsing.exceptions import ExtractionZipBombError

    ctx.rule = ("synthetic ZipInfo vectors on the boundary lattice (single size, entry ratio, zero-compressed, total, "
                "total ratio, entry count: each -1/0/+1 and absent, combined; directories interleaved) x 19 limit "
                "settings; real ZIPs with forged central directories through validate_zip_bytesio/open_zipfile/"
                "ZipContext and all 9 ZIP-container extractors; non-trivial = vector within +-1 of at least one threshold")
    ctx.trusted += [
        "G-dump: tools/props/c11.py prints DEFAULT_ZIP_BOMB_LIMITS of the imported module (floats via as_integer_ratio)",
        "model of CPython int/int (fdiv: round-half-even to 53 bits, clamp 2^-1074, overflow 2^1024): hand-written, "
        "validated on every run against CPython and against Coq's SpecFloat.SFdiv (vm_compute), not proved equal to either",
        "oracles: zipfile's parsing of the central directory (infolist, stream positions), recorded from the real library; "
        "'directory' is NOT an oracle: the model decides it from the entry name (ends with '/'), zipfile.ZipInfo.is_dir and "
        "zip_bomb._is_directory are checked against that on every attribute combination",
        "hand-written model of validate_zipfile/validate_zip_bytesio/ZipContext tied by differential runs",
        "runtime monitor (wrappers around zipfile.ZipFile.__init__/open/close and zip_bomb.validate_zipfile) and the ast inventory",
        "openpyxl reads the same bytes that were validated: X-fact (both arguments are the expression io.BytesIO(raw))",
        "the guard's input is zipfile's infolist(): central-directory sizes with ZIP64 extra fields decoded; local headers and data "
        "descriptors are never consulted (differential: forged local headers / data-descriptor flags / ZIP64 extras through all extractors)",
        "assumption checked at run time, not provable here (stdlib): ZipExtFile hands out at most the claimed file_size per member read; "
        "what zlib produces internally before that truncation is third-party behaviour -> known finding inflate-exceeds-declared-size",
        "not modelled: ElementTree parsing of the ODF manifest (oracle `enc` of is_odf_encrypted), zipfile.is_zipfile (oracle `is_zip`), "
        "openpyxl's own member reads (monitored only), state kept outside the process (none in the code: inventory of module-level state is not done)",
    ]
    ctx.assumptions += ["entry sizes are non-negative (zipfile unpacks them as unsigned)",
                        "limits within limits_exact (ratio limits m*2^e >= 1 with byte limit * 2^max(-e,0) < 2^53) for the two-sided "
                        "theorem (defaults are: Inst.v); one-sided soundness needs only binary64 ratio limits"]
    gen_limits(ctx, zb)
    import time as _time
    _t = [_time.time()]
    phases = ctx.extra.setdefault("phase_s", {})

    def lap(name):
        now = _time.time()
        phases[name] = round(now - _t[0], 1)
        _t[0] = now

    # ------------------------------------------------------------------ proofs
    ctx.prove("C11/Props.v", ["C11/Proofs.vo", "C11/ProofsNames.vo"], expected=[
        "C11_rejects_iff", "C11_accepts_iff", "C11_never_overflows", "C11_ratio_exact", "C11_float_gt_sound", "C11_reject_sound_all_limits", "C11_dirs_ignored",
        "C11_count_counts_dirs", "C11_position_preserved", "C11_validate_dominates_reads",
        "C11_read_implies_accepted", "C11_trace_ok_sound", "C11_attrs_irrelevant", "C11_file_member_never_ignored", "C11_names_irrelevant", "C11_session_history_independent", "C11_odf_encrypted_only_if_validated",
        "C11_odf_probe_validate_dominates_read", "C11_accept_bounds", "C11_accepted_output_bounded", "C11_read_zip_member_bounded",
        "C11_read_zip_member_work_bounded", "C11_repository_reads_bounded", "C11_zipfile_read_work_unbounded_refuted", "C11_rejects_iff_unrestricted_refuted",
        "C11_overflow_unrestricted_refuted"])
    ctx.prove("C11/Inst.v", ["Gen/C11Limits.vo", "C11/Corr.vo", "C11/Proofs.vo"], expected=[
        "C11_default_limits_exact", "C11_default_guard_exact"])

    lap("proofs")
    inventory(ctx)
    directory_test(ctx, zb)
    # attribute probes first (the report keeps only the first 12 findings): names decide, attributes do not
    probe_results = attr_probe_cases(zb)
    for name, L, es, attrs, clause, slash, k in probe_results:
        got = impl_validate(zb, L, es, attrs)
        ctx.case(("attr-probe", name, clause, slash, k), True, kind=f"attr-probe:{'dir' if slash else 'file'}")
        want = 0 if slash else 1          # a name-directory is ignored, a file member breaking a clause is rejected
        if got != want:
            zi = zipinfos(es, attrs)[1]
            if not slash:
                ctx.finding(f"file-member-ignored:{clause}:{combo_name(k)}",
                            f"validate_zipfile accepts a container whose FILE member {zi.filename!r} (create_system={zi.create_system}, "
                            f"external_attr={zi.external_attr:#x}, file_size={zi.file_size}, compress_size={zi.compress_size}) breaks "
                            f"the {clause} clause of limits {name}: zipfile inflates this member, the guard skipped it",
                            {"limits": repr(L), "entries": es, "names": [z.filename for z in zipinfos(es, attrs)],
                             "create_system": zi.create_system, "external_attr": zi.external_attr, "got": got})
            else:
                ctx.finding(f"dir-entry-checked:{clause}:{combo_name(k)}",
                            f"validate_zipfile outcome {got} for a directory-named entry {zi.filename!r} with attributes {combo_name(k)}",
                            {"limits": repr(L), "entries": es, "got": got})
    lap("inventory")

    # ------------------------------------------------------------------ (a) validate_zipfile on the lattice
    pre = "From Coq Require Import ZArith List.\nImport ListNotations.\nFrom S2T Require Import C11.Model C11.Corr.\nOpen Scope Z_scope.\n"
    cases, info, quotients = [], [], set()
    env_pool = []
    todo = []
    for name, L in limit_sets(zb):
        block = [(name, L, kind, es) for kind, es in lattice(ctx, name, L)]
        if name in ("huge", "wide"):   # 1100-bit literals are slow to parse: a sample of these two sets is enough
            ctx.rng.shuffle(block)
            block = block[: ctx.n(60, 400)]
        todo += block
    for nm, L, es in special_cases(zb):
        todo.append((nm, L, "special", es))
    seen = set()
    for name, L, kind, es in todo:
        flat = expand(es)
        h = (name, tuple(flat) if len(flat) < 3000 else (len(flat), flat[0], flat[-1]))
        if h in seen:
            continue
        seen.add(h)
        nmode = 0 if len(flat) > 3000 else len(seen) % len(NAME_MODES)
        got = impl_validate(zb, L, flat, names_mode=nmode)
        if len(flat) <= 10 and got in (0, 1) and name not in ("huge", "wide", "nan", "inf"):
            env_pool.append((name, tuple(getattr(L, f_) for f_ in L.__dataclass_fields__), flat, nmode, got,
                             "+".join(bomb_clauses(L, flat)) or "none"))
        nontriv = near_threshold(L, flat)
        ctx.case((name, h[1], nmode), nontriv, kind=f"validate:{name}:{kind}")
        ctx.count(f"names:{NAME_MODES[nmode]}")
        exact = limits_exact(L) and all(fs >= 0 and cs >= 0 for fs, cs, d in flat if not d)
        clauses = bomb_clauses(L, flat)
        if nmode and got in (0, 1) and exact and (got == 1) != bool(clauses) and impl_validate(zb, L, flat) == (1 if clauses else 0):
            # the same sizes under unique names are decided correctly: a record was judged by its NAME
            nms = [z.filename for z in zipinfos(flat, None, nmode)]
            ctx.finding(f"record-judged-by-name:{NAME_MODES[nmode]}:{'+'.join(clauses) or 'no-clause'}",
                        f"validate_zipfile {'rejects' if got else 'accepts'} entries {list(zip(nms, flat))[:8]} (limits {name}) but the "
                        f"exact predicate over ALL records says {clauses or 'no clause holds'}; with unique names the same sizes are "
                        f"decided correctly: records with a repeated member name are not all checked (zipfile reads the LAST record of a name)",
                        {"limits": repr(L), "names": nms[:200], "entries": flat[:200], "clauses": clauses, "got": got})
        # property oracle on the implementation
        if got not in (0, 1, 2):
            ctx.finding(f"validate-raises:{got}", f"validate_zipfile raised/returned {got} on limits {name} entries {flat[:6]}",
                        {"limits": repr(L), "entries": flat[:50], "got": got})
        elif got == 2:
            ctx.finding("overflowerror-limits-above-2^1024" if not exact else f"validate-overflow:{name}",
                        f"validate_zipfile lets OverflowError escape (limits {name}, entries {flat[:3]})",
                        {"limits": repr(L), "entries": flat[:50]})
        elif exact and (got == 1) != bool(clauses):
            ctx.finding(f"validate-decision:{'+'.join(clauses) or 'no-clause'}:got-{'reject' if got else 'accept'}",
                        f"validate_zipfile {'rejects' if got else 'accepts'} but the exact predicate says "
                        f"{clauses or 'no clause holds'} (limits {name}: {L}, entries {flat[:8]})",
                        {"limits": repr(L), "entries": flat[:200], "clauses": clauses, "got": got})
        elif (got == 1 and not clauses and rl_repr(L.max_total_compression_ratio) and rl_repr(L.max_entry_compression_ratio)
              and all(fs >= 0 and cs >= 0 for fs, cs, d in flat if not d)):
            ctx.finding(f"validate-rejects-nonbomb:{name}",
                        f"validate_zipfile rejects although no clause of the exact predicate holds (limits {name}: {L}, "
                        f"entries {flat[:8]})", {"limits": repr(L), "entries": flat[:200], "got": got})
        elif not exact and got == 0 and clauses and name in ("wide", "float-rounding-witness", "float-rounding-40") and all(fs >= 0 and cs >= 0 for fs, cs, d in flat):
            only_ratio = set(clauses) <= {"entry-ratio", "total-ratio"}
            ctx.finding("float-ratio-rounding-above-2^53" if only_ratio else f"validate-decision-wide:{'+'.join(clauses)}",
                        f"validate_zipfile accepts although {clauses} hold exactly (byte limits above 2^53, entries {flat[:3]})",
                        {"limits": repr(L), "entries": flat[:50], "clauses": clauses})
        for fs, cs, d in flat[:50]:
            if not d and fs > 0 and cs > 0:
                quotients.add((fs, cs))
        tu = sum(fs for fs, cs, d in flat if not d)
        tc = sum(cs for fs, cs, d in flat if not d)
        if tu > 0 and tc > 0:
            quotients.add((tu, tc))
        code = got if got in (0, 1, 2) else 9
        cases.append(f"({limits_coq(L)}, {entries_coq(es)}, {code})")
        info.append((name, repr(L), flat[:12], got))
    environment_sweeps(ctx, zb, ZipContext, env_pool)
    lap("validate-impl")
    ok, failing, log = coq_eval_shards(ctx, "validate", pre, "corr_validate", cases, shard=400, ty="limits * list entry * Z")
    ctx.traces += len(cases)
    ctx.disagreements += len(failing)
    ctx.obligation("correspondence:model validate == validate_zipfile (accept/reject/overflow) on the lattice",
                   ok and not failing, (f"{len(failing)} disagreements, first: {info[failing[0]] if failing else ''} " + log)[:1500])
    ok2, failing2, log2 = coq_eval_shards(ctx, "bomb", pre, "corr_bomb", cases, shard=400, ty="limits * list entry * Z")
    ctx.obligation("correspondence:declarative Bomb == validate_zipfile wherever the theorem's hypotheses hold",
                   ok2 and not failing2, (f"{len(failing2)} disagreements, first: {info[failing2[0]] if failing2 else ''} " + log2)[:1500])
    ctx.extra["validate_cases"] = len(cases)
    if failing or failing2:
        ctx.extra["validate_disagreements"] = [info[i] for i in (failing + failing2)[:10]]

    lap("validate-coq")
    # ------------------------------------------------------------------ (a') attribute probes: names decide, attributes do not
    rcases, rinfo = [], []
    for name, L, es, attrs, clause, slash, k in probe_results:
        got = impl_validate(zb, L, es, attrs)
        zis = zipinfos(es, attrs)
        rcases.append(f"({limits_coq(L)}, [" + "; ".join(
            f"mkR {common.coq_str(z.filename)} {zc(z.file_size)} {zc(z.compress_size)} {z.external_attr} {z.create_system}" for z in zis)
            + f"], {got if got in (0, 1, 2) else 9})")
        rinfo.append((name, clause, slash, combo_name(k), got))
    prer = pre + "From S2T Require Import Lib.PyStr C11.ModelNames.\nOpen Scope Z_scope.\n"
    okr, fr, logr = coq_eval_shards(ctx, "raw", prer, "corr_validate_raw", rcases, shard=200, ty="limits * list raw_entry * Z")
    ctx.obligation("correspondence:model validate_raw (directory = name ends with '/') == validate_zipfile on forged-attribute entries",
                   okr and not fr, (f"{len(fr)} disagreements, first: {rinfo[fr[0]] if fr else ''} " + logr)[:1000])
    ctx.traces += len(rcases)
    ctx.disagreements += len(fr)

    # ------------------------------------------------------------------ (b) int / int
    pairs = div_pairs(ctx, quotients)
    dcases = []
    for a, b in pairs:
        r = py_div(a, b)
        dcases.append(f"({zc(a)}, {zc(b)}, " + ("None" if r is None else f"Some ({zc(r[0])}, {zc(r[1])})") + ")")
        ctx.case(("div", a, b), True, kind="int/int")
        # property oracle for C11_ratio_exact, on CPython itself
        if a < TWO53:
            for K in (1, 2, 200, 500):
                if ((a / b) > float(K)) != (a > K * b):
                    ctx.finding(f"ratio-not-exact:{K}", f"({a}/{b}) > {K}.0 differs from the exact comparison",
                                {"a": a, "b": b, "K": K})
    okd, fd, logd = coq_eval_shards(ctx, "fdiv", pre, "corr_fdiv", dcases, shard=500, ty="Z * Z * option (Z * Z)")
    ctx.obligation("correspondence:model fdiv == CPython int/int", okd and not fd,
                   (f"{len(fd)} disagreements, first: {pairs[fd[0]] if fd else ''} " + logd)[:800])
    oks, fs_, logs = coq_eval_shards(ctx, "specfloat", pre, "corr_specfloat", dcases, shard=500, ty="Z * Z * option (Z * Z)")
    ctx.obligation("cross-check:model fdiv == Coq SpecFloat.SFdiv 53 1024 on exact integer mantissas", oks and not fs_,
                   (f"{len(fs_)} disagreements, first: {pairs[fs_[0]] if fs_ else ''} " + logs)[:800])
    ctx.traces += len(dcases)
    ctx.disagreements += len(fd) + len(fs_)

    lap("fdiv")
    # ------------------------------------------------------------------ (c) validate_zip_bytesio / open_zipfile on real ZIPs
    rng = ctx.rng
    low = zb.ZipBombLimits(3, 1000, 400, 10.0, 20.0)
    base = make_zip([("a.txt", b"A" * 300), ("b/", b""), ("c.bin", bytes(range(256)) * 2)])
    base2 = make_zip([("x", b"hello"), ("y", b"")], deflate=False)
    containers = [("base", base), ("base2", base2), ("notzip", b"this is not a zip"), ("empty", b""),
                  ("truncated", base[: len(base) - 9]), ("emptyzip", make_zip([]))]
    for d in (-1, 0, 1):
        containers.append((f"single{d:+d}", forge(base, {0: (400 + d, 40)})))
        containers.append((f"eratio{d:+d}", forge(base, {0: (20 * 9 + d, 9), 2: (5, 5)})))
        containers.append((f"total{d:+d}", forge(base, {0: (400, 400), 2: (400, 400), 1: (200 + d, 200)})))  # dir ignored
        containers.append((f"totalf{d:+d}", forge(forge(base, {}, extra_dirs=0), {0: (400, 400), 2: (400, 400)})))
        containers.append((f"tratio{d:+d}", forge(base, {0: (100, 10), 2: (100 + d, 10)})))
        containers.append((f"count{d:+d}", forge(base, {}, extra_dirs=max(0, d))))
    containers.append(("zero", forge(base, {2: (1, 0)})))
    containers.append(("dup-last-eratio+1", dup_record(base, 0, (20 * 9 + 1, 9))))
    containers.append(("dup-last-single+1", dup_record(base2, 0, (401, 401))))
    containers.append(("dup-plain", dup_record(base2, 0, None)))
    for k in (2, 5, 7):
        containers.append((f"attr{k}-file-eratio+1", forge(base, {0: (20 * 9 + 1, 9), 2: (5, 5)}, attrs={0: k})))
        containers.append((f"attr{k}-file-plain", forge(base, {}, attrs={0: k, 2: k})))
        containers.append((f"attr0-dir-plain{k}", forge(base, {1: (999, 1)}, attrs={1: 0})))
    bcases, binfo = [], []
    for cname, data in containers:
        opens, es, p1, p2 = zip_entries(data)
        for L, lname in ((low, "low"), (zb.DEFAULT_ZIP_BOMB_LIMITS, "default")):
            for pos in sorted({0, 1, len(data) // 2, len(data), len(data) + 7, rng.randint(0, len(data) + 3)}):
                bio = io.BytesIO(data)
                bio.seek(pos)
                try:
                    zb.validate_zip_bytesio(bio, limits=L, source="verif")
                    got = 0
                except ExtractionZipBombError:
                    got = 1
                except OverflowError:
                    got = 2
                except zipfile.BadZipFile:
                    got = 3
                except Exception as e:  # noqa
                    got = type(e).__name__
                after = bio.tell()
                ctx.case(("bytesio", cname, lname, pos), True, kind=f"bytesio:{'ok' if got == 0 else got}")
                if after != pos:
                    ctx.finding(f"position-not-preserved:{'return' if got == 0 else got}",
                                f"validate_zip_bytesio moved the stream from {pos} to {after} ({cname}, limits {lname})",
                                {"container": data, "pos": pos, "after": after, "outcome": got})
                if opens and es is not None and limits_exact(L):
                    want = 1 if bomb_clauses(L, es) else 0
                    if got != want:
                        ctx.finding(f"bytesio-decision:{cname}:{lname}", f"validate_zip_bytesio outcome {got}, exact predicate says "
                                    f"{want} for entries {es}", {"container": data, "entries": es, "got": got})
                if got not in (0, 1, 2, 3):
                    ctx.finding(f"bytesio-raises:{got}", f"validate_zip_bytesio raised {got} on {cname}", {"container": data})
                    got = 9
                infos = "None" if es is None else "(Some " + entries_coq(es) + ")"
                bcases.append(f"({limits_coq(L)}, {pos}, (mkO {'true' if opens else 'false'} {infos} {p1} {p2}), ({got}, {after}))")
                binfo.append((cname, lname, pos, got, after))
            # open_zipfile: returns an open, validated archive or raises with the archive closed
            bio = io.BytesIO(data)
            bio.seek(rng.randint(0, len(data)))
            try:
                zf = zb.open_zipfile(bio, limits=L, source="verif")
                ok_open = zf.fp is not None
                zf.close()
                r = 0
            except ExtractionZipBombError:
                r, ok_open = 1, True
            except zipfile.BadZipFile:
                r, ok_open = 3, True
            except Exception as e:  # noqa
                r, ok_open = type(e).__name__, True
            ctx.case(("open_zipfile", cname, lname), True, kind="open_zipfile")
            if opens and es is not None and limits_exact(L) and r != (1 if bomb_clauses(L, es) else 0):
                ctx.finding(f"open_zipfile-decision:{cname}:{lname}", f"open_zipfile outcome {r} for entries {es}",
                            {"container": data, "entries": es, "got": r})
            if not ok_open:
                ctx.finding("open_zipfile-returns-closed", "open_zipfile returned a closed archive", {"container": data})
    okb, fb, logb = coq_eval_shards(ctx, "bytesio", pre, "corr_bytesio", bcases, shard=400,
                                    ty="limits * Z * zip_oracle * (Z * Z)")
    ctx.obligation("correspondence:model validate_zip_bytesio == implementation (outcome, stream position)", okb and not fb,
                   (f"{len(fb)} disagreements, first: {binfo[fb[0]] if fb else ''} " + logb)[:800])
    ctx.traces += len(bcases)
    ctx.disagreements += len(fb)

    guard_sessions(ctx, zb, ZipContext, pre)
    lap("bytesio")
    # ------------------------------------------------------------------ monitor: ZipContext programs and the extractors
    mon = Monitor().install()
    try:
        default = zb.DEFAULT_ZIP_BOMB_LIMITS
        # (d) ZipContext under random client programs
        zcases, zinfo, traces = [], [], []
        S = default.max_single_uncompressed_bytes
        zconts = [("base", base), ("base2", base2), ("notzip", b"nope"), ("single+1", forge(base, {0: (S + 1, S // 400)})),
                  ("single+0", forge(base, {0: (S, S // 400)})), ("eratio+1", forge(base, {0: (500 * 9 + 1, 9)})),
                  ("eratio+0", forge(base, {0: (500 * 9, 9)})), ("zero", forge(base, {2: (1, 0)})),
                  ("attr-dosdir-eratio+1", forge(base, {0: (500 * 9 + 1, 9)}, attrs={0: 2})),
                  ("dup-last-eratio+1", dup_record(base, 0, (500 * 9 + 1, 9))), ("dup-plain", dup_record(base, 0, None)),
                  ("attr-all-dirbits-plain", forge(base, {}, attrs={0: 7, 2: 7})),
                  ("tratio+1", forge(base, {0: (2001, 10), 2: (2000, 10)})), ("tratio+0", forge(base, {0: (2000, 10), 2: (2000, 10)}))]
        opnames = ["read_bytes", "read_text", "read_xml_root", "open_stream", "exists", "namelist", "close"]
        for cname, data in zconts:
            opens, es, p1, p2 = zip_entries(data)
            try:
                names_of = set(_ORIG["init_cls"](io.BytesIO(data)).namelist())
            except Exception:  # noqa
                names_of = set()
            for _ in range(ctx.n(6, 40)):
                prog = [rng.choice(opnames) for _ in range(rng.randint(0, 7))] + ["close"]
                mon.record()
                keep = None
                try:
                    keep = ZipContext(io.BytesIO(data))
                except Exception:  # noqa
                    keep = None
                ops = []
                for op in prog:
                    member = rng.choice(["a.txt", "c.bin", "x", "missing.xml"])
                    if op in ("read_bytes", "read_text", "read_xml_root", "open_stream"):
                        ops.append("(OpRead true)" if member in names_of else "(OpRead false)")
                    elif op == "close":
                        ops.append("OpClose")
                    else:
                        ops.append("OpQuery")
                    if keep is None:
                        continue
                    try:
                        if op == "namelist":
                            keep.namelist
                        elif op == "close":
                            keep.close()
                        elif op == "exists":
                            keep.exists(member)
                        else:
                            r = getattr(keep, op)(member)
                            if op == "open_stream":
                                r.close()
                    except Exception:  # noqa
                        pass
                ev = mon.stop()
                traces.append(ev)
                ctx.case(("zipcontext", cname, tuple(prog)), True, kind="zipcontext-program")
                if not trace_dominated(ev):
                    ctx.finding(f"read-before-validate:ZipContext:{cname}", f"ZipContext read a member before a successful "
                                f"validation: {ev}", {"container": data, "program": prog, "events": ev})
                if any(e[0] == "read" for e in ev) and es is not None and bomb_clauses(default, es):
                    ctx.finding(f"bomb-read:ZipContext:{cname}", "ZipContext read a member of a container the predicate rejects",
                                {"container": data, "program": prog, "events": ev})
                infos = "None" if es is None else "(Some " + entries_coq(es) + ")"
                zcases.append(f"(default_limits, (mkO {'true' if opens else 'false'} {infos} {p1} {p2}), "
                              f"[{'; '.join(ops)}], {trace_coq(ev)})")
                zinfo.append((cname, prog, ev))
                del keep
        prez = pre + "From S2T Require Import Gen.C11Limits.\n"
        okz, fz, logz = coq_eval_shards(ctx, "zcontext", prez, "corr_zcontext", zcases, shard=300,
                                        ty="limits * zip_oracle * list zop * list event")
        ctx.obligation("correspondence:ZipContext state machine == monitored ZipContext under random client programs",
                       okz and not fz, (f"{len(fz)} disagreements, first: {zinfo[fz[0]] if fz else ''} " + logz)[:1200])
        ctx.traces += len(zcases)
        ctx.disagreements += len(fz)

        # (d') one is_odf_encrypted call: its events must be those of the model (read only after validation)
        from sharepoint2text.parsing.extractors.util import encryption
        odf_enc, odf_plain = odf_samples()
        pcases, pinfo = [], []
        for cname, data in zconts + [("odf-encrypted", odf_enc), ("odf-plain", odf_plain), ("truncated", base[: len(base) - 9]),
                                      ("odf-encrypted-bomb", forge(odf_enc, {1: (500 * 9 + 1, 9)}))]:
            opens, es, p1, p2 = zip_entries(data)
            isz = bool(zipfile.is_zipfile(io.BytesIO(data)))
            mon.record()
            try:
                res = encryption.is_odf_encrypted(io.BytesIO(data))
            except Exception as e:  # noqa
                res = type(e).__name__
            ev = mon.stop()
            traces.append(ev)
            ctx.case(("odf-probe", cname), True, kind="is_odf_encrypted")
            if res is True and (es is None or bomb_clauses(default, es)):
                ctx.finding(f"odf-probe-answers-on-bomb:{cname}", "is_odf_encrypted answered True for a container the guard must reject",
                            {"container": data})
            if not trace_dominated(ev) or objects_validated(ev):
                ctx.finding(f"read-before-validate:is_odf_encrypted:{cname}", f"is_odf_encrypted read a member before validation: {ev}",
                            {"container": data, "events": ev})
            infos = "None" if es is None else "(Some " + entries_coq(es) + ")"
            try:
                has_m = "META-INF/manifest.xml" in _ORIG["init_cls"](io.BytesIO(data)).namelist()
            except Exception:  # noqa
                has_m = False
            pcases.append(f"(default_limits, {'true' if isz else 'false'}, (mkO {'true' if opens else 'false'} {infos} {p1} {p2}), "
                          f"{'true' if has_m else 'false'}, {trace_coq(ev)})")
            pinfo.append((cname, res, ev))
        okp, fp_, logp = coq_eval_shards(ctx, "odfprobe", prez + "From S2T Require Import C11.ModelSession.\n", "corr_odf_probe", pcases,
                                         shard=300, ty="limits * bool * zip_oracle * bool * list event")
        ctx.obligation("correspondence:model odf_probe_events == monitored is_odf_encrypted call", okp and not fp_,
                       (f"{len(fp_)} disagreements, first: {pinfo[fp_[0]] if fp_ else ''} " + logp)[:1000])
        ctx.traces += len(pcases)
        lap("zipcontext")
        # (d'') read_zip_member against its model: claimed size x real size, stored and deflated
        from sharepoint2text.parsing.extractors.util import zip_utils
        mcases, minfo = [], []
        for deflate in (True, False):
            for R in (0, 1, 3000, 5000, 100_000):
                payload = (b"sharepoint " * (R // 11 + 1))[:R]
                z0 = make_zip([("pad.txt", b"x"), ("m.bin", payload)], deflate=deflate)
                for fs in sorted({0, 1, max(R - 1, 0), R, R + 1, 2 * R, R // 2, 4096, 4097, R + 70_000}):
                    zdata = forge(z0, {1: (fs, struct.unpack("<I", z0[central_records(z0)[0][1][0] + 20:][:4])[0])})
                    mon.record()
                    try:
                        with _ORIG["init_cls"](io.BytesIO(zdata)) as zf_:
                            got = len(zip_utils.read_zip_member(zf_, "m.bin"))
                    except zipfile.BadZipFile:
                        got = -1
                    except Exception as e:  # noqa
                        got = -2
                        ctx.finding(f"read_zip_member-raises:{type(e).__name__}", f"read_zip_member raised {type(e).__name__} "
                                    f"(claimed {fs}, real {R}, deflate={deflate})", {"container": zdata})
                    mon.stop()
                    infl = max([r_[4] or 0 for r_ in mon.reads] + [0])
                    ctx.case(("read_zip_member", deflate, R, fs), True, kind="read_zip_member")
                    if got > fs:
                        ctx.finding("read_zip_member-exceeds-claim", f"read_zip_member returned {got} bytes for a member claiming {fs} "
                                    f"(real size {R}, deflate={deflate})", {"container": zdata, "claimed": fs, "got": got})
                    if infl > max(fs, 4096) + 4096:
                        ctx.finding("read_zip_member-inflates-beyond-claim", f"read_zip_member made the decompressor produce {infl} bytes "
                                    f"for a member claiming {fs} (real size {R})", {"container": zdata, "claimed": fs, "inflated": infl})
                    mcases.append(f"({fs}, {R}, {zc(got)}, {infl})")
                    minfo.append((deflate, R, fs, got, infl))
        okm, fm, logm = coq_eval_shards(ctx, "readmember", pre + "From S2T Require Import C11.ModelRead.\n", "corr_read_member", mcases,
                                        shard=400, ty="Z * Z * Z * Z")
        ctx.obligation("correspondence:model read_zip_member (bytes obtained, CRC failure, decompressor bound) == zip_utils.read_zip_member "
                       "on claimed x real sizes, stored and deflated", okm and not fm,
                       (f"{len(fm)} disagreements, first (deflate, real, claimed, got, inflated): {minfo[fm[0]] if fm else ''} " + logm)[:1000])
        ctx.traces += len(mcases)
        # (e) the extractors on fixtures and forged variants
        seen_fmt = set()
        opens_stat, plain_out, truncation_broken, n_reads = {}, {}, [], [0]
        for fmt, fn, fixtures in container_extractors():
            for fx in fixtures[: ctx.n(2, 5)]:
                data0 = fx.read_bytes()
                for vname, data in forged_variants(data0, default, ctx.tier == "thorough"):
                    opens, es, _, _ = zip_entries(data)
                    mon.record()
                    out = run_extractor(fn, data, fx.name)
                    ev = mon.stop()
                    traces.append(ev)
                    seen_fmt.add(fmt)
                    clauses = bomb_clauses(default, es) if es is not None else None
                    ctx.case(("extractor", fmt, fx.name, vname), vname != "plain", kind=f"extractor:{fmt}:{out.split(':')[0]}")
                    # --- opens per extractor; every archive constructed by repository code is itself validated
                    st = opens_stat.setdefault(fmt, {"runs": 0, "opens_repo": 0, "opens_openpyxl": 0, "validations": 0, "member_reads": 0})
                    st["runs"] += 1
                    st["opens_repo"] += sum(1 for e in ev if e[0] == "open" and e[3] == "repo")
                    st["opens_openpyxl"] += sum(1 for e in ev if e[0] == "open" and e[3] == "openpyxl")
                    st["validations"] += sum(1 for e in ev if e[0] == "validate")
                    st["member_reads"] += sum(1 for e in ev if e[0] == "read")
                    if vname == "plain":
                        st["opens_per_plain_run"] = [sum(1 for e in ev if e[0] == "open" and e[3] == o_) for o_ in ("repo", "openpyxl")]
                        plain_out[(fmt, fx.name)] = out
                    badobj = objects_validated(ev)
                    if badobj:
                        ctx.finding(f"open-without-validation:{fmt}", f"{fn.__name__} read members through a ZipFile object that repository "
                                    f"code constructed and never passed to validate_zipfile ({fx.name}, {vname}): {badobj[:4]}",
                                    {"fixture": str(fx), "variant": vname, "events": ev})
                    # --- what a read costs: returned bytes <= claimed file_size (zipfile truncates: assumption of
                    #     C11_accepted_output_bounded); bytes produced by the decompressor vs the claim
                    for c_, nm_, decl, ret, infl, org in mon.reads:
                        n_reads[0] += 1
                        if decl >= 0 and ret > decl:
                            truncation_broken.append((fmt, fx.name, vname, nm_, decl, ret))
                        if decl >= 0 and infl is not None and infl > decl + 8192:
                            site = "openpyxl" if org == "openpyxl" else "ZipFile.read"
                            ctx.finding(f"inflate-exceeds-declared-size:{site}",
                                        f"{fn.__name__} ({fx.name}, {vname}): member {nm_!r} claims file_size {decl} in the central directory "
                                        f"(accepted by the guard) but reading it made the decompressor produce {infl} bytes in memory before "
                                        f"zipfile cut the result down to the claim (handed out {ret} bytes; a CRC error follows)",
                                        {"fixture": str(fx), "variant": vname, "member": nm_, "declared": decl, "inflated": infl, "returned": ret})
                    # --- the local header / data descriptor are never consulted: same outcome as the unmodified fixture
                    if vname.startswith("local-") and out != plain_out.get((fmt, fx.name)):
                        ctx.finding(f"local-header-consulted:{fmt}:{vname}", f"{fn.__name__} -> {out} on {fx.name} with only LOCAL header sizes "
                                    f"changed ({vname}), {plain_out.get((fmt, fx.name))} on the unmodified file",
                                    {"fixture": str(fx), "variant": vname, "outcome": out})
                    if not any(e[0] == "validate" for e in ev):
                        ctx.finding(f"never-validated:{fmt}", f"{fn.__name__} never validated the container ({fx.name}, {vname})",
                                    {"fixture": str(fx), "variant": vname, "events": ev})
                    if not trace_dominated(ev):
                        ctx.finding(f"read-before-validate:{fmt}", f"{fn.__name__} read a ZIP member before a successful validation "
                                    f"of the same container ({fx.name}, {vname}): {ev[:8]}",
                                    {"fixture": str(fx), "variant": vname, "events": ev})
                    if clauses is not None:
                        if clauses and out != "bomb":
                            ctx.finding(f"extractor-accepts-bomb:{fmt}:{vname}", f"{fn.__name__} -> {out} although {clauses} hold "
                                        f"({fx.name}, {vname})", {"fixture": str(fx), "variant": vname, "clauses": clauses, "outcome": out})
                        if clauses and any(e[0] == "read" for e in ev):
                            ctx.finding(f"bomb-read:{fmt}:{vname}", f"{fn.__name__} read a member of a rejected container",
                                        {"fixture": str(fx), "variant": vname, "events": ev})
                        if not clauses and out == "bomb":
                            ctx.finding(f"extractor-rejects-nonbomb:{fmt}:{vname}", f"{fn.__name__} raised the zip-bomb error although "
                                        f"no clause holds ({fx.name}, {vname})", {"fixture": str(fx), "variant": vname, "outcome": out})
        extractor_sessions(ctx, mon, default, traces)
        ctx.obligation("assumption:zipfile hands out at most the central directory's file_size per member read (ZipExtFile truncates)",
                       not truncation_broken and n_reads[0] > 0, f"{truncation_broken[:3]} over {n_reads[0]} member reads")
        ctx.extra["opens_per_extractor(monitor)"] = opens_stat
        ctx.extra["member_reads_measured"] = n_reads[0]
        lap("extractors")
        ctx.obligation("monitor:all 9 ZIP-container extractors exercised", len(seen_fmt) == 9, f"{sorted(seen_fmt)}")
        tcases = [trace_coq(t) for t in traces]
        okt, ft, logt = coq_eval_shards(ctx, "traces", pre, "corr_trace", tcases, shard=300, ty="list event")
        ctx.obligation("monitor:every recorded event trace is accepted by trace_ok (validate dominates reads)", okt and not ft,
                       (f"{len(ft)} rejected traces, first: {traces[ft[0]][:10] if ft else ''} " + logt)[:1000])
        ctx.traces += len(tcases)
        lap("traces-coq")
        ctx.extra["monitor_traces"] = len(tcases)
        ctx.extra["monitor_events"] = sum(len(t) for t in traces)
    finally:
        mon.active = False
        mon.uninstall()


META = {
    "technique": "Coq proof over an executable model of zip_bomb.py (incl. CPython int/int as an integer algorithm) and of "
                 "ZipContext as an event machine + kernel-decided limits_exact for the dumped defaults + vm_compute differential "
                 "correspondence on a boundary lattice + runtime monitor of zipfile/validate_zipfile under all container extractors",
    "design_ref": "DESIGN.md §5 C11",
    "level_text": "Kernel-checked: validate rejects iff the declarative six-clause Bomb disjunction (strict >, exact rational "
                  "ratios, directories ignored except in the count) and accepts otherwise, for all entry lists with non-negative "
                  "sizes and all limits with dyadic ratio limits >= 1 and byte limit * 2^max(-e,0) < 2^53 (the defaults, re-decided "
                  "each run; 500.5 is covered); float comparison == exact comparison in that range; for ALL byte limits and sizes the "
                  "guard never rejects what the exact predicate accepts (one-sided, binary64 ratio limits); stream position preserved; every ZipContext trace has "
                  "validate before each read; refutations outside that range. Validated only: model == code (differential), "
                  "extractor call order (runtime monitor + ast inventory), zipfile's central-directory parsing.",
    "level_note": "Trusted: Coq kernel+VM; hand-written model incl. the int/int rounding algorithm (tested against CPython and "
                  "SpecFloat.SFdiv each run; fdiv = SFdiv is NOT proved); G-dump printer; monitor wrappers; zipfile as oracle (central "
                  "directory parsing, ZIP64 decoding, is_zipfile, truncation of member reads to the claimed size: checked at run time); "
                  "ElementTree and openpyxl are outside the model (oracle / monitored only).",
}
