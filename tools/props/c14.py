"""C14 — images bit-exact, numbered, on the right unit.

G: SOF marker sets, content-type maps, sniffer signatures, anchor order and the resolver call sites are
   dumped from the live modules / their AST into Gen/C14Tables.v; C14/Inst.v re-decides the obligations.
D: (1) resolve_part_name and the extractor-level resolvers vs the model on a target grammar,
   (2) the header sniffers (three ooxml copies + util) vs the model on generated/mutated image headers,
   (3) generated packages (c14_writers) in docx/pptx/xlsx/odt/odp/ods/odg/epub: the model pipeline
       (resolution + numbering, Corr.pipeline) vs the implementation's (number, member) lists,
   and the property oracle (ground truth of the generator) directly on the implementation's output;
   unit/document view laws on every fixture of tests/resources.
"""
from __future__ import annotations

import ast
import hashlib
import inspect
import io
import logging
import os
import textwrap
import types

from props import c14_writers as Wr
from common import REPO, coq_Z, coq_bool, coq_list, coq_str, coq_eval_shards

FMT_ID = {"docx": 0, "pptx": 1, "xlsx": 2, "odt": 3, "odp": 4, "ods": 5, "odg": 6, "epub": 7}
UNIT_FORMATS = ("pptx", "xlsx", "odp", "ods")          # page / slide / sheet formats of the generator
COINCIDE_EXT = {".pdf", ".pptx", ".xlsx", ".odp", ".ods", ".pptm", ".xlsm", ".ppsx", ".potx"}


def sha(b: bytes) -> str:
    return hashlib.sha256(b).hexdigest()


# ------------------------------------------------------------------------------------ G
def _calls(fn) -> set[str]:
    try:
        tree = ast.parse(textwrap.dedent(inspect.getsource(fn)))
    except Exception:  # noqa
        return set()
    out = set()
    for n in ast.walk(tree):
        if isinstance(n, ast.Call):
            f = n.func
            out.add(f.id if isinstance(f, ast.Name) else f.attr if isinstance(f, ast.Attribute) else "?")
    return out


def _ret_expr(fn):
    """ast.dump of the expression of a function whose body is (docstring +) one `return <expr>`; else None"""
    try:
        f = ast.parse(textwrap.dedent(inspect.getsource(fn))).body[0]
    except Exception:  # noqa
        return None
    body = [s_ for s_ in f.body if not (isinstance(s_, ast.Expr) and isinstance(getattr(s_, "value", None), ast.Constant))]
    if len(body) == 1 and isinstance(body[0], ast.Return) and body[0].value is not None:
        return ast.dump(body[0].value)
    return None


def _expr(src):
    return ast.dump(ast.parse(src, mode="eval").body)


def _has_stmt(fn, src):
    """does the function contain a statement / expression whose dump equals that of `src`"""
    try:
        tree = ast.parse(textwrap.dedent(inspect.getsource(fn)))
    except Exception:  # noqa
        return False
    want = ast.dump(ast.parse(src).body[0]) if not src.startswith("EXPR ") else _expr(src[5:])
    return any(ast.dump(n) == want for n in ast.walk(tree))


def zip_lookup_sites():
    """X: member lookup of the shared ZIP context is by exact name.  Fail-closed: every accessor must be literally
    `path in self._namelist` / `self._zip.read(path)` / ... ; a folding, normalising or indirect lookup does not match."""
    from sharepoint2text.parsing.extractors.util import zip_context as zc, zip_utils as zu, ooxml_context as oc
    from sharepoint2text.parsing.extractors.ms_modern import docx_extractor as dx, pptx_extractor as px
    from sharepoint2text.parsing.extractors import epub_extractor as ex
    from sharepoint2text.parsing.extractors.open_office import odt_extractor as ot, odp_extractor as op_, ods_extractor as os_
    Z = zc.ZipContext
    sites = {
        "ZipContext.__init__: _namelist = set(zip.namelist())": _has_stmt(Z.__init__, "self._namelist = set(self._zip.namelist())"),
        "ZipContext.namelist": _ret_expr(Z.namelist.fget) == _expr("self._namelist"),
        "ZipContext.exists": _ret_expr(Z.exists) == _expr("path in self._namelist"),
        "ZipContext.read_bytes": _ret_expr(Z.read_bytes) == _expr("read_zip_member(self._zip, path)"),
        "ZipContext.open_stream": _ret_expr(Z.open_stream) == _expr("self._zip.open(path)"),
        "ZipContext.read_text": _ret_expr(Z.read_text) == _expr("read_zip_text(self._zip, path)"),
        "ZipContext.read_xml_root": _ret_expr(Z.read_xml_root) == _expr("read_zip_xml_root(self._zip, path)"),
        "zip_utils.read_zip_text": _has_stmt(zu.read_zip_text, "EXPR read_zip_member(zf, path)"),
        "zip_utils.read_zip_xml_root": _has_stmt(zu.read_zip_xml_root, "EXPR read_zip_member(zf, path)"),
        # read_zip_member(zf, path): the member is looked up BY NAME (getinfo: the last central-directory entry of that
        # exact name), opened through that entry and read up to its claimed size
        "zip_utils.read_zip_member: info = zf.getinfo(path)": hasattr(zu, "read_zip_member") and _has_stmt(zu.read_zip_member, "info = zf.getinfo(path)"),
        "zip_utils.read_zip_member: zf.open(info)": hasattr(zu, "read_zip_member") and _has_stmt(zu.read_zip_member, "EXPR zf.open(info)"),
        "zip_utils.read_zip_member: member.read(info.file_size)": hasattr(zu, "read_zip_member") and _has_stmt(zu.read_zip_member, "return member.read(info.file_size)"),
    }
    accessors = ("exists", "read_bytes", "read_text", "read_xml_root", "open_stream", "namelist")
    subs = [oc.OOXMLZipContext, dx._DocxContext, px._PptxContext, ex._EpubContext]
    for m_, nm_ in ((ot, "_OdtContext"), (op_, "_OdpContext"), (os_, "_OdsContext")):
        if hasattr(m_, nm_):
            subs.append(getattr(m_, nm_))
    for c in subs:
        sites[f"{c.__name__}: is a ZipContext and overrides no accessor"] = issubclass(c, Z) and not any(
            a in k.__dict__ for k in c.__mro__ if k not in (Z, object) for a in accessors)
    for c in (dx._DocxContext, px._PptxContext):
        g = c.get_image_data
        sites[f"{c.__name__}.get_image_data"] = (_has_stmt(g, "EXPR image_path not in self._namelist")
                                                 and _has_stmt(g, "return self.read_bytes(image_path)"))
    return sites


def gen_tables(ctx):
    from sharepoint2text.parsing.extractors.ms_modern import docx_extractor as dx, pptx_extractor as px, xlsx_extractor as xx
    from sharepoint2text.parsing.extractors import epub_extractor as ex
    from sharepoint2text.parsing.extractors.util import image_utils as iu

    def zl(b):
        return "[" + "; ".join(str(x) for x in b) + "]%Z"

    def consts(fn):
        flat = []
        for c in fn.__code__.co_consts:
            flat += list(c) if isinstance(c, tuple) else [c]
        return [c for c in flat if isinstance(c, bytes)]
    sniffers = [getattr(m, "_get_image_pixel_dimensions", None) for m in (dx, px, xx)]
    cs = consts(sniffers[0]) if sniffers[0] is not None else []
    pick = lambda pred: next((c for c in cs if pred(c)), b"")

    def sof_of(m):
        """the SOF marker set the copy tests `marker in ...` against: a module constant or an inline tuple"""
        s_ = getattr(m, "_JPEG_SOF_MARKERS", None)
        if s_ is not None:
            return sorted(s_)
        fn_ = getattr(m, "_get_image_pixel_dimensions", None)
        for c in (fn_.__code__.co_consts if fn_ is not None else ()):
            if isinstance(c, (tuple, frozenset)) and 0xC0 in c and all(isinstance(x, int) for x in c):
                return sorted(c)
        return []
    sites = {
        "docx._extract_images_from_context": "resolve_part_name" in _calls(dx._extract_images_from_context),
        "pptx._normalize_relative_path": "resolve_part_name" in _calls(px._normalize_relative_path),
        "pptx._process_slide_from_context": bool({"_normalize_relative_path", "resolve_part_name"} & _calls(px._process_slide_from_context)),
        "xlsx._resolve_image_path": "resolve_part_name" in _calls(xx._resolve_image_path),
        "xlsx._resolve_drawing_path": "resolve_part_name" in _calls(xx._resolve_drawing_path),
        "epub.resolve_href": "resolve_part_name" in _calls(ex._EpubContext.resolve_href),
    }
    from sharepoint2text.parsing.extractors.open_office import _shared as osh, odt_extractor as ot, odp_extractor as op_, \
        ods_extractor as os_, odg_extractor as og
    omn = getattr(osh, "odf_member_name", None)
    sites["odf._shared.odf_member_name"] = omn is not None and "resolve_part_name" in _calls(omn)
    for nm_, fn_ in (("odt._extract_images_from_context", ot._extract_images_from_context), ("odp._extract_image", op_._extract_image),
                     ("ods._extract_images", os_._extract_images), ("odg._extract_images", og._extract_images)):
        sites[nm_] = "odf_member_name" in _calls(fn_)
    # X: the pixel size of an OOXML picture comes from the byte-signature sniffer of the extractor (the function the
    # sniffer theorems model), called in the image loop — not from the part name
    sniffer_sites = {}
    for nm_, m_, loop in (("docx", dx, "_extract_images_from_context"), ("pptx", px, "_process_slide_from_context"),
                          ("xlsx", xx, "_extract_images_from_zip")):
        fn_ = getattr(m_, "_get_image_pixel_dimensions", None)
        sniffer_sites[f"{nm_}._get_image_pixel_dimensions(image_data) exists"] = fn_ is not None and \
            list(inspect.signature(fn_).parameters) == ["image_data"]
        sniffer_sites[f"{nm_}.{loop} calls it"] = hasattr(m_, loop) and "_get_image_pixel_dimensions" in _calls(getattr(m_, loop))
    from sharepoint2text.parsing.extractors.ms_legacy import xls_extractor as xe_
    xc = _calls(xe_._extract_images_from_workbook)
    for callee in ("detect_image_type", "wrap_dib_as_bmp", "get_image_dimensions", "sha1"):
        sniffer_sites[f"xls._extract_images_from_workbook calls {callee}"] = callee in xc
    sniffer_sites["image_utils.BLIP_TYPE_EMF/WMF/DIB are the modelled record types"] = (
        (iu.BLIP_TYPE_EMF, iu.BLIP_TYPE_WMF, iu.BLIP_TYPE_DIB) == (61466, 61467, 61471))
    sniffer_sites["image_utils signatures are the modelled ones"] = (
        iu.JPEG_SIGNATURE == bytes([255, 216, 255]) and iu.GIF_SIGNATURE == b"GIF8" and iu.BMP_SIGNATURE == b"BM"
        and iu.PNG_SIGNATURE == bytes([137, 80, 78, 71, 13, 10, 26, 10]) and iu.TIFF_LE_SIGNATURE == b"II*\x00" and iu.TIFF_BE_SIGNATURE == b"MM\x00*")
    anchor_ids = {xx.XDR_ONE_CELL_ANCHOR: 0, xx.XDR_TWO_CELL_ANCHOR: 1, xx.XDR_ABSOLUTE_ANCHOR: 2}
    pair = lambda a, b: f"({a}, {b})"
    t = "(* GENERATED on every check run from the live modules of the repo under test — do not edit. *)\n"
    t += "From Coq Require Import ZArith List.\nFrom S2T Require Import Lib.PyStr.\nImport ListNotations.\n\n"
    for nm, m in (("docx", dx), ("pptx", px), ("xlsx", xx)):
        t += f"Definition sof_{nm} : list Z := {zl(sof_of(m))}.\n"
        t += f"Definition ctmap_{nm} : list (str * str) := " + coq_list(
            [pair(coq_str(k), coq_str(v)) for k, v in m._CONTENT_TYPE_MAP.items()]) + ".\n"
    t += "Definition resolver_sites : list (str * bool) := " + coq_list(
        [pair(coq_str(k), coq_bool(v)) for k, v in sites.items()]) + ".\n"
    from sharepoint2text.parsing.extractors.pdf import pdf_extractor as pdfx
    t += "Definition pdf_ctmap : list (str * str) := " + coq_list(
        [pair(coq_str(k), coq_str(v)) for k, v in pdfx.FILTER_TO_CONTENT_TYPE.items()]) + ".\n"
    t += "Definition sniffer_sites : list (str * bool) := " + coq_list(
        [pair(coq_str(k), coq_bool(v)) for k, v in sniffer_sites.items()]) + ".\n"
    t += "Definition zip_lookup_sites : list (str * bool) := " + coq_list(
        [pair(coq_str(k), coq_bool(v)) for k, v in zip_lookup_sites().items()]) + ".\n"
    t += f"Definition sig_png : list Z := {zl(pick(lambda c: c.startswith(bytes([0x89]) + b'PNG')))}.\n"
    t += f"Definition sig_bmp : list Z := {zl(pick(lambda c: c == b'BM'))}.\n"
    t += f"Definition sig_gif87 : list Z := {zl(pick(lambda c: c == b'GIF87a'))}.\n"
    t += f"Definition sig_gif89 : list Z := {zl(pick(lambda c: c == b'GIF89a'))}.\n"
    t += f"Definition anchor_order : list Z := {zl([anchor_ids.get(a, 9) for a in xx.ANCHOR_TYPES])}.\n"
    ctx.gen_write("Gen/C14Tables.v", t)
    return sites


# ------------------------------------------------------------------------------------ D1: resolution
SEGS = ["..", ".", "", "media", "image1.png", "x", "a b", "..x", "...", "ppt", "word", "é", "xl", "p.q.r"]
BASES = ["word", "ppt/slides", "xl/drawings", "xl/worksheets", "OEBPS/", "OEBPS/pkg/", "", "a/b/c", "a//b/", "/r"]


def gen_targets(ctx, n):
    rng = ctx.rng
    out = ["", "/", "..", ".", "../", "./", "//", "media/image1.png", "../media/image1.png", "/ppt/media/image1.png",
           "/word/media/x.png", "./media/x.png", "x/../media/x.png", "../../../x", "a/./b/../c", "../media/a/x.png"]
    for _ in range(n):
        k = rng.randint(1, 6)
        t = "/".join(rng.choice(SEGS) for _ in range(k))
        if rng.random() < 0.25:
            t = "/" + t
        if rng.random() < 0.1:
            t += "/"
        out.append(t)
    seen, res = set(), []
    for t in out:
        if t not in seen:
            seen.add(t)
            res.append(t)
    return res


def corr_resolve(ctx):
    from sharepoint2text.parsing.extractors.util import zip_utils
    from sharepoint2text.parsing.extractors.ms_modern import pptx_extractor as px, xlsx_extractor as xx
    from sharepoint2text.parsing.extractors import epub_extractor as ex
    targets = gen_targets(ctx, ctx.n(400, 4000))
    cases, info = [], []

    def add(site, base, t, fn):
        try:
            got = fn()
        except Exception as e:  # noqa
            got = "<raised " + type(e).__name__ + ">"
        cases.append(f"({coq_str(base)}, {coq_str(t)}, {coq_str(got)})")
        info.append((site, base, t, got))
        ctx.case(("resolve", site, base, t), "/" in t or ".." in t, kind="resolve:" + site)
    from sharepoint2text.parsing.extractors.open_office import _shared as osh
    omn = getattr(osh, "odf_member_name", None)
    rp = getattr(zip_utils, "resolve_part_name", None)
    ctx.obligation("resolver:util.zip_utils.resolve_part_name exists", rp is not None,
                   "the shared resolver modelled by C14/Model.v resolve_part is absent (tree without fixes/C14-resolve-part-names.patch)")
    for t in targets:
        if rp is not None:
            for b in BASES:
                add("resolve_part_name", b, t, lambda: rp(b, t))
        add("pptx._normalize_relative_path", "ppt/slides", t, lambda: px._normalize_relative_path("ppt/slides", t))
        add("xlsx._resolve_drawing_path", "xl/worksheets", t, lambda: xx._resolve_drawing_path(t))

        def ximg():
            try:
                return xx._resolve_image_path(t, "xl/drawings/drawing1.xml")
            except TypeError:
                return xx._resolve_image_path(t)
        add("xlsx._resolve_image_path", "xl/drawings", t, ximg)
        if omn is not None:
            add("odf.odf_member_name", "", t, lambda: omn(t))
        for od in ("OEBPS/", "", "OEBPS/pkg/"):
            add("epub.resolve_href", od, t, lambda: ex._EpubContext.resolve_href(types.SimpleNamespace(_opf_dir=od), t))
    ok, failing, log = coq_eval_shards(ctx, "resolve", "From S2T Require Import Lib.PyStr C14.Model C14.Corr.\n",
                                       "corr_resolve", cases, shard=500, ty="str * str * str")
    ctx.traces += len(cases)
    ctx.disagreements += len(failing)
    by_site = {}
    for i in failing:
        by_site.setdefault(info[i][0], []).append(info[i][1:])
    ctx.obligation("correspondence:resolve_part == resolve_part_name / extractor resolvers", ok and not failing,
                   (f"{len(failing)} disagreements by site: " + "; ".join(f"{k}: {len(v)} e.g. {v[0]}" for k, v in by_site.items())
                    + " " + log)[:1500])
    ctx.extra["resolve_cases"] = len(cases)


# ------------------------------------------------------------------------------------ D2: sniffers
def gen_headers(ctx, n):
    """-> list of (bytes, truth or None) ; truth = (kind, w, h) for well-formed files"""
    rng = ctx.rng
    out = []
    edge16 = [0, 1, 2, 255, 256, 257, 65535]
    for _ in range(n):
        kind = rng.choice(["png", "gif", "bmp", "jpeg"])
        if kind == "png":
            w, h = rng.choice(edge16 + [2 ** 31, 2 ** 32 - 1, 70000]), rng.choice(edge16 + [2 ** 31 - 1, 123456])
            d = Wr.png(min(w, 4), min(h, 4), rng.randrange(256))
            d = d[:16] + w.to_bytes(4, "big") + h.to_bytes(4, "big") + d[24:]
            d = d[: rng.choice([24, 33, len(d)])]
        elif kind == "gif":
            w, h = rng.choice(edge16), rng.choice(edge16)
            d = Wr.gif(w, h, rng.randrange(256), rng.choice([b"GIF87a", b"GIF89a"]))
            d = d[: rng.choice([10, 13, len(d)])]
        elif kind == "bmp":
            w = rng.choice([0, 1, 3, 300, -5, 2 ** 31 - 1, -2 ** 31])
            h = rng.choice([0, 1, 2, 77, -77, 2 ** 31 - 1, -2 ** 31])
            d = Wr.bmp(2, 2, rng.randrange(256))
            d = d[:18] + w.to_bytes(4, "little", signed=True) + h.to_bytes(4, "little", signed=True) + d[26:]
            d = d[: rng.choice([26, 30, 54, len(d)])]
        else:
            w, h = rng.choice(edge16), rng.choice(edge16)
            d = Wr.jpeg(w, h, rng.randrange(256), sof=rng.choice([0xC0, 0xC1, 0xC2, 0xC3, 0xC5, 0xC9, 0xCF]),
                        app_segments=rng.randint(0, 3))
        truth = (kind, w, h)
        r = rng.random()
        if r < 0.45:
            pass
        elif r < 0.6:                                  # truncation
            d, truth = d[: rng.randint(0, len(d))], None
        elif r < 0.8:                                  # byte mutations
            b = bytearray(d)
            for _ in range(rng.randint(1, 3)):
                if b:
                    b[rng.randrange(len(b))] = rng.choice([0, 1, 2, 0xFF, 0xD8, 0xD9, 0xDA, 0xC0, 0xC4, rng.randrange(256)])
            d, truth = bytes(b), None
        elif r < 0.9 and kind == "jpeg":               # hostile marker layouts
            pre = b"\xff\xd8" + rng.choice([b"\xff\xff\xff", b"\x00\x01", b"\xff\xe1\x00\x01", b"\xff\xe1\x00\x00",
                                             b"\xff\xc4\x00\x04\x00\x00", b"\xff\xe0\xff\xff", b"\xff\xd9", b"\xff\xda\x00\x02"])
            d, truth = pre + d[2:], None
        else:                                          # signature + garbage
            sig = rng.choice([b"\x89PNG\r\n\x1a\n", b"GIF89a", b"GIF87a", b"BM", b"\xff\xd8", b"\xff\xd8\xff", b"GIF8", b""])
            d, truth = sig + bytes(rng.randrange(256) for _ in range(rng.randint(0, 40))), None
        out.append((d, truth))
    out += [(b"", None), (b"\xff\xd8", None), (b"BM", None), (b"\x89PNG\r\n\x1a\n" + b"\0" * 15, None)]
    return out


def corr_sniff(ctx):
    from sharepoint2text.parsing.extractors.ms_modern import docx_extractor as dx, pptx_extractor as px, xlsx_extractor as xx
    from sharepoint2text.parsing.extractors.util import image_utils as iu
    items = gen_headers(ctx, ctx.n(500, 5000))
    cases, info = [], []
    oz = lambda v: "None" if v is None else f"(Some {coq_Z(v)})"
    pr = lambda wh: f"({oz(wh[0])}, {oz(wh[1])})"

    def call(fn, *a):
        try:
            r = fn(*a)
            return (r[0], r[1])
        except Exception as e:  # noqa
            return ("raised", type(e).__name__)
    sn = [getattr(m, "_get_image_pixel_dimensions", None) for m in (dx, px, xx)]
    if any(f is None for f in sn):
        ctx.obligation("sniffers:_get_image_pixel_dimensions present in docx/pptx/xlsx extractors", False,
                       "the byte-signature sniffer modelled by Model.ooxml_dims is gone from an extractor; pixel sizes are "
                       "checked on generated packages only (see the package oracle for a concrete input)")
        sn = [f or (lambda d_: (None, None)) for f in sn]
        sn_present = False
    else:
        sn_present = True
    for d, truth in items:
        o = [call(f, d) for f in sn]
        u = [call(iu.get_image_dimensions, d, k) for k in ("png", "jpeg", "bmp", "gif")]
        ctx.case(("sniff", d), len(d) >= 10, kind="sniff:" + (truth[0] if truth else "malformed"))
        bad = [r for r in o + u if r[0] == "raised"]
        if bad:
            ctx.finding("sniffer-raises:" + bad[0][1], f"dimension sniffer raised {bad[0][1]} on {d[:40].hex()}…",
                        {"data": d, "ooxml": o, "util": u})
            continue
        if not (o[0] == o[1] == o[2]):
            ctx.finding("sniffer-copies-disagree", f"the three _get_image_pixel_dimensions copies disagree: {o}", {"data": d, "answers": o})
        if truth and sn_present:                        # property oracle: the declared pixel size
            kind, w, h = truth
            want = (abs(w) or None, abs(h) or None)
            if o[0] != want:
                ctx.finding(f"sniffer-wrong-size:{kind}", f"_get_image_pixel_dimensions returns {o[0]} for a well-formed {kind} "
                            f"declaring {w}x{h}", {"data": d, "want": want, "got": o[0]})
        cases.append(f"({Wr_zbytes(d)}, {pr(o[0])}, [{'; '.join(pr(x) for x in u)}])")
        info.append((d.hex(), o[0], u))
    ok, failing, log = coq_eval_shards(ctx, "sniff", "From Coq Require Import ZArith List.\nImport ListNotations.\n"
                                       "From S2T Require Import Lib.PyStr C01.Loops C14.Model C14.Corr.\n",
                                       "corr_sniff", cases, shard=250,
                                       ty="list Z * (option Z * option Z) * list (option Z * option Z)")
    ctx.traces += len(cases)
    ctx.disagreements += len(failing)
    ctx.obligation("correspondence:ooxml_dims/util_dims == _get_image_pixel_dimensions/get_image_dimensions", ok and not failing and sn_present,
                   (f"{len(failing)} disagreements, first: {info[failing[0]] if failing else ''} " + log)[:1500])
    ctx.extra["sniff_cases"] = len(cases)


def Wr_zbytes(b: bytes) -> str:
    return "[" + ";".join(str(x) for x in b) + "]%Z"


# ------------------------------------------------------------------------------------ D3: packages
MEDIA_DIR = {"docx": "word/media", "pptx": "ppt/media", "xlsx": "xl/media", "odt": "Pictures", "odp": "Pictures",
             "ods": "Pictures", "odg": "Pictures", "epub": "OEBPS/images"}
SOURCE = {"docx": lambda n: "word/document.xml", "pptx": lambda n: f"ppt/slides/slide{n}.xml",
          "xlsx": lambda n: f"xl/drawings/drawing{n}.xml"}


VARIANTS: dict = {}
ENV_CASES: list = []          # (format, package bytes): a sample of the generated documents, re-run under other environments


def observe(case):
    """canonical result of the implementation on a generated document: document view and unit view of the images"""
    fmt, data = case
    if fmt == "pdf":
        from sharepoint2text.parsing.extractors.pdf.pdf_extractor import read_pdf
        res = next(read_pdf(io.BytesIO(data)))
    else:
        res = None
    obs = lambda i: (sha(i.get_bytes().read()), i.get_content_type(), tuple(sorted((k, v) for k, v in dict(i.get_metadata()).items())))
    if res is None:
        doc, units = run_impl({"fmt": fmt}, data)
        can = lambda o: tuple(sorted(o.items()))
        return (tuple(can(o) for o in doc), tuple(tuple(can(o) for o in u) for u in units))
    return (tuple(obs(i) for i in res.iterate_images()), tuple(tuple(obs(i) for i in u.get_images()) for u in res.iterate_units()))


def env_dimension(ctx):
    """the images of a document do not depend on logging level, thread, time zone or working directory"""
    import common
    common.env_sweep(ctx, "images-of-generated-documents", observe, list(ENV_CASES),
                     describe=lambda c: f"generated {c[0]} document ({len(c[1])} bytes, sha256 {sha(c[1])[:12]})")


def probe_variants(ctx):
    """Which of the (proposed, not yet applied) repairs the tree under test contains, found by running it on five fixed
    probe inputs.  The answers select the model variant of Corr.pipeline / corr_ctype; the correspondence then validates
    the selected variant on every generated case, and the property oracle is independent of it."""
    def med(part, kind, w, h, seed):
        return {"part": part, "kind": kind, "w": w, "h": h, "data": Wr.MAKERS[kind](w, h, seed) + b"#probe", "present": True}
    v = {}
    try:
        m = [med("ppt/media/image1.png", "png", 2, 2, 1)]
        pl = lambda: [{"m": 0, "rid": "rId2", "style": "rel", "target": "../media/image1.png"}]
        doc, _ = run_impl({"fmt": "pptx"}, Wr.build({"fmt": "pptx", "media": m, "units": [pl(), pl()]}))
        v["pptx_running"] = [o["n"] for o in doc] == [1, 2]
        from sharepoint2text.parsing.extractors.pdf.pdf_extractor import read_pdf
        r = next(read_pdf(io.BytesIO(Wr.build_pdf([{"data": Wr.jpeg(2, 2, 1), "w": 2, "h": 2}], [[0], [0]]))))
        v["pdf_running"] = [dict(i.get_metadata())["image_number"] for i in r.iterate_images()] == [1, 2]
        m = [med("xl/media/image1.png", "png", 2, 2, 1), med("xl/media/image2.gif", "gif", 2, 2, 2)]
        u = [{"m": 0, "rid": "rId1", "style": "rel", "anchor": "two", "target": "../media/image1.png"},
             {"m": 1, "rid": "rId2", "style": "rel", "anchor": "one", "target": "../media/image2.gif"}]
        doc, _ = run_impl({"fmt": "xlsx"}, Wr.build({"fmt": "xlsx", "media": m, "units": [u]}))
        v["xlsx_doc_order"] = [o["sha"] for o in doc] == [sha(m[0]["data"]), sha(m[1]["data"])]
        _, units = run_impl({"fmt": "xlsx"}, Wr.build({"fmt": "xlsx", "media": m[:1], "units": [u[:1], []], "sheet_files": [2, 1]}))
        v["xlsx_by_position"] = [len(x) for x in units] == [1, 0]
        for fmt, part, tgt in (("docx", "word/media/image1.dat", "media/image1.dat"), ("pptx", "ppt/media/image1.dat", "../media/image1.dat"),
                               ("xlsx", "xl/media/image1.dat", "../media/image1.dat")):
            m = [med(part, "png", 2, 2, 1)]
            sp = {"fmt": fmt, "media": m, "units": [[{"m": 0, "rid": "rId7", "style": "rel", "anchor": "two", "target": tgt}]]}
            if fmt == "docx":
                sp.update(rel_order=["rId7"], extra_rels=[])
            doc, _ = run_impl(sp, Wr.build(sp))
            v[f"{fmt}_ctype_from_bytes"] = [o["ctype"] for o in doc] == ["image/png"]
    except Exception as e:  # noqa
        ctx.obligation("harness:variant-probes", False, repr(e))
    VARIANTS.clear()
    VARIANTS.update(v)
    ctx.extra["model_variants_selected_by_probes"] = dict(v)


def gen_spec(ctx, fmt, idx):
    rng = ctx.rng
    nmedia = rng.randint(0, 4)
    media = []
    for i in range(nmedia):
        kind = rng.choice(["png", "jpeg", "gif", "bmp"])
        w, h = rng.randint(1, 300), rng.randint(1, 300)
        sub = rng.choice(["", "", "", "sub/"]) if fmt in ("docx", "pptx", "xlsx", "epub") else ""
        d = MEDIA_DIR[fmt]
        if fmt == "docx" and rng.random() < 0.1:
            d = "media"                                 # a part outside word/
        # the extension: usual, in another letter case (str.lower decides), or — OOXML only, where the type is derived
        # from the name — one the tables do not know
        ext_ = Wr.EXT[kind]
        r_ext = rng.random()
        unknown_ext = misleading_ext = False
        if r_ext < 0.15:
            ext_ = rng.choice([ext_.upper(), ext_.capitalize()] + (["jpeg", "JPEG"] if kind == "jpeg" else []))
        elif r_ext < 0.22 and fmt in ("docx", "pptx", "xlsx"):
            ext_, unknown_ext = rng.choice(["dat", "bin", "tmp", "jfif"]), True
        elif r_ext < 0.27 and fmt in ("docx", "pptx", "xlsx"):
            # an extension that names ANOTHER raster format than the bytes (a PNG stored as image1.jpeg)
            ext_, misleading_ext = rng.choice([e for k_, e in Wr.EXT.items() if k_ != kind]), True
        # member names with characters that are ordinary in a part name / URL path but special to some decoder
        # (form decoding turns '+' into a space, '&' ';' '=' split queries, quotes and parentheses need no escaping)
        stem = f"image{i + 1}"
        if rng.random() < 0.25:
            stem = rng.choice(["a+b_plot", "R&D", "it's", "plot(1)", "x,y;z=1", "me@home~!$", "1+1=2", "C++"]) + str(i + 1)
        if sub and rng.random() < 0.3:
            sub = rng.choice(["C++/", "a&b/", "v1,2/"])
        part = f"{d}/{sub}{stem}.{ext_}"
        data = Wr.MAKERS[kind](min(w, 8), min(h, 8), idx * 7 + i)
        # patch the declared size into the header so that sizes vary without big pixel data
        if kind == "png":
            data = data[:16] + w.to_bytes(4, "big") + h.to_bytes(4, "big") + data[24:]
        elif kind == "gif":
            data = data[:6] + w.to_bytes(2, "little") + h.to_bytes(2, "little") + data[10:]
        elif kind == "bmp":
            data = data[:18] + w.to_bytes(4, "little") + h.to_bytes(4, "little") + data[26:]
        else:
            data = Wr.jpeg(w, h, idx * 7 + i, app_segments=rng.randint(0, 2))
        media.append({"part": part, "kind": kind, "w": w, "h": h, "data": data + b"#%d.%d" % (idx, i), "present": True,
                      "manifest": rng.choice(["typed", "typed", "empty", "generic", "absent"]),
                      "unknown_ext": unknown_ext, "misleading_ext": misleading_ext})
    # duplicate member name: an earlier archive entry of the same name with other bytes (the name designates the LAST entry)
    if media and rng.random() < 0.12:
        md_ = media[rng.randrange(len(media))]
        md_["dup_first"] = Wr.MAKERS[md_["kind"]](3, 3, idx * 7 + 6) + b"#dupfirst%d" % idx
    # twins: two members whose names differ only in letter case / Unicode normalisation form / a trailing space of
    # the stem; both are referenced exactly and each reference must be served its own bytes
    twins = None
    if media and rng.random() < 0.3:
        a = rng.randrange(len(media))
        ma = media[a]
        dirn, base = ma["part"].rsplit("/", 1)
        how = rng.choice(["case", "case", "nfc", "space"])
        if how == "nfc" and "image" not in base:
            how = "case"
        if how == "case":
            k_ = next((k for k, c in enumerate(base.rsplit(".", 1)[0]) if c.isalpha()), None)
            if k_ is None:
                how = "space"
            else:
                tb = base[:k_] + base[k_].swapcase() + base[k_ + 1:]
        if how == "case":
            pass
        elif how == "nfc":
            ma["part"] = dirn + "/" + base.replace("image", "imag\u00e9")
            tb = base.replace("image", "image\u0301")
        else:
            stem, ext_ = base.rsplit(".", 1)
            tb = stem + " ." + ext_
        w2, h2 = rng.randint(1, 300), rng.randint(1, 300)
        d2 = Wr.jpeg(w2, h2, idx * 7 + 5) if ma["kind"] == "jpeg" else Wr.MAKERS[ma["kind"]](2, 2, idx * 7 + 5)
        if ma["kind"] == "png":
            d2 = d2[:16] + w2.to_bytes(4, "big") + h2.to_bytes(4, "big") + d2[24:]
        elif ma["kind"] == "gif":
            d2 = d2[:6] + w2.to_bytes(2, "little") + h2.to_bytes(2, "little") + d2[10:]
        elif ma["kind"] == "bmp":
            d2 = d2[:18] + w2.to_bytes(4, "little") + h2.to_bytes(4, "little") + d2[26:]
        media.append({"part": dirn + "/" + tb, "kind": ma["kind"], "w": w2, "h": h2, "data": d2 + b"#twin%d" % idx, "present": True,
                      "unknown_ext": ma.get("unknown_ext", False), "misleading_ext": ma.get("misleading_ext", False)})
        twins = (a, len(media) - 1, how)
    nunits = rng.randint(1, 3) if fmt in UNIT_FORMATS else 1
    styles = {"docx": ["rel"] * 5 + ["parent", "abs", "dot", "updown", "missing", "external"],
              "pptx": ["rel"] * 5 + ["parent", "abs", "dot", "updown", "missing", "external"],
              "xlsx": ["rel"] * 5 + ["parent", "abs", "dot", "updown", "missing"],
              "epub": ["rel"] * 5 + ["abs", "dot", "missing", "parent"],
              }.get(fmt, ["rel"] * 6 + ["dot", "updown", "middot", "dslash", "missing", "external"])
    spec = {"fmt": fmt, "media": media, "units": [], "idx": idx, "ct_mode": rng.choice(["defaults", "defaults", "overrides", "none"])}
    if fmt == "epub":
        spec["opf"] = rng.choice(["OEBPS/content.opf", "OEBPS/content.opf", "OEBPS/pkg/content.opf", "content.opf"])
    if fmt == "pptx":
        spec["same_pos"] = rng.random() < 0.25
        # slide part numbers, sldId ids and relationship ids say nothing about the slide order
        if rng.random() < 0.4:
            spec["slide_files"] = rng.sample(range(1, nunits + 3), nunits)
        if rng.random() < 0.4:
            spec["slide_rids"] = [f"rId{x}" for x in rng.sample(range(1, 30), nunits)]
        if rng.random() < 0.4:
            spec["slide_ids"] = rng.sample(range(256, 300), nunits)
        spec["pres_rels_reversed"] = rng.random() < 0.3
    if fmt == "xlsx":
        files = list(range(1, nunits + 1))
        if rng.random() < 0.15:
            rng.shuffle(files)
        spec["sheet_files"] = files
        spec["drawing_style"] = rng.choice(["parent1", "parent1", "abs"])
        # workbook identifiers are identifiers, not positions: sheetId permuted / with gaps / not starting at 1,
        # relationship ids in any order, relationships part in any order
        r_ = rng.random()
        if r_ < 0.5:
            ids_ = rng.sample(range(1, nunits + 4), nunits) if r_ < 0.35 else [7 + 2 * j for j in range(nunits)]
            spec["sheet_ids"] = ids_
        if rng.random() < 0.4:
            spec["sheet_rids"] = [f"rId{x}" for x in rng.sample(range(1, 30), nunits)]
        spec["wb_rels_reversed"] = rng.random() < 0.3
    ridn = 0
    for u in range(1, nunits + 1):
        unit = []
        for _ in range(rng.choice([0, 1, 1, 2, 2, 3, 5])):
            style = rng.choice(styles)
            ridn += 1
            pl = {"style": style, "rid": f"rId{rng.choice([ridn, ridn + 20, 100 - ridn])}"}
            if fmt == "docx":
                pl["rid"] = f"rId{ridn if rng.random() < 0.5 else 200 - ridn}"
            if fmt == "odt" and style in ("external", "missing"):
                pl["in_textbox"] = rng.random() < 0.25
            if style == "external":
                pl.update(m=None, target=f"http://example.com/pic{ridn}.png")
            elif style == "missing" or not media:
                pl.update(m=None, style="missing", target=_target(spec, fmt, u, f"{MEDIA_DIR[fmt]}/gone{ridn}.png", "rel"))
            else:
                m = rng.randrange(len(media))
                pl.update(m=m, target=_target(spec, fmt, u, media[m]["part"], style))
                if fmt == "xlsx":
                    pl["anchor"] = rng.choice(["two", "two", "one", "abs"])
                if fmt == "odt":
                    pl["in_textbox"] = rng.random() < 0.25
                if fmt in ("odt", "odp", "ods", "odg") and not pl.get("in_textbox"):
                    pl["group"] = rng.choice([0, 0, 0, 1, 2])          # inside (nested) draw:g shape groups
                if fmt == "docx":
                    pl["in_table"] = rng.random() < 0.2
            if fmt == "xlsx":
                pl.setdefault("anchor", "two")
            unit.append(pl)
        if fmt == "odt" and u == 1 and rng.random() < 0.35:
            # every structural position gets every spelling: a CAPTIONED picture (text-box) whose href is not in normal
            # form, as the only placement of its media
            kind_ = rng.choice(["png", "jpeg", "gif", "bmp"])
            w_, h_ = rng.randint(1, 9), rng.randint(1, 9)
            media.append({"part": f"Pictures/captioned{idx}.{Wr.EXT[kind_]}", "kind": kind_, "w": w_, "h": h_,
                          "data": Wr.MAKERS[kind_](w_, h_, idx) + b"#cap%d" % idx, "present": True})
            st_ = rng.choice(["dot", "updown", "middot", "dslash"])
            unit.insert(rng.randint(0, len(unit)), {"style": st_, "rid": "rIdC", "m": len(media) - 1, "in_textbox": True,
                                                   "target": _target(spec, fmt, 1, media[-1]["part"], st_)})
        if twins and u == 1:
            for j_, m_ in enumerate(twins[:2]):
                tp = {"style": "rel", "rid": f"rIdT{j_}", "m": m_, "target": _target(spec, fmt, 1, media[m_]["part"], "rel"), "twin": twins[2]}
                if fmt == "xlsx":
                    tp["anchor"] = "two"
                unit.insert(j_, tp)
        # unique rids per source part
        seen = {}
        for pl in unit:
            key = pl["rid"]
            if key in seen and seen[key] != pl["target"]:
                pl["rid"] = key + "x" + str(len(seen))
            seen[pl["rid"]] = pl["target"]
        spec["units"].append(unit)
    if fmt == "docx":
        rids = []
        for pl in spec["units"][0]:
            if pl["rid"] not in rids:
                rids.append(pl["rid"])
        if rng.random() < 0.5:
            rng.shuffle(rids)
        spec["rel_order"] = rids
        spec["extra_rels"] = []
        if media and rng.random() < 0.2:
            m = rng.randrange(len(media))
            spec["extra_rels"].append(("rId900", Wr.opc_target("word/document.xml", media[m]["part"], "rel"), m))
    return spec


def _target(spec, fmt, unit_no, part, style):
    if fmt in SOURCE:
        src = SOURCE[fmt](spec["sheet_files"][unit_no - 1] if fmt == "xlsx" else unit_no)
        return Wr.opc_target(src, part, style)
    if fmt == "epub":
        return Wr.opc_target(spec["opf"], part, style if style != "parent" or "/" in os.path.dirname(spec["opf"]) else "rel")
    d_, _, b_ = part.rpartition("/")                                     # ODF hrefs (package root)
    return {"rel": part, "dot": "./" + part, "updown": "x/../" + part, "middot": f"{d_}/./{b_}", "dslash": f"{d_}//{b_}"}.get(style, part)


def run_impl(spec, data):
    from sharepoint2text.parsing.extractors.ms_modern import read_docx, read_pptx, read_xlsx
    from sharepoint2text.parsing.extractors.open_office.odt_extractor import read_odt
    from sharepoint2text.parsing.extractors.open_office.odp_extractor import read_odp
    from sharepoint2text.parsing.extractors.open_office.ods_extractor import read_ods
    from sharepoint2text.parsing.extractors.open_office.odg_extractor import read_odg
    from sharepoint2text.parsing.extractors.epub_extractor import read_epub
    R = dict(docx=read_docx, pptx=read_pptx, xlsx=read_xlsx, odt=read_odt, odp=read_odp, ods=read_ods, odg=read_odg, epub=read_epub)
    res = next(R[spec["fmt"]](io.BytesIO(data)))

    def obs(i):
        b = i.get_bytes().read()
        md = dict(i.get_metadata())
        return {"sha": sha(b), "len": len(b), "ctype": i.get_content_type(), "n": md.get("image_number"),
                "unit": md.get("unit_number"), "w": md.get("width"), "h": md.get("height")}
    doc = [obs(i) for i in res.iterate_images()]
    units = [[obs(i) for i in u.get_images()] for u in res.iterate_units()]
    return doc, units


def check_spec(ctx, spec, doc, units, replay):
    """The property oracle on the implementation's output, against the generator's ground truth."""
    fmt = spec["fmt"]
    media = spec["media"]
    by_sha = {sha(m["data"]): k for k, m in enumerate(media)}
    F = lambda key, what: ctx.finding(key, f"{fmt.upper()}: {what}", replay)
    placed = [[pl for pl in u if pl["m"] is not None] for u in spec["units"]]
    placed_media = {pl["m"] for u in placed for pl in u}
    got_ids = [by_sha.get(o["sha"]) for o in doc]
    # completeness / bit-exactness, per placement (on its unit for page/slide/sheet formats)
    per_unit = fmt in UNIT_FORMATS
    attr_sub = ""
    if fmt == "xlsx":
        conventional = spec.get("sheet_files") == list(range(1, len(spec["units"]) + 1))
        attr_sub = ":conventional-part-names" if conventional else ":sheet-part-numbers-differ-from-positions"
    unit_ids = [[by_sha.get(o["sha"]) for o in u] for u in units] if per_unit else [got_ids]
    want_sets = [{pl["m"] for pl in u} for u in placed] if per_unit else [placed_media]
    for uno, u in enumerate(placed, 1):
        here = unit_ids[uno - 1] if per_unit and uno - 1 < len(unit_ids) else (got_ids if not per_unit else [])
        for pl in u:
            if pl["m"] in here:
                continue
            elsewhere = per_unit and any(pl["m"] in ids and pl["m"] not in want_sets[v] for v, ids in enumerate(unit_ids) if v != uno - 1 and v < len(want_sets))
            if elsewhere:
                F(f"{fmt}-unit-attribution{attr_sub}", f"the image placed on unit {uno} ({media[pl['m']]['part']}) is returned on another unit "
                  f"(sheet files {spec.get('sheet_files')})")
            else:
                F(f"{fmt}-image-lost:{pl['style']}" + (f":twin-{pl['twin']}" if pl.get("twin") else ""),
                  f"an embedded image referenced as {pl['target']!r} ({pl['style']} target, part "
                  f"{media[pl['m']]['part']}) is not returned" + (f" on unit {uno}" if per_unit else " by iterate_images()"))
    # soundness
    extra = {m for _, _, m in spec.get("extra_rels", [])} if fmt == "docx" else set()
    for o, mid in zip(doc, got_ids):
        if mid is None:
            why = "empty-record" if o["len"] == 0 else "foreign-bytes"
            F(f"{fmt}-phantom:{why}", f"iterate_images() returns a record whose bytes ({o['len']} bytes) are no image embedded in the "
              f"document (external link / missing member placeholder)")
        elif mid not in placed_media:
            F(f"{fmt}-phantom:unreferenced" if mid in extra else f"{fmt}-phantom:wrong-member",
              f"iterate_images() returns {media[mid]['part']}, which no drawing of the document references")
    # multiplicity: a picture is never returned more often than the document places it (per unit where there are units)
    scopes = [("the document", got_ids, [pl for u in placed for pl in u])]
    misattributed = fmt in UNIT_FORMATS and any(
        {g for g in ids if g is not None} - (want_sets[k] if k < len(want_sets) else set()) for k, ids in enumerate(unit_ids))
    if fmt == "xlsx" and spec.get("sheet_files") != list(range(1, len(spec["units"]) + 1)):
        misattributed = True                        # known: drawings found by part number (xlsx-unit-attribution:...)
    if fmt in UNIT_FORMATS and not misattributed:   # per unit, unless pictures sit on the wrong unit (reported separately)
        scopes += [(f"unit {k + 1}", unit_ids[k] if k < len(unit_ids) else [], placed[k]) for k in range(len(placed))]
    surplus = {}
    for label, ids_, pls_ in scopes:
        for m_ in {g for g in ids_ if g is not None}:
            allowed = sum(1 for pl in pls_ if pl["m"] == m_) + (sum(1 for _, _, x in spec.get("extra_rels", []) if x == m_) if fmt == "docx" else 0)
            if allowed and ids_.count(m_) > allowed:
                surplus[m_] = ids_.count(m_) - allowed
                F(f"{fmt}-image-duplicated", f"{media[m_]['part']} is placed {allowed} time(s) in {label} but returned {ids_.count(m_)} times "
                  f"(placements: {[(pl['target'], 'captioned' if pl.get('in_textbox') else 'plain') for pl in pls_ if pl['m'] == m_]})")
    # content type and declared pixel size
    for o, mid in zip(doc, got_ids):
        if mid is None:
            continue
        m = media[mid]
        if o["ctype"] != Wr.CTYPE[m["kind"]]:
            F(f"{fmt}-content-type:" + ("unknown-extension" if m.get("unknown_ext") else "misleading-extension" if m.get("misleading_ext") else m["kind"]),
              f"content type {o['ctype']!r} for a {m['kind']} image stored as {m['part']!r}")
        if (o["w"], o["h"]) != (m["w"], m["h"]):
            sub = ""
            if fmt == "xlsx":
                sub = ":onecell-or-absolute-anchor"
            F(f"{fmt}-dimensions{sub}", f"metadata width/height {(o['w'], o['h'])} but the {m['kind']} file declares {(m['w'], m['h'])} pixels")
    # numbering 1..n and document order
    nums = [o["n"] for o in doc]
    if nums != list(range(1, len(doc) + 1)):
        F(f"{fmt}-numbering", f"image numbers over iterate_images() are {nums}, not 1..{len(doc)}")
    want = [pl["m"] for u in placed for pl in u]
    real = [g for g in got_ids if g is not None and g in placed_media]
    for m_, k_ in surplus.items():                  # surplus copies are reported above, not as an ordering matter
        for _ in range(k_):
            if m_ in real:
                del real[len(real) - 1 - real[::-1].index(m_)]
    if fmt == "docx":
        # a relationship no drawing references may point at a media that is also placed: the surplus copy is the
        # unreferenced-relationship finding, not an ordering matter
        for m_ in extra & placed_media:
            rids = {pl["rid"] for pl in spec["units"][0] if pl["m"] == m_}
            while real.count(m_) > len(rids):
                F("docx-phantom:unreferenced", f"iterate_images() returns {media[m_]['part']} once more than the body references it "
                  f"(through an image relationship no drawing uses)")
                k_ = len(real) - 1 - real[::-1].index(m_)
                del real[k_]
    it = iter(want)
    if not all(any(g == w_ for w_ in it) for g in real):     # returned order must be a subsequence of the placement order
        F(f"{fmt}-order", f"images come back in order {real}, the document places them in order {want}")
    # unit attribution
    if fmt in UNIT_FORMATS:
        for uno, ids in enumerate(unit_ids, 1):
            extra_here = sorted({g for g in ids if g is not None} - (want_sets[uno - 1] if uno - 1 < len(want_sets) else set()))
            if extra_here:
                F(f"{fmt}-unit-attribution{attr_sub}", f"unit {uno} holds images {extra_here} which the document does not place on it "
                  f"(sheet files {spec.get('sheet_files')})")
            for o in units[uno - 1]:
                if o["unit"] is not None and o["unit"] != uno:
                    F(f"{fmt}-unit-number", f"image on unit {uno} carries unit_number {o['unit']}")
        flat = [(o["sha"], o["n"]) for u in units for o in u]
        if flat != [(o["sha"], o["n"]) for o in doc]:
            F(f"{fmt}-views", "concatenated unit.get_images() differs from iterate_images()")
    else:
        docset = {(o["sha"], o["n"]) for o in doc}
        for u in units:
            for o in u:
                if (o["sha"], o["n"]) not in docset:
                    F(f"{fmt}-views", "a unit image is not reachable from iterate_images()")


def spec_case(spec, doc, units):
    """Coq term for Corr.corr_pipeline: what the code is given and what it returned."""
    fmt = spec["fmt"]
    media = spec["media"]
    names = [m["part"] for m in media if m.get("present", True)]
    part_of = {sha(m["data"]): m["part"] for m in media}
    flag = lambda pl: {"one": 0, "two": 1, "abs": 2}[pl.get("anchor", "two")] if fmt == "xlsx" else (1 if pl.get("in_textbox") else 0)
    us = [[(pl["target"], flag(pl)) for pl in u] for u in spec["units"]]
    if fmt == "docx":
        by_rid = {}
        for pl in spec["units"][0]:
            by_rid.setdefault(pl["rid"], pl)
        # relationships whose r:embed occurs in the body, in order of first occurrence (tables included), then the
        # remaining image relationships (r:link pictures, unreferenced ones) in relationship order
        body_rids = []
        for pl in spec["units"][0]:
            if pl["style"] != "external" and pl["rid"] not in body_rids:
                body_rids.append(pl["rid"])
        order = body_rids + [r for r in spec["rel_order"] if r not in body_rids]
        us = [[(by_rid[r]["target"], 0) for r in order] + [(t, 0) for _, t, _ in spec["extra_rels"]]]
    if fmt == "pptx":
        # a slide's rels dict is keyed by rid: the first relationship written for a rid wins in the writer as well
        us = []
        for u in spec["units"]:
            first = {}
            for pl in u:
                first.setdefault(pl["rid"], pl["target"])
            us.append([(first[pl["rid"]], 0) for pl in u])
    if fmt == "xlsx":
        first_us = []
        for u in spec["units"]:
            first = {}
            for pl in u:
                first.setdefault(pl["rid"], pl["target"])
            first_us.append([(first[pl["rid"]], flag(pl)) for pl in u])
        # the code looks up sheet{idx+1}.xml.rels by position: unit idx gets the drawing of file idx+1
        files = spec["sheet_files"]
        us = first_us if VARIANTS.get("xlsx_by_position") else [first_us[files.index(i + 1)] for i in range(len(files))]
    base = ""
    if fmt == "epub":
        d = os.path.dirname(spec["opf"])
        base = d + "/" if d else ""
    item = lambda o: f"({coq_Z(o['n'])}, {coq_str(part_of.get(o['sha'], '' if o['len'] == 0 else '?'))})"
    got = [[item(o) for o in u] for u in units] if fmt in UNIT_FORMATS else [[item(o) for o in doc]]
    fid = FMT_ID[fmt]
    if fmt == "pptx" and VARIANTS.get("pptx_running"):
        fid = 11
    if fmt == "xlsx" and VARIANTS.get("xlsx_doc_order"):
        fid = 12
    return (f"({coq_Z(fid)}, {coq_str(base)}, {coq_list([coq_str(n) for n in names])}, "
            + coq_list([coq_list([f"({coq_str(t)}, {coq_Z(f)})" for t, f in u]) for u in us]) + ", "
            + coq_list([coq_list(u) for u in got]) + ")")


def packages(ctx):
    per = ctx.n(40, 400)
    cases, info = [], []
    ctcases, ctinfo = [], []
    idx = 0
    for fmt in FMT_ID:
        for _ in range(per):
            idx += 1
            spec = gen_spec(ctx, fmt, idx)
            try:
                data = Wr.build(spec)
            except Exception as e:  # noqa  (harness problem, not a finding)
                ctx.obligation(f"harness:writer:{fmt}", False, repr(e))
                continue
            replay = {"format": fmt, "package": data,
                      "spec": {k: v for k, v in spec.items() if k != "media"},
                      "media": [{k: (v if k != "dup_first" else v is not None) for k, v in m.items() if k != "data"} for m in spec["media"]]}
            nplaced = sum(1 for u in spec["units"] for pl in u if pl["m"] is not None)
            styles = sorted({pl["style"] for u in spec["units"] for pl in u})
            ctx.case((fmt, [(pl["target"], pl["m"]) for u in spec["units"] for pl in u], [m["part"] for m in spec["media"]]),
                     nplaced >= 1, kind=f"{fmt}:" + "+".join(styles or ["empty"]))
            try:
                doc, units = run_impl(spec, data)
            except Exception as e:  # noqa
                ctx.finding(f"{fmt}-extraction-raises:{type(e).__name__}", f"{fmt}: extraction of a generated package raised {e!r}", replay)
                continue
            check_spec(ctx, spec, doc, units, replay)
            if nplaced and sum(1 for f_, _ in ENV_CASES if f_ == fmt) < 10:
                ENV_CASES.append((fmt, data))
            if fmt in ("docx", "pptx", "xlsx"):
                by_sha_ = {sha(m["data"]): k for k, m in enumerate(spec["media"])}
                for o in doc:
                    k_ = by_sha_.get(o["sha"])
                    if k_ is None:
                        continue
                    if fmt == "xlsx":
                        name_ = spec["media"][k_]["part"]
                        base_ = name_.rsplit("/", 1)[-1]
                        raw_ = base_.rsplit(".", 1)[-1] if "." in base_ else ""
                    else:
                        tg = [pl["target"] for u in spec["units"] for pl in u if pl["m"] == k_] + \
                             [t_ for _, t_, m_ in spec.get("extra_rels", []) if m_ == k_]
                        if not tg:
                            continue
                        name_ = tg[0]
                        raw_ = name_.rsplit(".", 1)[-1]
                    sn_ = f"(Some {coq_str(Wr.CTYPE[spec['media'][k_]['kind']])})" if VARIANTS.get(f"{fmt}_ctype_from_bytes") else "None"
                    ctcases.append(f"({coq_Z(FMT_ID[fmt])}, {coq_str(name_)}, ({coq_str(raw_)}, {coq_str(raw_.lower())}), {sn_}, {coq_str(o['ctype'])})")
                    ctinfo.append((fmt, name_, o["ctype"]))
            cases.append(spec_case(spec, doc, units))
            info.append((fmt, idx, [[(pl["target"], pl["style"]) for pl in u] for u in spec["units"]]))
    ok, failing, log = coq_eval_shards(
        ctx, "pipe", "From Coq Require Import ZArith List.\nImport ListNotations.\nFrom S2T Require Import Lib.PyStr C14.Model C14.Corr.\n",
        "corr_pipeline", cases, shard=200,
        ty="Z * str * list str * list (list (str * Z)) * list (list (Z * str))")
    ctx.traces += len(cases)
    ctx.disagreements += len(failing)
    byf = {}
    for i in failing:
        byf.setdefault(info[i][0], []).append(info[i])
    ctx.obligation("correspondence:pipeline(resolution+numbering) == implementation on generated packages", ok and not failing,
                   (f"{len(failing)} disagreements: " + "; ".join(f"{k}: {len(v)} e.g. {v[0]}" for k, v in byf.items()) + " " + log)[:1800])
    okc, fc, logc = coq_eval_shards(
        ctx, "ctype", "From Coq Require Import ZArith List.\nImport ListNotations.\nFrom S2T Require Import Lib.PyStr C14.Model C14.Corr Gen.C14Tables.\n",
        "(corr_ctype [ctmap_docx; ctmap_pptx; ctmap_xlsx])", ctcases, shard=500, ty="Z * str * (str * str) * option str * str")
    ctx.traces += len(ctcases)
    ctx.disagreements += len(fc)
    ctx.obligation("correspondence:content type by extension (docx/pptx/xlsx) == implementation", okc and not fc,
                   (f"{len(fc)} disagreements, first: {ctinfo[fc[0]] if fc else ''} " + logc)[:1000])
    ctx.extra["package_cases"] = len(cases)


# ------------------------------------------------------------------------------------ generated PDFs
def pdfs(ctx):
    """Hand-written PDFs (c14_writers.build_pdf): N pages drawing DCTDecode image XObjects, one XObject shared by
    several pages, several on one page, pages without images.  Oracle: every page's images are the XObjects the page
    draws, in content-stream order, each attributed to ITS page, bytes identical to the embedded JPEG."""
    from sharepoint2text.parsing.extractors.pdf.pdf_extractor import read_pdf
    rng = ctx.rng
    cases, info = [], []
    ct_cases, ct_info = [], []
    for idx in range(ctx.n(30, 250)):
        nimg = rng.randint(1, 4)
        images = []
        for i in range(nimg):
            w, h = rng.randint(1, 300), rng.randint(1, 300)
            # how the XObject stores the picture: a single /DCTDecode name, a one-element array, filter chains with
            # Flate / ASCIIHex / ASCII85 / RunLength stages in front of the JPEG, /Filter as an indirect reference;
            # "flate-raw" = 8-bit gray samples behind /FlateDecode (no embedded file); LZW stages by the harness encoder;
            # JPX, CCITT, JBIG2 codecs are not sampled (no encoder; their bytes would pass through like DCT)
            enc = rng.choice(["dct"] * 4 + [e for e in Wr.PDF_ENCODINGS if e != "dct"])
            if enc == "flate-raw":
                w, h = rng.randint(1, 12), rng.randint(1, 12)
                payload = bytes((idx + i + 3 * k) & 0xFF for k in range(w * h))
            else:
                payload = Wr.jpeg(w, h, idx * 5 + i, app_segments=rng.randint(0, 2)) + b"#pdf%d.%d" % (idx, i)
            images.append({"data": payload, "w": w, "h": h, "enc": enc, "filter_indirect": rng.random() < 0.15})
        npages = rng.randint(1, 5)
        pages = [[rng.randrange(nimg) for _ in range(rng.choice([0, 1, 1, 2, 3]))] for _ in range(npages)]
        if rng.random() < 0.5:                         # a logo: one XObject on every page
            logo = rng.randrange(nimg)
            pages = [[logo] + p if rng.random() < 0.9 else p for p in pages]
        data = Wr.build_pdf(images, pages)
        if any(pages) and sum(1 for f_, _ in ENV_CASES if f_ == "pdf") < 12:
            ENV_CASES.append(("pdf", data))
        by_sha = {sha(m["data"]): i for i, m in enumerate(images)}
        replay = {"format": "pdf", "package": data, "pages": pages,
                  "images": [{"w": m["w"], "h": m["h"], "sha256": sha(m["data"]), "stored_as": m["enc"],
                              "filter_is_indirect_reference": m["filter_indirect"]} for m in images]}
        for m in images:
            ctx.count("pdf-image:" + m["enc"] + ("/indirect" if m["filter_indirect"] else ""))
        ctx.case(("pdf", pages, [(m["w"], m["h"], m["enc"], m["filter_indirect"]) for m in images]), any(pages), kind="pdf:" + ("shared" if any(
            i in q for k, p_ in enumerate(pages) for i in p_ for q in pages[k + 1:]) else "plain"))
        F = lambda key, what: ctx.finding(key, "PDF: " + what, replay)
        try:
            res = next(read_pdf(io.BytesIO(data)))
            units = [[(i.get_bytes().read(), i.get_content_type(), dict(i.get_metadata())) for i in u.get_images()] for u in res.iterate_units()]
            doc = [(i.get_bytes().read(), dict(i.get_metadata())) for i in res.iterate_images()]
        except Exception as e:  # noqa
            F(f"pdf-extraction-raises:{type(e).__name__}", f"extraction of a generated PDF raised {e!r}")
            continue
        if len(units) != len(pages):
            F("pdf-page-count", f"{len(units)} units for {len(pages)} pages")
            continue
        for k, (want, got) in enumerate(zip(pages, units), 1):
            ids = [by_sha.get(sha(b)) for b, _, _ in got]
            if ids != want:
                F("pdf-page-images", f"page {k} draws image XObjects {want} (content-stream order) but its unit returns {ids} "
                  "(None = bytes differ from every embedded JPEG)")
                continue
            for (b, ct, md), i in zip(got, want):
                if md.get("unit_number") != k:
                    F("pdf-unit-number", f"an image drawn on page {k} is attributed to page {md.get('unit_number')} "
                      f"(XObject Im{i + 1}, pages drawing it: {[q + 1 for q, p_ in enumerate(pages) if i in p_]})")
                im = images[i]
                if not im["filter_indirect"]:
                    fl = ["/" + f for f in Wr.PDF_ENCODINGS[im["enc"]]]
                    ct_cases.append(f"({coq_list([coq_str(f) for f in fl])}, {coq_str(ct)})")
                    ct_info.append((fl, ct))
                chain = "[" + " ".join("/" + f for f in Wr.PDF_ENCODINGS[im["enc"]]) + "]"
                if im["enc"] == "flate-raw":
                    if ct in ("image/png", "image/jpeg", "image/gif", "image/bmp", "image/tiff"):
                        F("pdf-content-type:raw-samples", f"{len(b)} bytes of raw gray samples (XObject /Filter /FlateDecode) are returned "
                          f"with content type {ct!r}; the bytes are no file of that type")
                elif ct != "image/jpeg":
                    ind = im["filter_indirect"] and im["enc"] != "dct"
                    F(f"pdf-content-type:{'indirect-filter-array' if ind else im['enc']}:{ct}",
                      f"content type {ct!r} for an embedded JPEG stored with /Filter {chain}"
                      + (" written as an indirect reference" if im["filter_indirect"] else "") + " (bytes are returned bit-exact)")
                if (md.get("width"), md.get("height")) != (images[i]["w"], images[i]["h"]):
                    F("pdf-dimensions", f"width/height {(md.get('width'), md.get('height'))}, the XObject declares {(images[i]['w'], images[i]['h'])}")
            pn = [md.get("image_number") for _, _, md in got]
            if pn and pn != list(range(pn[0], pn[0] + len(pn))) or (pn and pn[0] < 1):
                F("pdf-page-numbering", f"image numbers on page {k} are {[md.get('image_number') for _, _, md in got]}")
        flat = [(sha(b), md.get("image_number"), md.get("unit_number")) for u in units for b, _, md in u]
        if flat != [(sha(b), md.get("image_number"), md.get("unit_number")) for b, md in doc]:
            F("pdf-views", "concatenated unit.get_images() differs from iterate_images()")
        nums = [md.get("image_number") for _, md in doc]
        if nums != list(range(1, len(nums) + 1)):
            F("pdf-numbering", f"image numbers over iterate_images() are {nums[:12]}, not 1..{len(nums)} (restart on every page)")
        names = [f"Im{i + 1}" for i in range(len(images))]
        item = lambda b, md: f"({coq_Z(md.get('image_number') or 0)}, {coq_str('Im%d' % (by_sha[sha(b)] + 1) if sha(b) in by_sha else '?')})"
        cases.append(f"({coq_Z(18 if VARIANTS.get('pdf_running') else 8)}, {coq_str('')}, {coq_list([coq_str(n) for n in names])}, "
                     + coq_list([coq_list([f"({coq_str('Im%d' % (i + 1))}, {coq_Z(0)})" for i in p_]) for p_ in pages]) + ", "
                     + coq_list([coq_list([item(b, md) for b, _, md in u]) for u in units]) + ")")
        info.append(pages)
    ok, failing, log = coq_eval_shards(
        ctx, "pdf", "From Coq Require Import ZArith List.\nImport ListNotations.\nFrom S2T Require Import Lib.PyStr C14.Model C14.Corr.\n",
        "corr_pipeline", cases, shard=250, ty="Z * str * list str * list (list (str * Z)) * list (list (Z * str))")
    ctx.traces += len(cases)
    ctx.disagreements += len(failing)
    ctx.obligation("correspondence:pdf pages (XObjects drawn, per-page numbering) == implementation on generated PDFs", ok and not failing,
                   (f"{len(failing)} disagreements, first pages: {info[failing[0]] if failing else ''} " + log)[:1200])
    ok2, f2, log2 = coq_eval_shards(
        ctx, "pdfct", "From Coq Require Import List.\nImport ListNotations.\nFrom S2T Require Import Lib.PyStr C14.Model C14.Corr Gen.C14Tables.\n",
        "(corr_pdf_ctype pdf_ctmap)", ct_cases, shard=500, ty="list str * str")
    ctx.traces += len(ct_cases)
    ctx.disagreements += len(f2)
    ctx.obligation("correspondence:pdf content type == table[last stage of the /Filter chain]", ok2 and not f2,
                   (f"{len(f2)} disagreements, first: {ct_info[f2[0]] if f2 else ''} " + log2)[:1000])
    ctx.extra["pdf_cases"] = len(cases)


# ------------------------------------------------------------------------------------ legacy BLIP images (XLS)
TYPE_ID = {"image/png": 0, "image/jpeg": 1, "image/gif": 2, "image/bmp": 3, "image/tiff": 4, "image/x-emf": 5, "image/x-wmf": 6}


def legacy_xls(ctx):
    """Workbook streams made of WELL-FORMED back-to-back BLIP records (so the walk is the identity on them: the
    generator knows the slices; hostile streams are C01's business and run watchdogged there) in a CFB container.
    Oracle: every embedded PNG/JPEG/GIF/BMP is returned once, bit-exact, with its type, numbered 1..n in stream order;
    a DIB comes back as a BMP file whose tail is the DIB.  Correspondence: Model.xls_stage vs the implementation."""
    import struct
    from props import c08_writers
    from sharepoint2text.parsing.extractors.ms_legacy import xls_extractor as xe
    from sharepoint2text.parsing.extractors.util import image_utils as iu
    rng = ctx.rng
    zb = Wr_zbytes
    oz = lambda v: "None" if v is None else f"(Some {coq_Z(v)})"
    # detect_image_type alone, on the header stream of the sniffer correspondence
    dcases = []
    for d, _ in gen_headers(ctx, ctx.n(250, 2500)):
        r = iu.detect_image_type(d)
        dcases.append(f"({zb(d)}, {coq_Z(TYPE_ID.get(r[1], 99) if r else -1)})")
    okd, fd, logd = coq_eval_shards(ctx, "detect", "From Coq Require Import ZArith List.\nImport ListNotations.\n"
                                    "From S2T Require Import Lib.PyStr C01.Loops C14.Model C14.Corr.\n", "corr_detect", dcases, shard=250, ty="list Z * Z")
    ctx.traces += len(dcases)
    ctx.obligation("correspondence:detect_type == image_utils.detect_image_type", okd and not fd, (f"{len(fd)} disagreements " + logd)[:800])
    cases, info = [], []
    for idx in range(ctx.n(60, 500)):
        recs, truth = [], []                     # truth: (kind, bytes expected back, is_dib)
        pool = []
        for j in range(rng.randint(0, 5)):
            r = rng.random()
            if r < 0.6 or (r < 0.7 and not pool):
                kind = rng.choice(["png", "jpeg", "gif", "bmp"])
                w, h = rng.randint(1, 40), rng.randint(1, 40)
                img = (Wr.jpeg(w, h, idx + j) if kind == "jpeg" else Wr.MAKERS[kind](min(w, 4), min(h, 4), idx + j)) + b"#x%d.%d" % (idx, j)
                rt = {"png": 0xF01E, "jpeg": 0xF01D, "gif": 0xF01E, "bmp": 0xF01F}[kind]
                pool.append((rt, img))
            elif r < 0.7:
                rt, img = rng.choice(pool)        # the same picture again (shared): deduplicated by sha1
            elif r < 0.8:
                dib = Wr.bmp(rng.randint(1, 5), rng.randint(1, 5), idx + j)[14:]
                rt, img = 0xF01F, dib
            elif r < 0.9:
                rt, img = rng.choice([0xF01A, 0xF01B]), b"\x01\x00\x00\x00" + bytes(rng.randrange(256) for _ in range(rng.randint(8, 30)))
            else:
                rt, img = rng.choice([0xF01C, 0xF029, 0xF01E]), bytes(rng.randrange(1, 255) for _ in range(rng.randint(1, 20)))
            inst, hdr = rng.choice([(0x6E0, 17), (0x6E1, 33), (0x46A, 17), (0x46B, 33), (0x7A8, 17)])
            payload = bytes(rng.randrange(256) for _ in range(hdr)) + img
            recs.append(struct.pack("<HHI", (inst << 4), rt, len(payload)) + payload)
            truth.append((rt, img))
        stream = b"".join(recs)
        ole = c08_writers.cfb([("Workbook", stream)])
        try:
            imgs = xe._extract_images_from_workbook(io.BytesIO(ole))
        except Exception as e:  # noqa
            ctx.finding(f"xls-images-raise:{type(e).__name__}", f"XLS: _extract_images_from_workbook raised {e!r} on well-formed BLIP records",
                        {"workbook_stream": stream})
            continue
        ctx.case(("xls-blip", stream), bool(truth), kind="xls-blip:" + str(len(truth)))
        replay = {"format": "xls (CFB with a Workbook stream of BLIP records)", "package": ole, "workbook_stream": stream}
        got = [(i.image_index, i.content_type, bytes(i.data), i.width, i.height) for i in imgs]
        # property oracle
        want, seen_ = [], set()
        for rt, img in truth:
            k_ = next((k for k, s_ in (("png", b"\x89PNG"), ("jpeg", b"\xff\xd8\xff"), ("gif", b"GIF8"), ("bmp", b"BM")) if img.startswith(s_)), None)
            if k_ and len(img) >= 8 and sha(img) not in seen_:
                seen_.add(sha(img))
                want.append((Wr.CTYPE[k_], img))
        got_raster = [(ct, b) for _, ct, b, _, _ in got if ct in ("image/png", "image/jpeg", "image/gif") or (ct == "image/bmp" and (ct, b) in want)]
        if got_raster != want:
            ctx.finding("xls-blip-images", f"XLS: the Workbook stream embeds {[(c, len(b)) for c, b in want]} (type, size; stream order, "
                        f"shared pictures once) but {[(c, len(b)) for c, b in got_raster]} come back", replay)
        if [n for n, *_ in got] != list(range(1, len(got) + 1)):
            ctx.finding("xls-blip-numbering", f"XLS: image numbers {[n for n, *_ in got]}", replay)
        for rt, img in truth:                     # a DIB record comes back as a BMP file ending in the DIB
            if rt == 0xF01F and not img.startswith(b"BM") and len(img) >= 40 and not any(b.endswith(img) and b[:2] == b"BM" and len(b) == len(img) + 14 for _, _, b, _, _ in got):
                ctx.finding("xls-blip-dib", "XLS: a DIB BLIP is not returned as BMP header + the DIB bytes", replay)
        cases.append("(" + coq_list([f"({coq_Z(rt)}, {zb(img)})" for rt, img in truth]) + ", "
                     + coq_list([f"({coq_Z(n)}, {coq_Z(TYPE_ID.get(ct, 99))}, {zb(b)}, ({oz(w)}, {oz(h)}))" for n, ct, b, w, h in got]) + ")")
        info.append(stream.hex()[:80])
    ok, failing, log = coq_eval_shards(ctx, "xlsstage", "From Coq Require Import ZArith List.\nImport ListNotations.\n"
                                       "From S2T Require Import Lib.PyStr C01.Loops C14.Model C14.Corr.\n", "corr_xls", cases, shard=150,
                                       ty="list (Z * list Z) * list (Z * Z * list Z * (option Z * option Z))")
    ctx.traces += len(cases)
    ctx.disagreements += len(failing)
    ctx.obligation("correspondence:xls_stage (detect, DIB wrap, sha1 dedup, numbering, sizes) == xls_extractor._extract_images_from_workbook",
                   ok and not failing, (f"{len(failing)} disagreements, first stream: {info[failing[0]] if failing else ''} " + log)[:1000])
    ctx.extra["xls_blip_cases"] = len(cases)


# ------------------------------------------------------------------------------------ fixtures: view laws
def canon_table(tb):
    """cells compared as text (XlsUnit stringifies the cells of the sheet table it copies)"""
    return repr([[None if c is None else str(c) for c in row] for row in tb])


def fixtures(ctx):
    import sharepoint2text
    root = REPO / "sharepoint2text" / "tests" / "resources"
    files = sorted(p for p in root.rglob("*") if p.is_file())
    n = 0
    for p in files:
        rel = str(p.relative_to(root))
        try:
            results = list(sharepoint2text.read_file(str(p)))
        except Exception:  # noqa  (unsupported / encrypted fixtures are other properties' business)
            continue
        for r in results:
            n += 1
            try:
                imgs = [(sha(i.get_bytes().read()), dict(i.get_metadata()).get("image_number")) for i in r.iterate_images()]
                tabs = [canon_table(t.get_table()) for t in r.iterate_tables()]
                units = list(r.iterate_units())
                uimgs = [[(sha(i.get_bytes().read()), dict(i.get_metadata()).get("image_number")) for i in u.get_images()] for u in units]
                utabs = [[canon_table(t.get_table()) for t in u.get_tables()] for u in units]
            except Exception as e:  # noqa
                ctx.finding(f"fixture-views-raise:{rel}", f"iterating images/tables of fixture {rel} raised {e!r}", {"fixture": rel})
                continue
            ext = p.suffix.lower()
            ctx.case(("fixture", rel), bool(imgs or tabs), kind="fixture:" + ext)
            for k, (ui, ut) in enumerate(zip(uimgs, utabs), 1):
                if any(x not in imgs for x in ui):
                    ctx.finding(f"views-unit-image-not-in-document:{ext}", f"fixture {rel}: an image of unit {k} is not reachable from iterate_images()", {"fixture": rel})
                if any(x not in tabs for x in ut):
                    ctx.finding(f"views-unit-table-not-in-document:{ext}", f"fixture {rel}: a table of unit {k} is not reachable from iterate_tables()", {"fixture": rel})
            if ext in COINCIDE_EXT:
                if [x for u in uimgs for x in u] != imgs:
                    ctx.finding(f"views-images-differ:{ext}", f"fixture {rel}: concatenated unit images differ from iterate_images()", {"fixture": rel})
                if [x for u in utabs for x in u] != tabs:
                    key = ("xlsx-views-empty-sheet-table" if ext in (".xlsx", ".xlsm") else
                           "ods-views-empty-sheet-table" if ext == ".ods" and [x for u in utabs for x in u] == [x for x in tabs if x != "[]"]
                           else f"views-tables-differ:{ext}")
                    ctx.finding(key, f"fixture {rel}: concatenated unit tables ({sum(map(len, utabs))}) differ from iterate_tables() ({len(tabs)})", {"fixture": rel})
            nums = [k for _, k in imgs]
            if nums != list(range(1, len(nums) + 1)):
                ctx.finding(f"fixture-numbering:{ext}", f"fixture {rel}: image numbers over iterate_images() are {nums[:12]}, not 1..{len(nums)}", {"fixture": rel})
    ctx.extra["fixture_results"] = n
    # the xlsx table-view deviation on a generated workbook with an empty sheet (witness of C14_xlsx_views_tables_refuted)
    from sharepoint2text.parsing.extractors.data_types import XlsxContent, XlsxSheet
    c = XlsxContent(sheets=[XlsxSheet(name="empty", data=[], text="", images=[])])
    dt = len(list(c.iterate_tables()))
    ut = sum(len(u.get_tables()) for u in c.iterate_units())
    ctx.case(("xlsx-empty-sheet",), True, kind="views:xlsx-empty-sheet")
    if dt != ut:
        ctx.finding("xlsx-views-empty-sheet-table", f"XLSX: an empty sheet is a table of iterate_tables() ({dt}) but of no unit ({ut})",
                    {"repro": "XlsxContent(sheets=[XlsxSheet(name='empty', data=[], text='', images=[])])"})


# ------------------------------------------------------------------------------------ entry
def run(ctx):
    logging.disable(logging.CRITICAL)
    ctx.rule = ("generated packages (8 formats) embedding 0..4 PNG/JPEG/GIF/BMP files referenced by relative, parent-relative, "
                "absolute, ./, x/../ targets, shared, missing and external; + resolver targets from a dot-segment grammar; + "
                "generated / truncated / mutated image headers; + all fixtures.  non-trivial = package with >= 1 placed image, "
                "target with a dot segment or slash, header of >= 10 bytes, fixture with an image or table")
    ctx.trusted += [
        "G-dump: tools/props/c14.py prints _JPEG_SOF_MARKERS/_CONTENT_TYPE_MAP of the three ms_modern extractors, the byte-string "
        "constants of _get_image_pixel_dimensions (co_consts), ANCHOR_TYPES, and which call sites call resolve_part_name (ast)",
        "the JPEG walks are the C01 models (coq/C01/Loops.v) — imported, not duplicated",
        "oracles: zipfile (namelist membership and member bytes), ElementTree parsing, mimetypes.guess_type (ODF content types), "
        "openpyxl (sheet names) — recorded/observed in the correspondence, opaque payload type in the theorems",
        "modelled by hand, tied by differential runs: resolve_part_name, the extractor-level resolvers, the eight image pipelines "
        "(Corr.pipeline), the sniffers; PDF: pypdf lists and decodes the XObjects (oracle) — page attribution, order, per-page "
        "numbering and byte identity are checked on generated PDFs (c14_writers.build_pdf, DCTDecode pass-through), correspondence-only; "
        "RTF image handling is NOT modelled (fixtures only)",
        "X: fail-closed AST match of util/zip_context.py accessors (exact-name member lookup, no subclass override)",
        "model variants: five probe inputs tell the harness which proposed repairs the tree contains (running numbers, XLSX "
        "anchors in document order / sheets by position, content type from bytes); the selected variant is validated by the "
        "correspondence on every case, the property oracle does not depend on it (evidence: model_variants_selected_by_probes)",
        "NOT covered: PDF codecs JPX/CCITT/JBIG2 (no encoder in the harness; their bytes pass through like DCT), raw-sample images are "
        "only labelled-checked; mimetypes.guess_type and hashlib.sha1 are oracles; RTF \\pict and the legacy DOC/PPT image walks (PPT shares the XLS image stage, on another record walk) "
        "are exercised by fixtures only; ODF/XLSX display-size vs pixel-size semantics are recorded as open findings, not modelled",
        "testing infrastructure: tools/props/c14_writers.py (image files, OOXML/ODF/EPUB package writers)",
    ]
    ctx.assumptions += ["media bytes are opaque values (type parameter) in the numbering/pass-through theorems",
                        "document order of PPTX/ODP shapes = the position order the extractors sort by (the generator lays shapes out top to bottom)"]
    gen_tables(ctx)
    ctx.prove("C14/Props.v", ["C14/ProofsPath.vo", "C14/ProofsSniff.vo", "C14/ProofsNum.vo", "C14/ProofsPass.vo", "C14/ProofsLegacy.vo"], expected=[
        "C14_detect_type_wellformed", "C14_wrap_dib_passthrough", "C14_xls_images",
        "C14_odt_numbers", "C14_odt_no_second_copy", "C14_odg_numbers", "C14_odt_order_refuted", "C14_odt_order_partial", "C14_odf_placeholders_refuted",
        "C14_ooxml_content_type", "C14_xlsx_content_type", "C14_content_type_unknown_extension_refuted", "C14_content_type_bytes_fallback",
        "C14_resolve_correct", "C14_resolve_relative", "C14_resolve_parent", "C14_resolve_absolute", "C14_resolve_dot_segments",
        "C14_resolve_names_a_part", "C14_sniff_total", "C14_sniff_png", "C14_sniff_gif", "C14_sniff_bmp", "C14_sniff_jpeg",
        "C14_image_numbers", "C14_running_numbers", "C14_restart_numbers_refuted", "C14_ods_numbers_refuted",
        "C14_views_coincide", "C14_unit_content_in_document", "C14_xlsx_views", "C14_docx_unit_images_in_document",
        "C14_odf_href_legacy_refuted", "C14_odf_href_legacy_partial", "C14_odf_href_resolved", "C14_sniff_jpeg_util", "C14_member_lookup_exact", "C14_zip_read_by_name", "C14_pdf_codec_is_last_stage"])
    ctx.prove("C14/Inst.v", ["Gen/C14Tables.vo", "C14/Corr.vo"], expected=[
        "C14_sof_markers_match", "C14_content_types_match", "C14_signatures_match", "C14_anchor_order", "C14_pdf_dct_is_jpeg", "C14_content_type_by_extension"])
    ctx.prove("C14/InstSites.v", ["Gen/C14Tables.vo"], expected=["C14_resolver_sites", "C14_zip_lookup_exact", "C14_sniffer_sites"])
    probe_variants(ctx)
    corr_resolve(ctx)
    corr_sniff(ctx)
    ENV_CASES.clear()
    packages(ctx)
    pdfs(ctx)
    env_dimension(ctx)
    legacy_xls(ctx)
    fixtures(ctx)


META = {
    "technique": "Coq proof (part-name resolution against a relational RFC-3986 spec, PNG/GIF/BMP/JPEG header sniffers with "
                 "explicit fuel, numbering counters and unit/document views over opaque payloads) + kernel-decided obligations "
                 "on tables/call sites generated from the live modules + vm_compute differential correspondence on generated "
                 "packages, image headers and resolver targets",
    "design_ref": "DESIGN.md §5 C14",
    "level_text": "Kernel-checked: resolve_part_name computes exactly the part an OPC/EPUB reference designates (relational spec; "
                  "relative, ../, absolute, ./ and x/../ equations; result is a part name); the ooxml and util sniffers are total and "
                  "return the declared size on every well-formed PNG/GIF/BMP header and every JPEG made of complete segments; "
                  "found-only and running counters number 1..n in document order and pass the payload through untouched; unit and "
                  "document views coincide for page/slide/sheet formats (XLSX tables: refuted on empty sheets, partial otherwise). "
                  "Refuted with witnesses: legacy pptx/docx/xlsx/epub resolvers, legacy verbatim ODF hrefs and ODS counter gap, per-slide restart. "
                  "Validated only (differential): the eight per-format pipelines, content types, fixtures; PDF/RTF images not modelled.",
    "level_note": "Not modelled (third party / no encoder): pypdf stream decoding, JPX/CCITT/JBIG2 codecs, RTF and legacy DOC/PPT images (fixtures only; XLS BLIP stage is modelled on C01's record walk). "
                  "Trusted: Coq kernel+VM; the G-dump/AST site scan; hand-written models validated differentially; zipfile, "
                  "ElementTree, mimetypes, openpyxl, pypdf as oracles; the package writers of the harness.",
}
