"""C12 amplifier families named in the property text: small inputs built to demand far more memory / time than their
(uncompressed) size.  Each generator returns (key, file_name, bytes, what).  The measurements made with them are
evidence and failing-input search, never proof."""
from __future__ import annotations

import io
import struct
import zipfile

import common

RES = common.REPO / "sharepoint2text" / "tests" / "resources"


def _rezip(data: bytes, edit) -> bytes:
    zin = zipfile.ZipFile(io.BytesIO(data))
    buf = io.BytesIO()
    with zipfile.ZipFile(buf, "w", zipfile.ZIP_DEFLATED) as z:
        for n in zin.namelist():
            d = edit(n, zin.read(n))
            if d is not None:
                z.writestr(n, d)
    return buf.getvalue()


def _xlsx(sheet_xml: str) -> bytes:
    ct = ('<?xml version="1.0"?><Types xmlns="http://schemas.openxmlformats.org/package/2006/content-types">'
          '<Default Extension="rels" ContentType="application/vnd.openxmlformats-package.relationships+xml"/>'
          '<Default Extension="xml" ContentType="application/xml"/>'
          '<Override PartName="/xl/workbook.xml" ContentType="application/vnd.openxmlformats-officedocument.spreadsheetml.sheet.main+xml"/>'
          '<Override PartName="/xl/worksheets/sheet1.xml" ContentType="application/vnd.openxmlformats-officedocument.spreadsheetml.worksheet+xml"/>'
          '</Types>')
    rels = ('<?xml version="1.0"?><Relationships xmlns="http://schemas.openxmlformats.org/package/2006/relationships">'
            '<Relationship Id="rId1" Type="http://schemas.openxmlformats.org/officeDocument/2006/relationships/officeDocument" '
            'Target="xl/workbook.xml"/></Relationships>')
    wb = ('<?xml version="1.0"?><workbook xmlns="http://schemas.openxmlformats.org/spreadsheetml/2006/main" '
          'xmlns:r="http://schemas.openxmlformats.org/officeDocument/2006/relationships"><sheets>'
          '<sheet name="S" sheetId="1" r:id="rId1"/></sheets></workbook>')
    wbrels = ('<?xml version="1.0"?><Relationships xmlns="http://schemas.openxmlformats.org/package/2006/relationships">'
              '<Relationship Id="rId1" Type="http://schemas.openxmlformats.org/officeDocument/2006/relationships/worksheet" '
              'Target="worksheets/sheet1.xml"/></Relationships>')
    buf = io.BytesIO()
    with zipfile.ZipFile(buf, "w", zipfile.ZIP_DEFLATED) as z:
        z.writestr("[Content_Types].xml", ct)
        z.writestr("_rels/.rels", rels)
        z.writestr("xl/workbook.xml", wb)
        z.writestr("xl/_rels/workbook.xml.rels", wbrels)
        z.writestr("xl/worksheets/sheet1.xml", sheet_xml)
    return buf.getvalue()


_SH = '<?xml version="1.0"?><worksheet xmlns="http://schemas.openxmlformats.org/spreadsheetml/2006/main">'


def xlsx_declared_dimension():
    xml = (_SH + '<dimension ref="A1:XFD1048576"/><sheetData><row r="1"><c r="A1" t="inlineStr"><is><t>h</t></is></c></row>'
           '<row r="2"><c r="A2" t="inlineStr"><is><t>v</t></is></c></row></sheetData></worksheet>')
    return ("xlsx-declared-dimension", "x.xlsx", _xlsx(xml), "XLSX: <dimension ref=A1:XFD1048576> over two one-cell rows")


def xlsx_far_cell(rows: int):
    xml = (_SH + f'<sheetData><row r="1"><c r="A1" t="inlineStr"><is><t>h</t></is></c></row>'
           f'<row r="{rows}"><c r="A{rows}" t="inlineStr"><is><t>v</t></is></c></row></sheetData></worksheet>')
    return ("xlsx-far-row", "x.xlsx", _xlsx(xml), f"XLSX: two cells, the second one in row {rows}")


def xlsx_far_column():
    xml = (_SH + '<sheetData><row r="1"><c r="A1" t="inlineStr"><is><t>h</t></is></c><c r="XFD1" t="inlineStr"><is><t>w</t></is></c></row>'
           + "".join(f'<row r="{i}"><c r="A{i}" t="inlineStr"><is><t>v</t></is></c></row>' for i in range(2, 400))
           + '</sheetData></worksheet>')
    return ("xlsx-far-column", "x.xlsx", _xlsx(xml), "XLSX: 400 one-cell rows, one header cell in column XFD (16384)")


def _docx_with_document(doc_xml: bytes) -> bytes:
    src = sorted((RES / "modern_ms").glob("*.docx"), key=lambda p: p.stat().st_size)[0].read_bytes()
    return _rezip(src, lambda n, d: doc_xml if n == "word/document.xml" else d)


_W = b'xmlns:w="http://schemas.openxmlformats.org/wordprocessingml/2006/main"'


def docx_entities():
    ents = b"".join(b'<!ENTITY l%d "%s">' % (i, b"&l%d;" % (i - 1) * 10) for i in range(1, 10))
    xml = (b'<?xml version="1.0"?><!DOCTYPE w:document [<!ENTITY l0 "lol">' + ents + b']><w:document ' + _W +
           b'><w:body><w:p><w:r><w:t>&l9;</w:t></w:r></w:p></w:body></w:document>')
    return ("docx-entity-expansion", "x.docx", _docx_with_document(xml), "DOCX: billion-laughs DTD in word/document.xml")


def docx_deep(depth: int):
    xml = (b'<?xml version="1.0"?><w:document ' + _W + b'><w:body>' + b"<w:tbl><w:tr><w:tc>" * depth + b"<w:p><w:r><w:t>x</w:t></w:r></w:p>"
           + b"</w:tc></w:tr></w:tbl>" * depth + b'</w:body></w:document>')
    return (f"docx-deep-nesting", "x.docx", _docx_with_document(xml), f"DOCX: tables nested {depth} deep")


def odt_deep(depth: int):
    ns = ('xmlns:office="urn:oasis:names:tc:opendocument:xmlns:office:1.0" xmlns:text="urn:oasis:names:tc:opendocument:xmlns:text:1.0"')
    xml = (f'<?xml version="1.0"?><office:document-content {ns}><office:body><office:text>' + "<text:list><text:list-item>" * depth
           + "<text:p>x</text:p>" + "</text:list-item></text:list>" * depth + '</office:text></office:body></office:document-content>')
    buf = io.BytesIO()
    with zipfile.ZipFile(buf, "w", zipfile.ZIP_DEFLATED) as z:
        z.writestr("mimetype", "application/vnd.oasis.opendocument.text")
        z.writestr("content.xml", xml)
        z.writestr("META-INF/manifest.xml", '<?xml version="1.0"?><manifest:manifest xmlns:manifest="urn:oasis:names:tc:opendocument:xmlns:manifest:1.0"/>')
    return ("odt-deep-nesting", "x.odt", buf.getvalue(), f"ODT: lists nested {depth} deep")


def html_deep(depth: int):
    return ("html-deep-nesting", "x.html", b"<html><body>" + b"<div>" * depth + b"x" + b"</div>" * depth + b"</body></html>",
            f"HTML: <div> nested {depth} deep")


def html_deep_tables(depth: int):
    return ("html-deep-tables", "x.html", b"<html><body>" + b"<table><tr><td>" * depth + b"x" + b"</td></tr></table>" * depth + b"</body></html>",
            f"HTML: tables nested {depth} deep")


def rtf_deep(depth: int):
    return ("rtf-deep-groups", "x.rtf", b"{\\rtf1 " + b"{" * depth + b"x" + b"}" * depth + b"}", f"RTF: groups nested {depth} deep")


def rtf_unclosed(depth: int):
    return ("rtf-unclosed-groups", "x.rtf", b"{\\rtf1 " + b"{\\b " * depth + b"x", f"RTF: {depth} groups opened and never closed")


def ole_property_vector(kind: str):
    """A legacy Office fixture whose SummaryInformation stream has its first property turned into a VT_VECTOR of an
    element type olefile does not decode (size 0 per element) with count 0xFFFFFFFF: the 'one flipped byte' of the
    property text (the loop in olefile._parse_property then runs `count` times, appending None)."""
    from props import c08_writers as W
    src = {"doc": "legacy_ms", "ppt": "legacy_ms", "xls": "legacy_ms"}[kind]
    cands = sorted((RES / src).glob(f"*.{kind}"), key=lambda p: p.stat().st_size)
    for p in cands:
        data = p.read_bytes()
        try:
            s = W.ole_read_stream(data, "\x05SummaryInformation")
            sec = struct.unpack_from("<I", s, 44)[0]
            nprops = struct.unpack_from("<I", s, sec + 4)[0]
            if nprops < 1:
                continue
            off0 = struct.unpack_from("<I", s, sec + 8 + 4)[0]          # offset of the first property within the section
            pos = sec + off0
            if pos + 8 > len(s):
                continue
            patched = W.ole_patch(data, "\x05SummaryInformation", [(pos, struct.pack("<II", 0x1000 | 0x0001, 0xFFFFFFFF))])
            return (f"ole-property-vector-count:{kind}", f"x.{kind}", patched,
                    f"{kind.upper()}: first SummaryInformation property retyped VT_VECTOR|VT_NULL with count 0xFFFFFFFF (8 bytes changed in {p.name})")
        except Exception:  # noqa
            continue
    return None


def pdf_page_tree_loop():
    objs = [b"<< /Type /Catalog /Pages 2 0 R >>",
            b"<< /Type /Pages /Kids [3 0 R 2 0 R] /Count 2 >>",
            b"<< /Type /Page /Parent 2 0 R /MediaBox [0 0 200 200] /Contents 4 0 R /Resources << >> >>",
            b"<< /Length 9 >>\nstream\nBT ET    \nendstream"]
    return ("pdf-page-tree-loop", "x.pdf", _pdf(objs), "PDF: /Pages node lists itself among its /Kids")


def pdf_outline_loop():
    objs = [b"<< /Type /Catalog /Pages 2 0 R /Outlines 5 0 R >>",
            b"<< /Type /Pages /Kids [3 0 R] /Count 1 >>",
            b"<< /Type /Page /Parent 2 0 R /MediaBox [0 0 200 200] /Contents 4 0 R /Resources << >> >>",
            b"<< /Length 9 >>\nstream\nBT ET    \nendstream",
            b"<< /Type /Outlines /First 6 0 R /Last 6 0 R /Count 1 >>",
            b"<< /Title (a) /Parent 5 0 R /Next 6 0 R /Dest [3 0 R /Fit] >>"]
    return ("pdf-outline-loop", "x.pdf", _pdf(objs), "PDF: outline item whose /Next is itself")


def pdf_xobject_recursion():
    objs = [b"<< /Type /Catalog /Pages 2 0 R >>",
            b"<< /Type /Pages /Kids [3 0 R] /Count 1 >>",
            b"<< /Type /Page /Parent 2 0 R /MediaBox [0 0 200 200] /Contents 4 0 R /Resources << /XObject << /F 5 0 R >> >> >>",
            b"<< /Length 5 >>\nstream\n/F Do\nendstream",
            b"<< /Type /XObject /Subtype /Form /BBox [0 0 10 10] /Resources << /XObject << /F 5 0 R >> >> /Length 5 >>\nstream\n/F Do\nendstream"]
    return ("pdf-form-xobject-recursion", "x.pdf", _pdf(objs), "PDF: form XObject that draws itself")


def _pdf(objs) -> bytes:
    out = bytearray(b"%PDF-1.4\n")
    offs = []
    for i, o in enumerate(objs, 1):
        offs.append(len(out))
        out += b"%d 0 obj\n" % i + o + b"\nendobj\n"
    x = len(out)
    out += b"xref\n0 %d\n0000000000 65535 f \n" % (len(objs) + 1)
    for o in offs:
        out += b"%010d 00000 n \n" % o
    out += b"trailer\n<< /Size %d /Root 1 0 R >>\nstartxref\n%d\n%%%%EOF\n" % (len(objs) + 1, x)
    return bytes(out)


def targz_ratio(mib: int):
    """tar.gz holding one member of `mib` MiB of zeros (above the per-member limit: must be skipped without being held
    in memory; listing a compressed tar needs a streaming pass over it) next to a small member."""
    import gzip
    import tarfile
    raw = io.BytesIO()
    with tarfile.open(fileobj=raw, mode="w") as t:
        ti = tarfile.TarInfo("big.txt")
        ti.size = mib * 1024 * 1024

        class Z(io.RawIOBase):
            def __init__(self, n):
                self.n = n

            def readable(self):
                return True

            def read(self, k=-1):
                k = self.n if k < 0 else min(k, self.n)
                self.n -= k
                return bytes(k)
        t.addfile(ti, Z(ti.size))
        ti2 = tarfile.TarInfo("small.txt")
        ti2.size = 5
        t.addfile(ti2, io.BytesIO(b"hello"))
    return ("targz-extreme-ratio", "x.tar.gz", gzip.compress(raw.getvalue(), 9),
            f"tar.gz: one {mib} MiB member of zeros (above the per-member limit) and one 5-byte member")


def zip_ratio(mib: int):
    buf = io.BytesIO()
    with zipfile.ZipFile(buf, "w", zipfile.ZIP_DEFLATED, compresslevel=9) as z:
        z.writestr("big.txt", bytes(mib * 1024 * 1024))
        z.writestr("small.txt", b"hello")
    return ("zip-oversize-member", "x.zip", buf.getvalue(), f"zip: one {mib} MiB member of zeros (ratio below the bomb guard's "
            "threshold is irrelevant here: the member is above the per-member limit) and one 5-byte member")


def container_member_understated(claim: int, member: str = "content.xml", mib: int = 96):
    """An ODT whose `member` really inflates to `mib` MiB (blanks inside the XML) while its central-directory record
    claims `claim` bytes: the bomb guard judges the claim, so the reader must not inflate more than the claim."""
    from props import c11
    ns = ('xmlns:office="urn:oasis:names:tc:opendocument:xmlns:office:1.0" xmlns:text="urn:oasis:names:tc:opendocument:xmlns:text:1.0"')
    pad = b" " * (mib * 1024 * 1024)
    content = (f'<?xml version="1.0"?><office:document-content {ns}><office:body><office:text><text:p>x</text:p>'.encode() +
               (pad if member == "content.xml" else b"") + b'</office:text></office:body></office:document-content>')
    manifest = (b'<?xml version="1.0"?><manifest:manifest xmlns:manifest="urn:oasis:names:tc:opendocument:xmlns:manifest:1.0">' +
                (pad if member == "META-INF/manifest.xml" else b"") + b'</manifest:manifest>')
    buf = io.BytesIO()
    with zipfile.ZipFile(buf, "w", zipfile.ZIP_DEFLATED, compresslevel=9) as z:
        z.writestr("mimetype", "application/vnd.oasis.opendocument.text", compress_type=zipfile.ZIP_STORED)
        z.writestr("content.xml", content)
        z.writestr("META-INF/manifest.xml", manifest)
    data = buf.getvalue()
    zin = zipfile.ZipFile(io.BytesIO(data))
    idx = [i.filename for i in zin.infolist()].index(member)
    cs = zin.infolist()[idx].compress_size
    forged = c11.forge(data, {idx: (claim, cs)})
    return (f"container-member-understates-size:{member}:{claim}", "x.odt", forged,
            f"ODT: {member} inflates to {mib} MiB but its central-directory record claims {claim} bytes (compressed {cs})")


def nested_archives(name: str, fanout: int = 6, depth: int = 6):
    """A ZIP holding `fanout` copies of a ZIP holding ... (`depth` levels), every inner archive stored under `name`: nested
    archives are never opened recursively, whatever their member name looks like."""
    inner = b""
    buf = io.BytesIO()
    with zipfile.ZipFile(buf, "w", zipfile.ZIP_DEFLATED) as z:
        z.writestr("leaf.txt", "leaf")
    inner = buf.getvalue()
    for _ in range(depth):
        buf = io.BytesIO()
        with zipfile.ZipFile(buf, "w", zipfile.ZIP_DEFLATED) as z:
            for k in range(fanout):
                z.writestr(f"d{k}/{name}", inner)
            z.writestr("top.txt", "top")
        inner = buf.getvalue()
    return (f"nested-archives:{name}", "x.zip", inner, f"ZIP of {fanout}^{depth} nested ZIPs stored as '{name}' ({len(inner)} bytes)")


NESTED_NAMES = ["inner.zip", "inner.ZIP", "inner.zip.br", "inner.tar.br", "inner.taz", "inner.tz", "inner.tar.Z", "inner.zip.gz",
                "inner.tgz", "inner.jar", "inner.docx", "inner.bin", "inner"]


def cfb_small(stream_name: str, payload: bytes, *, num_difat=0, first_difat=0xFFFFFFFE, num_minifat=1, first_minifat=2,
              fat_variant="ok", minifat_variant="ok", in_mini=True) -> bytes:
    """A four-sector OLE2 container written from scratch (FAT, directory, mini FAT, mini stream container) whose one
    stream lives in the MINI stream (or, with in_mini=False, in a regular sector), with selectable header
    inconsistencies and allocation-table chains: well-formed, self-loops, two-cycles, all-zero tables."""
    END, FREE, FATS, NOS = 0xFFFFFFFE, 0xFFFFFFFF, 0xFFFFFFFD, 0xFFFFFFFF

    def dent(name, etype, child, start, size):
        raw = name.encode("utf-16-le") + b"\0\0"
        e = raw.ljust(64, b"\0") + struct.pack("<H", len(raw) if name else 0) + struct.pack("<BB", etype, 1)
        e += struct.pack("<III", NOS, NOS, child) + b"\0" * 16 + struct.pack("<I", 0) + b"\0" * 16 + struct.pack("<IQ", start, size)
        return e
    header = b"\xd0\xcf\x11\xe0\xa1\xb1\x1a\xe1" + b"\0" * 16 + struct.pack("<HHHHH", 0x3E, 3, 0xFFFE, 9, 6) + b"\0" * 6
    header += struct.pack("<IIIIIIIII", 0, 1, 1, 0, 4096, first_minifat, num_minifat, first_difat, num_difat)
    header += struct.pack("<109I", 0, *([FREE] * 108))
    fat = [FATS, END, END, END, END] + [FREE] * 123
    if fat_variant == "dir-self-loop":
        fat[1] = 1
    elif fat_variant == "container-self-loop":
        fat[3] = 3
    elif fat_variant == "all-zero":
        fat = [0] * 128
    elif fat_variant == "two-cycle":
        fat[3], fat[4] = 4, 3
    payload = payload[:448]
    n_mini = max(1, (len(payload) + 63) // 64)
    mini = [i + 1 for i in range(n_mini - 1)] + [END] + [FREE] * (128 - n_mini)
    if minifat_variant == "all-zero":
        mini = [0] * 128
    elif minifat_variant == "two-cycle":
        mini[0], mini[1] = 1, 0
    elif minifat_variant == "self-loop-last":
        mini[n_mini - 1] = n_mini - 1
    elif minifat_variant == "points-outside":
        mini[0] = 100000
    if in_mini:
        d = dent("Root Entry", 5, 1, 3, 512) + dent(stream_name, 2, NOS, 0, len(payload)) + dent("", 0, NOS, 0, 0) + dent("", 0, NOS, 0, 0)
        container = payload.ljust(512, b"\0")
    else:
        d = dent("Root Entry", 5, 1, END, 0) + dent(stream_name, 2, NOS, 3, 4096) + dent("", 0, NOS, 0, 0) + dent("", 0, NOS, 0, 0)
        container = payload.ljust(512, b"\0")
    return header + struct.pack("<128I", *fat) + d + struct.pack("<128I", *mini) + container + b"\0" * 512


def hostile_cfb_grid(kind: str, quick: bool):
    stream, payload = {"xls": ("Workbook", struct.pack("<HHHHHHII", 0x0809, 16, 0x0600, 5, 0, 0, 0, 0)),
                       "doc": ("WordDocument", struct.pack("<HH", 0xA5EC, 0x00C1) + bytes(200)),
                       "ppt": ("PowerPoint Document", struct.pack("<HHI", 0x000F, 1000, 0) + bytes(100))}[kind]
    out = []
    fats = ["ok", "dir-self-loop", "container-self-loop", "all-zero", "two-cycle"]
    minis = ["ok", "all-zero", "two-cycle", "self-loop-last", "points-outside"]
    heads = [dict(), dict(num_difat=1), dict(first_difat=0), dict(num_minifat=0), dict(num_minifat=5), dict(first_minifat=0xFFFFFFFE),
             dict(num_difat=1, first_difat=0)]
    for hi, h in enumerate(heads):
        for fv in fats:
            for mv in minis:
                if quick and (hi + fats.index(fv) + minis.index(mv)) % 2 and not (h.get("num_difat") == 1 and mv == "all-zero"):
                    continue
                for in_mini in ((True, False) if (fv == "ok" or not quick) else (True,)):
                    label = f"{kind}:{'+'.join(f'{k}={v}' for k, v in h.items()) or 'plain-header'}:fat={fv}:minifat={mv}:{'mini' if in_mini else 'regular'}"
                    out.append((f"hostile-ole-container:{kind}", f"x.{kind}", cfb_small(stream, payload, fat_variant=fv, minifat_variant=mv, in_mini=in_mini, **h),
                                f"{kind.upper()}: 2.5 KB OLE2 container written from scratch ({label})"))
    return out


def all_amplifiers(quick: bool):
    out = [xlsx_declared_dimension(), xlsx_far_cell(1048576 if not quick else 300000), xlsx_far_column(), docx_entities(),
           docx_deep(200 if quick else 2000), docx_deep(40), odt_deep(200 if quick else 2000), odt_deep(40),
           html_deep(50000 if quick else 400000), html_deep_tables(3000 if quick else 30000),
           rtf_deep(50000 if quick else 400000), rtf_unclosed(50000 if quick else 400000),
           pdf_page_tree_loop(), pdf_outline_loop(), pdf_xobject_recursion(),
           targz_ratio(64 if quick else 512), zip_ratio(32 if quick else 64)]
    for claim in ((0, 100) if quick else (0, 1, 100, 65536)):
        for member in (("content.xml", "META-INF/manifest.xml") if not quick else ("META-INF/manifest.xml",)):
            try:
                out.append(container_member_understated(claim, member, 64 if quick else 192))
            except Exception:  # noqa
                pass
    for nm in (NESTED_NAMES[:7] if quick else NESTED_NAMES):
        out.append(nested_archives(nm, 6, 5 if quick else 6))
    for k in (("xls",) if quick else ("xls", "doc", "ppt")):
        out += hostile_cfb_grid(k, quick)
    for k in ("doc", "ppt", "xls"):
        a = ole_property_vector(k)
        if a:
            out.append(a)
    # distinct keys for the two depths
    seen, res = {}, []
    for key, name, data, what in out:
        seen[key] = seen.get(key, 0) + 1
        res.append((key if seen[key] == 1 else f"{key}#{seen[key]}", name, data, what))
    return res
