"""C02 — main-text fidelity (nothing lost, duplicated, merged or leaked).

This file: DOCX (ms_modern/docx_extractor.py main-text walk).  ODT and RTF live in c02_odt.py /
c02_rtf.py (`run_part(ctx)`) and are called from `run`.

G: Gen/C02Tables.v = CPython's str.isspace table + the tag constants of the live docx module;
   C02/Inst.v re-decides the whitespace premises and constant = qname(constructor) for them.
D: abstract documents are generated here as Coq terms; Coq renders them (one source of truth:
   C02/Model.v r_document + C02/Xml.v ser_root) and prints the XML, the harness zips exactly that
   into a real package and runs read_docx; a second Coq pass compares the model's answer with the
   implementation's (vm_compute).  A second stream does the same for arbitrary w:document trees
   and for the document.xml of the repository's .docx fixtures.
Oracle: on the implementation's output: get_full_text().split() == segments d (printed by Coq),
   no character of an excluded leaf, no character that is not of a visible leaf.
"""
from __future__ import annotations

import importlib
import io
import json
import re
import zipfile
from concurrent.futures import ThreadPoolExecutor
from xml.etree import ElementTree as ET

import common
from common import coq_str, coq_list, coq_eval_shards

BASE = 0x4E00
KIND = {1: "moved-from-text-appears", 2: "text-box-merged", 3: "vml-text-box-lost",
        4: "unused", 5: "nested-table-duplicated",
        6: "unused6", 7: "text-box-in-cell-duplicated"}

PRE = "From S2T Require Import Lib.PyStr C02.Lib C02.Xml C02.Doc C02.Model C02.Corr.\n"


# ----------------------------------------------------------------------------- Coq output parsing
def coq_results(out: str) -> list[str]:
    """The bodies of the `= ... : type` answers of successive Eval commands."""
    res = []
    for m in re.finditer(r"^\s+= (.*?)\n\s+: [^\n]*(?:\n(?=\s+= |\Z)|\Z)", out, re.S | re.M):
        res.append(m.group(1))
    return res


def parse_strings(body: str) -> list[str]:
    return [m.group(1).replace('""', '"') for m in re.finditer(r'"((?:[^"]|"")*)"', body)]


def parse_nums(body: str):
    t = re.sub(r"%\w+", "", body).replace(";", ",")
    return json.loads(t)


def with_decls(xml: str, decls: str) -> str:
    """Insert the namespace declarations (printed by Coq: Xml.xmlns_decls) into the root start tag."""
    m = re.match(r"<[\w:.-]+", xml)
    return xml[:m.end()] + decls + xml[m.end():]


ENC_MODES = ["ascii-refs", "utf8-raw", "utf8-bom", "utf16-bom", "latin1", "cp1252"]
_REF = re.compile(r"&#(\d+);")


def encode_part(xml: str, mode: str) -> bytes:
    """One XML part (as printed by Coq: pure ASCII, every non-ASCII character a numeric reference) in one of
    the encodings an XML part may legally use.  Characters the target encoding can carry are written raw (so
    that the declared encoding / BOM really matters), everything else stays a character reference.
    References to code points < 0xA1 (markup characters, controls, NBSP/NEL whitespace) are always kept."""
    def raw(codec):
        def f(m):
            n = int(m.group(1))
            if n < 0xA1:
                return m.group(0)
            try:
                chr(n).encode(codec)
            except UnicodeEncodeError:
                return m.group(0)
            return chr(n)
        return f
    if mode == "ascii-refs":
        return ('<?xml version="1.0" encoding="UTF-8" standalone="yes"?>' + xml).encode("ascii")
    if mode == "utf8-raw":
        return ('<?xml version="1.0" encoding="UTF-8"?>' + _REF.sub(raw("utf-8"), xml)).encode("utf-8")
    if mode == "utf8-bom":
        return b"\xef\xbb\xbf" + ('<?xml version="1.0"?>' + _REF.sub(raw("utf-8"), xml)).encode("utf-8")
    if mode == "utf16-bom":
        return ('<?xml version="1.0" encoding="UTF-16"?>' + _REF.sub(raw("utf-16"), xml)).encode("utf-16")
    if mode == "latin1":
        return ('<?xml version="1.0" encoding="ISO-8859-1"?>' + _REF.sub(raw("latin-1"), xml)).encode("latin-1")
    if mode == "cp1252":
        return ('<?xml version="1.0" encoding="windows-1252"?>' + _REF.sub(raw("cp1252"), xml)).encode("cp1252")
    raise ValueError(mode)


def pick_encoding(rng) -> str:
    return rng.choice(["ascii-refs", "ascii-refs", "utf8-raw", "utf8-raw", "utf8-bom", "utf16-bom", "latin1", "latin1", "cp1252"])


def nstr(l) -> str:
    return "".join(chr(c) for c in l)


# ----------------------------------------------------------------------------- document generator
class DocGen:
    LATIN = [c for c in range(0xC0, 0x100) if c not in (0xD7, 0xF7)] + [0xA9, 0xB5, 0xE9, 0xFC]

    def __init__(self, rng, allowed: set[int], size: int, latin: bool = False):
        self.rng, self.allowed, self.size = rng, allowed, size
        self.ids = {k: 0 for k in range(6)}
        self.has_tab = False
        self.latin = latin       # visible leaves over Latin-1 letters (single-byte encodings can carry them raw)

    def leaf(self, cls: int) -> str:
        n = self.rng.choice([1, 1, 2, 3])
        cs = []
        if cls == 0 and self.latin:
            return "[" + ";".join(str(self.rng.choice(self.LATIN)) for _ in range(n + 1)) + "]"
        for _ in range(n):
            self.ids[cls] += 1
            cs.append(BASE + 1024 * cls + (self.ids[cls] % 1000))
        return "[" + ";".join(map(str, cs)) + "]"

    def inl(self, depth: int, in_cell: bool) -> str:
        r = self.rng.random()
        if r < 0.5:
            return f"IRun {self.leaf(0)}"
        if r < 0.58:
            self.has_tab = True
            return self.rng.choice(["ITab", "ITab", "IBreak BrLine", "IBreak BrPage", "IBreak BrPage", "IBreak BrColumn",
                                    "IBreak BrWrap", "IBreak BrCr", "IMark", "IMark"])
        if r < 0.65:
            return f"IDel {self.leaf(1)}"
        if r < 0.70:
            return f"IComment {self.leaf(2)}"
        if r < 0.85 and depth < 3:
            k = self.rng.choice(["KLink", "KIns", "KSdt", "KSmart", "KField", "KMoveTo", "KSpan"])
            return f"IWrap {k} {self.inls(depth + 1, in_cell, 3)}"
        if r < 0.90 and 1 in self.allowed:
            return f"IMovedFrom {self.leaf(5)}"
        if r < 0.96 and depth < 2 and ({2, 3, 7} & self.allowed):
            vml = 3 in self.allowed and (not ({2, 7} & self.allowed) or self.rng.random() < 0.5)
            if not vml and ((in_cell and 7 not in self.allowed) or (not in_cell and 2 not in self.allowed)):
                return f"IRun {self.leaf(0)}"
            ps = coq_list([self.inls(depth + 1, in_cell, 2) for _ in range(self.rng.randint(1, 2))])
            return f"IBox {'true' if vml else 'false'} {ps}"
        return f"IRun {self.leaf(0)}"

    def inls(self, depth: int, in_cell: bool, mx: int) -> str:
        return coq_list(["(" + self.inl(depth, in_cell) + ")" for _ in range(self.rng.randint(0, mx))])

    def para(self, in_cell: bool) -> str:
        st = self.rng.choice(["PNormal"] * 4 + ["(PHeading 1)", "(PHeading 2)", "(PListItem 0)"])
        return f"BPara {st} {self.inls(0, in_cell, 4)}"

    def block(self, depth: int, in_cell: bool) -> str:
        r = self.rng.random()
        if r < 0.6 or depth >= 3:
            return self.para(in_cell)
        if r < 0.8:
            if in_cell and 5 not in self.allowed:
                return self.para(in_cell)
            rows = []
            for _ in range(self.rng.randint(1, 3)):
                rows.append(coq_list([self.blocks(depth + 1, True, 2) for _ in range(self.rng.randint(1, 3))]))
            return f"BTable {coq_list(rows)}"
        if r < 0.9:
            items = [self.blocks(depth + 1, in_cell, 2) for _ in range(self.rng.randint(1, 3))]
            return f"BList {coq_list(items)}"
        if True:
            return f"BSdt {self.blocks(depth + 1, in_cell, 2)}"
        return self.para(in_cell)

    def blocks(self, depth: int, in_cell: bool, mx: int) -> str:
        return coq_list(["(" + self.block(depth, in_cell) + ")" for _ in range(self.rng.randint(0 if depth else 1, mx))])

    def doc(self) -> str:
        body = self.blocks(0, False, self.size)
        hs = coq_list([self.leaf(3) for _ in range(self.rng.randint(0, 2))])
        fs = coq_list([self.leaf(4) for _ in range(self.rng.randint(0, 1))])
        return f"{{| body := {body}; headers := {hs}; footers := {fs} |}}"


def gen_docs(ctx, n: int) -> list[str]:
    rng = ctx.rng
    docs = []
    # fixed special inputs first (each refuted construct once, the rich supported document)
    docs += ["rich_doc", "d_nested", "d_body_sdt", "d_box", "d_box_cell", "d_vml", "d_moved", "d_tab"]
    kinds = [1, 2, 3, 5, 7]
    for i in range(n):
        r = rng.random()
        if r < 0.5:
            allowed = set()
        elif r < 0.85:
            allowed = {rng.choice(kinds)}
        else:
            allowed = set(rng.sample(kinds, rng.randint(2, 4)))
        docs.append(DocGen(rng, allowed, rng.choice([2, 4, 6]), latin=rng.random() < 0.4).doc())
    return docs


# ----------------------------------------------------------------------------- tree generator
DOCX_TAGS = ["W_p"] * 6 + ["W_r"] * 8 + ["W_t"] * 8 + ["W_tab", "W_br", "W_cr", "W_lastRenderedPageBreak", "W_pPr", "W_rPr", "W_hyperlink", "W_ins",
             "W_del", "W_delText", "W_moveFrom", "W_sdt", "W_sdtContent", "W_smartTag", "W_tbl", "W_tbl", "W_tr", "W_tr",
             "W_tc", "W_tc", "W_tcPr", "W_pict", "W_drawing", "W_txbxContent", "MC_AlternateContent",
             "MC_AlternateContent", "MC_Choice", "MC_Choice", "MC_Fallback", "W_body", "W_sectPr", "(X_other 1)",
             "(X_other 2)", "W_commentReference", "W_fldSimple", "W_customXml"]
TEXTS = ["", "", "a", "b c", " ", "  ", "\t", "\n", " x ", " ", " ", "中", "q r", "\r", "\x1c"[:0] + "z",
         "1 < 2 & 3", "​", "\u0085", "　w"]


def gen_tree(rng, depth: int, tag: str | None = None) -> str:
    tag = tag or rng.choice(DOCX_TAGS)
    text = rng.choice(TEXTS) if (tag in ("W_t", "W_delText") or rng.random() < 0.15) else ""
    tail = rng.choice(TEXTS) if rng.random() < 0.1 else ""
    kids = []
    if depth > 0 and tag not in ("W_t", "W_tab", "W_br", "W_cr", "W_delText", "W_lastRenderedPageBreak"):
        for _ in range(rng.choice([0, 1, 1, 2, 2, 3, 4])):
            sub = None
            if tag in ("W_sdt", "W_sdtContent", "W_customXml") and rng.random() < 0.7:   # block-level wrappers
                sub = rng.choice(["W_p", "W_p", "W_sdtContent", "W_tbl", "W_sdt", "W_customXml"])
            elif tag == "W_p" and rng.random() < 0.5:
                sub = rng.choice(["W_r", "W_r", "W_hyperlink", "W_sdt", "W_ins"])
            elif tag == "W_r" and rng.random() < 0.6:
                sub = rng.choice(["W_t", "W_t", "W_t", "W_tab", "W_br", "W_br", "W_cr", "W_lastRenderedPageBreak",
                                  "MC_AlternateContent"])
            kids.append(gen_tree(rng, depth - 1, sub))
    attrs = '[(s "w:val", s "v1")]' if rng.random() < 0.1 else "[]"
    if tag == "W_br" and rng.random() < 0.7:
        attrs = '[(s "w:type", s "%s")]' % rng.choice(["page", "page", "column", "textWrapping"])
    return f"(Elem {tag} {attrs} {coq_str(text) if text else '[]'} {coq_list(kids)} {coq_str(tail) if tail else '[]'})"


def gen_trees(ctx, n: int) -> list[str]:
    rng = ctx.rng
    out = []
    for _ in range(n):
        shape = rng.random()
        body_kids = [gen_tree(rng, rng.choice([2, 3, 4, 5]),
                              rng.choice(["W_p", "W_p", "W_tbl", "W_sdt", "W_customXml", "W_sdtContent", None]))
                     for _ in range(rng.randint(0, 4))]
        body = f"(Elem W_body [] [] {coq_list(body_kids)} [])"
        if shape < 0.85:
            root_kids = [body]
        elif shape < 0.9:
            root_kids = []
        elif shape < 0.95:
            root_kids = [gen_tree(rng, 2, "W_p"), body, body]
        else:
            root_kids = [f"(Elem W_sdt [] [] [{body}] [])"]
        out.append(f"(Elem W_document [] [] {coq_list(root_kids)} [])")
    return out


# ----------------------------------------------------------------------------- real packages
CT = ('<?xml version="1.0" encoding="UTF-8"?><Types xmlns="http://schemas.openxmlformats.org/package/2006/content-types">'
      '<Default Extension="rels" ContentType="application/vnd.openxmlformats-package.relationships+xml"/>'
      '<Default Extension="xml" ContentType="application/xml"/>'
      '<Override PartName="/word/document.xml" ContentType="application/vnd.openxmlformats-officedocument.wordprocessingml.document.main+xml"/>'
      '<Override PartName="/word/comments.xml" ContentType="application/vnd.openxmlformats-officedocument.wordprocessingml.comments+xml"/>'
      '<Override PartName="/word/header1.xml" ContentType="application/vnd.openxmlformats-officedocument.wordprocessingml.header+xml"/>'
      '<Override PartName="/word/footer1.xml" ContentType="application/vnd.openxmlformats-officedocument.wordprocessingml.footer+xml"/>'
      '</Types>')
RELS = ('<?xml version="1.0" encoding="UTF-8"?><Relationships xmlns="http://schemas.openxmlformats.org/package/2006/relationships">'
        '<Relationship Id="rId1" Type="http://schemas.openxmlformats.org/officeDocument/2006/relationships/officeDocument" Target="word/document.xml"/>'
        '</Relationships>')
DOCRELS = ('<?xml version="1.0" encoding="UTF-8"?><Relationships xmlns="http://schemas.openxmlformats.org/package/2006/relationships">'
           '<Relationship Id="rId1" Type="http://schemas.openxmlformats.org/officeDocument/2006/relationships/comments" Target="comments.xml"/>'
           '<Relationship Id="rId2" Type="http://schemas.openxmlformats.org/officeDocument/2006/relationships/header" Target="header1.xml"/>'
           '<Relationship Id="rId3" Type="http://schemas.openxmlformats.org/officeDocument/2006/relationships/footer" Target="footer1.xml"/>'
           '</Relationships>')
XMLDECL = '<?xml version="1.0" encoding="UTF-8" standalone="yes"?>'


def package(document: str, comments: str | None = None, header: str | None = None, footer: str | None = None,
            enc: str = "ascii-refs", enc_meta: bool = False) -> bytes:
    b = io.BytesIO()
    with zipfile.ZipFile(b, "w", zipfile.ZIP_DEFLATED) as z:
        # non-content parts (content types, relationships): same encoding when enc_meta is set
        meta = (lambda x: encode_part(re.sub(r"^<\?xml[^>]*\?>", "", x), enc)) if enc_meta else (lambda x: x)
        z.writestr("[Content_Types].xml", meta(CT))
        z.writestr("_rels/.rels", meta(RELS))
        z.writestr("word/document.xml", encode_part(document, enc))
        if comments is not None:
            z.writestr("word/_rels/document.xml.rels", meta(DOCRELS))
            z.writestr("word/comments.xml", encode_part(comments, enc))
            z.writestr("word/header1.xml", encode_part(header or "", enc))
            z.writestr("word/footer1.xml", encode_part(footer or "", enc))
    return b.getvalue()


def impl_full_text(pkg: bytes):
    from sharepoint2text.parsing.extractors.ms_modern.docx_extractor import read_docx
    try:
        c = next(read_docx(io.BytesIO(pkg)))
        return c.get_full_text(), c, None
    except Exception as e:  # noqa
        return None, None, f"{type(e).__name__}: {e}"


# ----------------------------------------------------------------------------- G
def gen_tables(ctx):
    dx = importlib.import_module("sharepoint2text.parsing.extractors.ms_modern.docx_extractor")
    ws = [c for c in range(0x110000) if chr(c).isspace()]
    names = ["W_P", "W_R", "W_T", "W_TAB", "W_BR", "W_CR", "W_TBL", "W_TR", "W_TC", "W_BODY", "MC_CHOICE",
             "W_SDT", "W_SDT_CONTENT", "W_CUSTOM_XML"]
    txt = "(* GENERATED on every check run from the live interpreter and modules — do not edit. *)\n"
    txt += "From S2T Require Import Lib.PyStr.\n\n"
    txt += "(* code points c with chr(c).isspace() *)\nDefinition py_ws : list N := [" + ";".join(map(str, ws)) + "]%N.\n\n"
    txt += "(* tag constants of ms_modern/docx_extractor.py (missing constant = empty string) *)\n"
    consts = []
    for n in names:
        v = getattr(dx, n, "") or ""
        consts.append(f"({coq_str(n)}, {coq_str(v) if v else '[]'})")
    txt += "Definition docx_consts : list (str * str) := " + coq_list(consts) + ".\n"
    ctx.gen_write("Gen/C02Tables.v", txt)
    return dx


# ----------------------------------------------------------------------------- pass 1 (Coq renders)
def render_pass(ctx, name: str, docs: list[str], masks: list[tuple[str, str]], shard: int = 25):
    chunks = [(docs[i:i + shard], masks[i:i + shard]) for i in range(0, len(docs), shard)]

    def run(kc):
        k, (chunk, mchunk) = kc
        body = (PRE + "From S2T Require Import C02.Witness.\n"
                "Definition cases : list doc := [\n" + ";\n".join(chunk) + "\n].\n"
                "Definition masks : list (list N * list N) := [\n" + ";\n".join(f"({a}, {b})" for a, b in mchunk) + "\n].\n"
                "Eval vm_compute in (map (fun d => to_string (ser (r_document d))) cases).\n"
                "Eval vm_compute in (map (fun d => to_string (ser (part_comments d))) cases).\n"
                "Eval vm_compute in (map (fun d => to_string (ser (part_header d))) cases).\n"
                "Eval vm_compute in (map (fun d => to_string (ser (part_footer d))) cases).\n"
                "Eval vm_compute in (map (fun d => flag (supported_docx d) :: doc_kinds d) cases).\n"
                "Eval vm_compute in (map segments cases).\n"
                "Eval vm_compute in (map (fun d => List.concat (excluded d)) cases).\n"
                "Eval vm_compute in (map (fun d => List.concat (visible d)) cases).\n"
                "Eval vm_compute in (to_string xmlns_decls).\n"
                "Eval vm_compute in (map (fun md => to_string (ser_w (fst (fst md)) (snd (fst md)) (snd md))) (combine masks cases)).\n")
        ok, out = ctx.coq_eval(f"{name}_{k}", body, timeout=600)
        if not ok:
            return None, out
        r = coq_results(out)
        if len(r) != 10:
            return None, out
        decls = parse_strings(r[8])[0]
        xs = [[with_decls(x, decls) for x in parse_strings(r[i])] for i in range(4)]
        xw = [with_decls(x, decls) if x else "" for x in parse_strings(r[9])]
        if len(xw) != len(chunk):
            return None, f"shard {k}: wrapped variants {len(xw)} != {len(chunk)}"
        flags, segs, excl, vis = (parse_nums(r[i]) for i in range(4, 8))
        n = len(chunk)
        if not all(len(v) == n for v in xs + [flags, segs, excl, vis]):
            return None, f"shard {k}: lengths {[len(v) for v in xs + [flags, segs, excl, vis]]} != {n}\n" + out[-800:]
        rows = []
        for i in range(n):
            rows.append({"document": xs[0][i], "document_w": xw[i], "comments": xs[1][i], "header": xs[2][i], "footer": xs[3][i],
                         "supported": flags[i][0] == 1, "kinds": sorted(set(flags[i][1:])),
                         "segments": [nstr(w) for w in segs[i]], "excluded": nstr(excl[i]), "visible": nstr(vis[i])})
        return rows, ""

    rows, logs = [], []
    with ThreadPoolExecutor(max_workers=6) as ex:
        for r, log in ex.map(run, list(enumerate(chunks))):
            if r is None:
                logs.append(log[-1500:])
                return None, "\n".join(logs)
            rows += r
    return rows, ""


def render_trees(ctx, name: str, trees: list[str], shard: int = 50):
    chunks = [trees[i:i + shard] for i in range(0, len(trees), shard)]

    def run(kc):
        k, chunk = kc
        body = (PRE + "Definition cases : list xml := [\n" + ";\n".join(chunk) + "\n].\n"
                "Eval vm_compute in (map (fun t => to_string (ser t)) cases).\n"
                "Eval vm_compute in (to_string xmlns_decls).\n")
        ok, out = ctx.coq_eval(f"{name}_{k}", body, timeout=600)
        r = coq_results(out) if ok else []
        if len(r) != 2:
            return None, out
        decls = parse_strings(r[1])[0]
        xs = [with_decls(x, decls) for x in parse_strings(r[0])]
        return (xs, "") if len(xs) == len(chunk) else (None, out[-800:])

    res, logs = [], []
    with ThreadPoolExecutor(max_workers=6) as ex:
        for r, log in ex.map(run, list(enumerate(chunks))):
            if r is None:
                return None, log[-1500:]
            res += r
    return res, ""


# ----------------------------------------------------------------------------- fixtures -> Coq trees
def et_to_coq(dx, root, limit=4000):
    """document.xml of a fixture as a Coq xml term (tags outside the vocabulary -> X_other k).
    Returns None when the tree uses something the model does not cover (math) or is too large."""
    W = "{http://schemas.openxmlformats.org/wordprocessingml/2006/main}"
    MC = "{http://schemas.openxmlformats.org/markup-compatibility/2006}"
    known = {W + "document": "W_document", W + "body": "W_body", W + "p": "W_p", W + "r": "W_r", W + "t": "W_t",
             W + "lastRenderedPageBreak": "W_lastRenderedPageBreak", W + "tab": "W_tab", W + "br": "W_br", W + "cr": "W_cr", W + "tbl": "W_tbl", W + "tr": "W_tr",
             W + "tc": "W_tc", W + "sdt": "W_sdt", W + "sdtContent": "W_sdtContent", W + "hyperlink": "W_hyperlink",
             W + "ins": "W_ins", W + "del": "W_del", W + "delText": "W_delText", W + "pict": "W_pict",
             W + "drawing": "W_drawing", W + "txbxContent": "W_txbxContent", W + "pPr": "W_pPr", W + "rPr": "W_rPr",
             MC + "AlternateContent": "MC_AlternateContent", MC + "Choice": "MC_Choice", MC + "Fallback": "MC_Fallback"}
    other: dict[str, int] = {}
    count = [0]

    def go(e):
        count[0] += 1
        if count[0] > limit:
            raise OverflowError
        t = e.tag
        if not isinstance(t, str) or t in (dx.M_OMATH, dx.M_OMATHPARA):
            raise ValueError("math / non-element")
        if t in known:
            ct = known[t]
        else:
            if t.endswith("}AlternateContent") or t.endswith("}Fallback"):
                raise ValueError("foreign AlternateContent")
            ct = f"(X_other {other.setdefault(t, len(other) + 10)})"
        txt = e.text if (ct == "W_t" and e.text) else ""
        return f"(Elem {ct} [] {coq_str(txt) if txt else '[]'} {coq_list([go(c) for c in e])} [])"

    try:
        return go(root)
    except (OverflowError, ValueError):
        return None


# ----------------------------------------------------------------------------- the check
def run(ctx):
    import logging
    logging.disable(logging.CRITICAL)
    ctx.rule = ("abstract documents (paragraph/heading/list/table incl. nesting/content controls; runs, tab, break, "
                "hyperlink, tracked ins/del/move, comments, text boxes; headers/footers) rendered by Coq to docx/odt/rtf, "
                "plus arbitrary trees/strings and the repository fixtures; non-trivial = document with >= 3 tokens")
    ctx.trusted += [
        "G-dump: tools/props/c02*.py print CPython's str.isspace table and the tag constants / tables of the imported extractor modules as Coq literals",
        "hand-written models tied by differential runs: docx_extractor._process_text_element/_extract_paragraph_content/"
        "_extract_table_text/_extract_full_text_from_body (C02/Model.v); ODT and RTF see c02_odt.py / c02_rtf.py",
        "oracles (not verified): zipfile, xml.etree.ElementTree parsing (the model starts from the parsed tree; the harness "
        "writes exactly the XML text Coq's serialiser printed), str.isspace (universally quantified in the theorems, "
        "instantiated with the dumped table)",
        "the harness: Coq-term printer for documents/trees, parser of Coq's printed strings/numerals, the OOXML/ODF zip writers",
    ]
    ctx.assumptions += ["formulas (m:oMath) are outside the document model (C19 covers OMML->LaTeX); sheet/slide formats: C03/C13; HTML/EPUB removed markup: C17"]
    dx = gen_tables(ctx)

    # ---- proofs
    ctx.prove("C02/Props.v", ["C02/Proofs.vo", "C02/ProofsW.vo", "C02/Witness.vo"], expected=[
        "C02_docx_separated", "C02_docx_separated_wrapped", "C02_docx_fidelity", "C02_docx_no_excluded", "C02_docx_excluded_absent",
        "C02_docx_only_documented_decoration", "C02_docx_supported_nonvacuous",
        "C02_docx_nested_table_refuted", "C02_docx_textbox_refuted",
        "C02_docx_textbox_in_cell_refuted", "C02_docx_vml_textbox_refuted", "C02_docx_moved_from_refuted",
        "C02_docx_tab_break_refuted_before_fix", "C02_docx_body_sdt_refuted_before_fix"])
    ctx.prove("C02/Inst.v", ["Gen/C02Tables.vo", "C02/Corr.vo", "C02/Proofs.vo"], expected=[
        "C02_ws_premises", "C02_docx_tags", "C02_docx_suffix_tags", "C02_docx_separated_py"])

    ctx.extra["proved_walkers"] = ["DOCX body walk (C02/Props.v)", "ODT full-text walk (C02/PropsOdt.v)",
                                   "RTF stripper (C02/PropsRtf.v; regex pre-pass proved in the inert case, "
                                   "checked per case otherwise)"]
    ctx.extra["proved_walkers"].append("PPTX slide ordering step (stable sort by position; C02/PropsPptx.v) + end-to-end token oracle")
    ctx.extra["proved_walkers"].append("shared ODF helper element_text for ods/odp/odg/odf paragraph text (C02/PropsOdf.v) + ODS/ODP end-to-end oracle")
    ctx.extra["proved_walkers"].append("ODP slide frames: _iter_slide_frames over nested draw:g, notes page not entered, stable position order (C02/PropsOdp.v)")
    ctx.extra["correspondence_only_or_elsewhere"] = ["PPTX paragraph text, XLSX/XLS/ODS/ODP/ODG: C03/C13", "HTML/MHTML/EPUB: C17",
                                                     "PDF/DOC/PPT/MSG/EML/plain text: not modelled here"]
    ctx.extra["sampled_dimensions"] = {
        "part_encoding": "every generated docx/odt/ods/odp/pptx content part is written in one of " + ", ".join(ENC_MODES) +
                         " (sampled per document; characters the encoding can carry are written raw, the rest as references); "
                         "visible leaves are drawn from CJK code points or (40%) Latin-1 letters; other legal encodings "
                         "(UTF-16 without BOM, UTF-32, other single-byte code pages) and rels/content-types parts are not sampled",
        "docx_row_cell_wrappers": "every document with a table is also rendered with random masks (length 0-3, values none/w:sdt/"
                                  "w:customXml) over the rows of every table and the cells of every row; theorem "
                                  "C02_docx_separated_wrapped covers all masks",
        "odp_notes_and_groups": "notes page absent / frame with presentation:class=notes / frame without / both; text-box frames "
                                "inside draw:g (nesting 1-2) in 20% of the frames; PPTX notesSlide parts are not generated",
    }
    docx_part(ctx, dx)

    import os
    import traceback
    only = os.environ.get("C02_ONLY", "")
    for modname in ("props.c02_odt", "props.c02_rtf", "props.c02_pptx", "props.c02_odfx", "props.c02_odp", "props.c02_misc", "props.c02_pptxtext"):
        if only and modname.split("_")[-1] not in only.split(","):
            continue
        try:
            mod = importlib.import_module(modname)
        except ModuleNotFoundError:
            ctx.extra.setdefault("parts_missing", []).append(modname)
            continue
        try:
            mod.run_part(ctx)
        except Exception:  # noqa
            ctx.obligation(f"part:{modname} ran to completion", False, traceback.format_exc()[-1500:])


def docx_oracle(ctx, term, r, out, xml, variant, enc):
    """The property on the implementation's output for one rendering of one document."""
    words = out.split()
    bad_sep = words != r["segments"]
    leaked = sorted(set(out) & set(r["excluded"]))
    vis = set(r["visible"])
    invented = sorted(c for c in set(out) if not c.isspace() and c not in vis and c not in r["excluded"])
    toks = "".join(words)
    bad_fid = toks != r["visible"] and not leaked
    if not (bad_sep or leaked or invented):
        return
    what = []
    if leaked:
        what.append(f"excluded text appears ({len(leaked)} chars)")
    if bad_fid:
        if len(toks) == len(r["visible"]) and sorted(toks) == sorted(r["visible"]):
            what.append("visible tokens reordered (same tokens, not in source order)")
        else:
            what.append("visible tokens lost/duplicated/reordered: expected "
                        f"{len(r['visible'])} token chars, got {len(toks)}")
    elif bad_sep:
        what.append(f"tokens merged across a boundary: expected {len(r['segments'])} words, got {len(words)}")
    if invented:
        what.append(f"text that is not in the source: {invented[:5]}")
    rep = {"format": "docx", "doc": term, "document_xml": xml, "expected_words": r["segments"], "encoding": enc,
           "got_full_text": out, "excluded_chars": r["excluded"], "kinds": [KIND[k] for k in r["kinds"]], "rendering": variant}
    # does the failure depend on the encoding of the parts?  (same document, character references only)
    if enc not in ("ascii-refs",):
        out0, _, err0 = impl_full_text(package(xml, r["comments"], r["header"], r["footer"], enc="ascii-refs"))
        if err0 is None and out0 != out:
            ctx.finding("docx:part-encoding:" + enc, f"DOCX get_full_text() depends on the encoding of the XML parts ({enc} vs "
                        "character references): " + "; ".join(what), dict(rep, got_with_character_references=out0))
            return
    suffix = " (rows/cells wrapped in w:sdt / w:customXml)" if variant == "wrapped" else ""
    if r["supported"]:
        if not leaked and not invented and not bad_fid and ("ITab" in term or "IBreak" in term or term in ("rich_doc", "d_tab")):
            key = "docx:tab-or-break-merges-tokens"
        elif not leaked and not invented and bad_fid and variant == "plain" and ("BSdt" in term or term in ("rich_doc", "d_body_sdt")):
            key = "docx:block-level-content-control-dropped"
        elif variant == "wrapped":
            key = "docx:row-or-cell-level-content-control"
        else:
            key = "docx:supported-document"
        ctx.finding(key, "DOCX get_full_text(): " + "; ".join(what) + " (document inside the proved fragment)" + suffix, rep)
    elif len(r["kinds"]) == 1:
        ctx.finding("docx:" + KIND[r["kinds"][0]], "DOCX get_full_text(): " + "; ".join(what) +
                    f" [construct: {KIND[r['kinds'][0]]}]" + suffix, rep)


def docx_part(ctx, dx):
    pre2 = PRE + "From S2T Require Import Gen.C02Tables C02.Witness.\n"
    # ---- structured stream: abstract documents
    docs = gen_docs(ctx, ctx.n(130, 4000))
    rng = ctx.rng
    mask = lambda: "[" + ";".join(str(rng.choice([0, 0, 1, 1, 2])) for _ in range(rng.randint(0, 3))) + "]%N"
    masks = [(mask(), mask()) for _ in docs]
    rows, log = render_pass(ctx, "docx_render", docs, masks)
    if rows is None:
        ctx.obligation("correspondence:docx model(render d) == read_docx(package(render d)).get_full_text()", False,
                       "Coq render pass failed: " + log)
        return
    cases, info, wcases, winfo = [], [], [], []
    env_sample: list[bytes] = []
    for term, mk, r in zip(docs, masks, rows):
        ntok = len(r["visible"])
        kind = "supported" if r["supported"] else "+".join(KIND[k] for k in r["kinds"])
        for variant in ("plain", "wrapped"):
            xml = r["document"] if variant == "plain" else r["document_w"]
            if not xml:
                continue            # no table: the wrapped variant is the plain one
            enc = pick_encoding(rng)
            enc_meta = rng.random() < 0.5
            pkg = package(xml, r["comments"], r["header"], r["footer"], enc=enc, enc_meta=enc_meta)
            if enc_meta:
                ctx.count("docx-encoding-of-rels-and-content-types:" + enc)
            out, content, err = impl_full_text(pkg)
            if len(env_sample) < ctx.n(25, 60):
                env_sample.append(pkg)
            ctx.case(("docx", term, variant, mk if variant == "wrapped" else None, enc), ntok >= 3,
                     "docx:" + (kind if len(r["kinds"]) <= 1 else "mixed-unsupported") + ("+row/cell-wrappers" if variant == "wrapped" else ""))
            ctx.count("docx-encoding:" + enc)
            if err is not None:
                ctx.finding("docx:raises" + ("" if enc in ("ascii-refs", "utf8-raw") else ":" + enc) + (":meta-parts" if enc_meta else ""),
                            f"read_docx raised {err} on a generated document (parts encoded as {enc}" + (", rels/content types too)" if enc_meta else ")"),
                            {"format": "docx", "doc": term, "document_xml": xml, "encoding": enc, "error": err})
                continue
            if variant == "plain":
                cases.append(f"({term}, {coq_str(out)})")
                info.append((term, r, out))
            else:
                wcases.append(f"({mk[0]}, {mk[1]}, {term}, {coq_str(out)})")
                winfo.append((term, mk, xml, out))
            docx_oracle(ctx, term, r, out, xml, variant, enc)
    common.env_sweep(ctx, "docx-full-text", lambda p: impl_full_text(p)[0], env_sample,
                     describe=lambda p: f"generated docx package, {len(p)} bytes, sha1 {__import__('hashlib').sha1(p).hexdigest()}")
    okw, failw, logw = coq_eval_shards(ctx, "docx_wcorr", pre2, "(corr_doc_w py_ws)", wcases, shard=100,
                                       ty="list N * list N * doc * str")
    ctx.traces += len(wcases)
    ctx.disagreements += len(failw)
    ctx.obligation("correspondence:docx model(render_with_row/cell_wrappers d) == read_docx(...).get_full_text()",
                   okw and not failw,
                   (f"{len(failw)} disagreements; first: masks={winfo[failw[0]][1]} doc={winfo[failw[0]][0][:300]} impl={winfo[failw[0]][3]!r} "
                    if failw else "") + logw[:800])
    ok, failing, log = coq_eval_shards(ctx, "docx_corr", pre2, "(corr_doc py_ws)", cases, shard=100, ty="doc * str")
    ctx.traces += len(cases)
    ctx.disagreements += len(failing)
    ctx.obligation("correspondence:docx model(render d) == read_docx(package(render d)).get_full_text()",
                   ok and not failing,
                   (f"{len(failing)} disagreements; first: doc={info[failing[0]][0][:400]} impl={info[failing[0]][2]!r} "
                    if failing else "") + log[:800])
    if failing:
        ctx.extra["docx_corr_disagreements"] = [{"doc": info[i][0], "impl": info[i][2], "xml": info[i][1]["document"]}
                                                for i in failing[:5]]

    # ---- malformed stream: arbitrary trees + fixtures' document.xml
    trees = gen_trees(ctx, ctx.n(150, 3000))
    fixture_terms = []
    res = common.REPO / "sharepoint2text" / "tests" / "resources"
    fixtures = sorted(res.rglob("*.docx"))
    for fp in fixtures:
        data = fp.read_bytes()
        out1, c1, err1 = impl_full_text(data)
        out2, c2, err2 = impl_full_text(data)
        ctx.case(("docx-fixture", fp.name), True, "docx:fixture")
        if err1 and "ncrypt" not in err1:
            ctx.finding(f"docx:fixture-raises:{fp.name}", f"read_docx raised on fixture {fp.name}: {err1}", {"fixture": str(fp)})
        elif out1 != out2:
            ctx.finding(f"docx:fixture-unstable:{fp.name}", f"get_full_text differs between two runs on {fp.name}", {"fixture": str(fp)})
        if err1:
            continue
        try:
            with zipfile.ZipFile(io.BytesIO(data)) as z:
                root = ET.fromstring(z.read("word/document.xml"))
        except Exception:  # noqa
            continue
        t = et_to_coq(dx, root)
        if t is not None:
            fixture_terms.append((fp.name, t, out1))
    xmls, log = render_trees(ctx, "docx_trees", trees)
    tcases, tinfo = [], []
    if xmls is None:
        ctx.obligation("correspondence:docx walker model == _extract_full_text_from_body on arbitrary trees", False,
                       "Coq render pass failed: " + log)
        return
    for term, x in zip(trees, xmls):
        try:
            root = ET.fromstring(x)
            out = dx._extract_full_text_from_body(root.find(dx.W_BODY), include_formulas=True)
        except Exception as e:  # noqa
            ctx.finding("docx:tree-raises", f"_extract_full_text_from_body raised {type(e).__name__} on a generated tree",
                        {"document_xml": x, "error": repr(e)})
            continue
        ctx.case(("docx-tree", x), len(out.split()) >= 3, "docx:arbitrary-tree")
        tcases.append(f"({term}, {coq_str(out)})")
        tinfo.append((x, out))
    for name, t, out in fixture_terms:
        tcases.append(f"({t}, {coq_str(out)})")
        tinfo.append((name, out))
    ok, failing, log = coq_eval_shards(ctx, "docx_tcorr", pre2, "(corr_tree py_ws)", tcases, shard=100, ty="xml * str")
    ctx.traces += len(tcases)
    ctx.disagreements += len(failing)
    ctx.obligation("correspondence:docx walker model == _extract_full_text_from_body on arbitrary trees and fixtures",
                   ok and not failing,
                   (f"{len(failing)} disagreements; first: xml={tinfo[failing[0]][0][:600]} impl={tinfo[failing[0]][1][:200]!r} "
                    if failing else "") + log[:800])
    ctx.extra["docx"] = {"documents": len(cases), "trees": len(trees), "fixture_trees": len(fixture_terms),
                         "fixtures": len(fixtures)}


def replay(ctx, rp):
    """./check C02 --replay F : re-evaluate the recorded input's oracle on the current tree."""
    import logging
    logging.disable(logging.CRITICAL)
    key = rp.get("key", "replay")
    fmt = rp.get("format") or key.split(":")[0]
    if fmt != "docx":
        try:
            mod = importlib.import_module({"odt": "props.c02_odt", "rtf": "props.c02_rtf", "pptx": "props.c02_pptx", "xlsx": "props.c02_misc", "mbox": "props.c02_misc", "plain": "props.c02_misc", "ods": "props.c02_odfx", "odp": "props.c02_odfx", "odf": "props.c02_odfx"}.get(fmt, "props.c02_" + fmt))
        except ModuleNotFoundError:
            mod = None
        if mod is not None and hasattr(mod, "replay_part"):
            return mod.replay_part(ctx, rp)
        return run(ctx)
    if "document_xml" not in rp or "expected_words" not in rp:
        return run(ctx)
    ctx.case(("replay", rp["document_xml"]), True, "replay")
    out, _, err = impl_full_text(package(rp["document_xml"], enc=rp.get("encoding", "ascii-refs")))
    if err is not None:
        ctx.finding(key, f"read_docx raised {err}", dict(rp, error=err))
        return
    leaked = sorted(set(out) & set(rp.get("excluded_chars", "")))
    if out.split() != rp["expected_words"] or leaked:
        ctx.finding(key, rp.get("what", "DOCX main text differs from the specification"),
                    dict(rp, got_full_text=out, leaked=leaked))


META = {
    "technique": "Coq proof over an abstract document model rendered per format (DOCX, ODT, RTF) + faithful Gallina "
                 "models of the main-text walkers, refutation witnesses for every construct that breaks the property, "
                 "kernel-decided obligations over tables dumped from the live modules, vm_compute differential "
                 "correspondence on Coq-rendered packages, arbitrary trees/strings and the fixtures",
    "design_ref": "DESIGN.md §5 C02",
    "level_text": "Kernel-checked: for every abstract document in the supported fragment of a modelled format, "
                  "str.split() of the extracted main text equals the specified segments (separation), the non-whitespace "
                  "characters are exactly the visible leaves in order (multiplicity/order), no character of a tracked "
                  "deletion/comment/header/footer occurs, and nothing else occurs; each construct outside the fragment has "
                  "a machine-checked refutation replayed on the real code (known findings / fix patches). Proved walkers: "
                  "DOCX body walk; ODT and RTF as reported by their parts. Correspondence-only / not covered here: PPTX, "
                  "XLSX/XLS/ODS (C03/C13), HTML/EPUB (C17), PDF/DOC/MSG/EML bodies (third-party text).",
    "level_note": "Trusted: Coq kernel+VM; the hand-written walker models (validated differentially on Coq-rendered "
                  "packages, arbitrary trees and fixtures); zipfile/ElementTree as oracles; the harness printers/parsers. "
                  "Not modelled, stated: XML decoding of parts (ElementTree/expat; sampled over 6 encodings incl. rels/content-types/"
                  "manifest parts, compared with the character-reference reading); PPTX speaker notes: the extractor never opens "
                  "ppt/notesSlides/* (module docstring), so there is no code to model - notes slides are generated and the oracle "
                  "asserts their text is in no unit and not in get_full_text(); PPTX paragraph text is modelled and proved (C02/PropsPptxText.v); the ODP "
                  "title/body/other assembly is modelled (C02/OdpGroup.v: each paragraph once; source order only _partial); the RTF regex pre-pass is transcribed as "
                  "brace matchers (fail-closed inventory of _DEST_PATTERNS + two correspondences) but proved only for sources in "
                  "which no pattern matches, otherwise `pre_ok d` is checked per generated document; PDF/DOC/PPT/MSG/EML bodies: "
                  "third-party text extraction. EPUB package level (spine order, content-document names with +, &, @, unicode, sub-directories, literal and percent-encoded hrefs): end-to-end oracle; PPTX reviewer comments and text-less slides: end-to-end oracle. XLSX: the sheet trimming over ragged rows is modelled and proved (C02/PropsXlsx.v), "
                  "the text-table formatting is end-to-end only; mbox text/plain bodies (format=flowed with DelSp absent/no, "
                  "transfer encodings, charsets) and plain-text files in encodings with non-statistical detection (ASCII, UTF-8, "
                  "UTF-16/32 with and without BOM, ISO-2022-JP): end-to-end oracles; 8-bit legacy code pages depend on "
                  "charset_normalizer's statistics and format=flowed; delsp=yes is not re-flowed by the code - neither is asserted. "
                  "Environment sweep (DEBUG logging, worker thread, TZ, cwd) over generated docx/xlsx/mbox/plain inputs and the fixtures.",
}
