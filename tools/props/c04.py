"""C04 — every result honours the common interface, for any input.

G/X: Gen/C04Tables.v is regenerated from the live modules on every run: Unicode whitespace/decimal tables
     (str.isspace, \\d), the per-unit float expressions of `_odf_length_to_px` (translated from its ast),
     SKIP_DESTINATIONS / SPECIAL_CHARS / RtfImage._CONTENT_TYPES, the property tag names of the
     metadata readers, the declared field types of the ten image classes, and three behavioural probes
     (is the ODF length guarded against non-finite values, are RTF surrogates repaired, is Path.exists()
     shielded against OSError).  C04/Inst.v re-decides the table obligations.
D:   vm_compute models vs implementation on generated cases: _odf_length_to_px, pathlib name/suffix/parent/str,
     populate_from_path (file system recorded as oracle), _strip_rtf_full_with_pages, _repair_surrogates,
     the five metadata readers, image accessors and table dims on type-directed instances.
Oracle: every accessor is called on results of all fixtures, of mutated-but-accepted fixtures, of hostile
     documents and of type-directed instances; the statement's right-hand side is asserted on the outputs.
"""
from __future__ import annotations

import ast
import dataclasses
import inspect
import io
import logging
import math
import os
import re
import signal
import textwrap
import time
import types
import typing
import unicodedata
import zipfile
from pathlib import Path

import common
from common import coq_str, coq_list, coq_opt, coq_bool, coq_eval_shards

PROPS = ["C04_dim_is_shape", "C04_xls_sheet_dim", "C04_bytes_stream", "C04_metadata_no_path", "C04_metadata_from_path",
         "C04_path_suffix", "C04_path_metadata_total", "C04_path_metadata_total_refuted",
         "C04_image_metadata_total", "C04_image_metadata_raises_only_odf", "C04_image_dims_positive",
         "C04_image_metadata_dict_view", "C04_image_text_utf8able",
         "C04_odf_length_total", "C04_accessors_total_refuted", "C04_odf_length_raises_iff",
         "C04_rtf_output_utf8able", "C04_rtf_output_utf8able_refuted", "C04_rtf_output_utf8able_partial",
         "C04_repair_surrogates_utf8able", "C04_repair_surrogates_identity",
         "C04_props_unchanged_ooxml", "C04_props_unchanged_odf", "C04_props_unchanged_epub_partial",
         "C04_props_unchanged_epub_refuted", "C04_props_unchanged_html_meta",
         "C04_props_unchanged_rtf", "C04_props_unchanged_rtf_refuted", "C04_rtf_simple_utf8able", "C04_rtf_simple_utf8able_refuted",
         "C04_rtf_simple_raises_only_digits", "C04_rtf_simple_total_refuted", "C04_props_summary_ole", "C04_xls_summary_total",
         "C04_xls_summary_total_refuted", "C04_props_unchanged_xlsx", "C04_archive_member_metadata",
         "C04_image_metadata_views_agree", "C04_epub_unit_numbers"]
INST = ["C04_odf_overflow_unguarded", "C04_rtf_tables_wf", "C04_rtf_surrogate_unrepaired",
        "C04_rtf_ctypes_wf", "C04_image_decls", "C04_archive_member_path"]
INST_FIXED = ["C04_odf_guarded", "C04_odf_overflow_witness", "C04_rtf_repaired", "C04_rtf_surrogate_witness", "C04_path_guarded",
              "C04_rtf_info_unicode", "C04_rtf_info_witness", "C04_rtf_simple_witness", "C04_ole_cp_aware"]

Zs = lambda n: f"({n})%Z"
pair = lambda *a: "(" + ", ".join(a) + ")"
cN = lambda n: str(n)


def cstr(x: str) -> str:
    if x == "":
        return "[]"
    return coq_str(x)


def nlist(b) -> str:
    return "[" + ";".join(str(x) for x in b) + "]" + ("%N" if len(b) else "")


# property values a sloppy normaliser would eat: leading/trailing 'Z'/'T'/digits/UTC offsets (timestamp clean-ups),
# quotes, ampersands/entities, trailing punctuation, inner and surrounding white space, non-BMP, very long
HOSTILE_VALUES = [
    "Dragon Ball Z", "JAY-Z", "Z", "ZZ Top", "Zorro Z.", "zZ", "2024-01-01T00:00:00Z", "Report T", "T", "T-Shirt", "TT", "Version 2", "2", "007",
    "3rd draft 0", "0", "Meeting +00:00", "+00:00", "UTC+02:00", "-05:00 offset", "12:30", "\"quoted\"", "'single'", "it's", "\"", "AT&T", "&amp;",
    "&lt;tag&gt;", "a &#38; b", "<b>bold</b>", "&", "ends with dot.", "a, b, c,", "k1; k2;", "...", ";", "inner  double   space", "tab\tinside",
    "line1\nline2", "  padded  ", " Z ", "\U0001f600 emoji \U0001d11e", "\U0001f600", "\U0001d538Z", "x" * 3000 + "Z", "Z" + "y" * 5000, "\u00e9",
    "\u00c5ngstr\u00f6m Z", "trailing slash/", "[brackets]", "(paren)", "100%", "#hash", "?", "-dash-", "_under_", "None", "null", "true",
    "UPPER", "lower", "MiXeD cAsE Z", "\u2003em-spaced\u2003", "\ufeffbom", "a\u00a0b", "1e10", "1.0", "0x1F", "=formula()", "\u202eRTL",
]


# free text that ends up in captions, titles, names: strings that are not valid regular expressions, printf / str.format
# templates, glob patterns, escapes — whatever a "smarter" matching or formatting routine would choke on
HOSTILE_LABELS = [
    "Figure 1", "Umsatz (in Mio. EUR", "Budget [draft", "a*b**2", "C:\\q4", "50% off? (yes", "{0} %s %(x)s", "\\", "[", "(?P<n>", "*", "+1", "$^",
    "a|b", "\\1", "{", "}{", "x{2,1}", "\x00", "'\"", "<b>&amp;", "%", "%d", "{name}", "??", "(", ")", "[a-", "\\Z", "**", "caf\u00e9 (1", "\U0001f600)",
]


def hostile_for(k: int, field: int) -> str:
    """value of field `field` in the k-th generated document: every field walks the whole list, no two fields of a
    document share a value"""
    return HOSTILE_VALUES[(k + 13 * field) % len(HOSTILE_VALUES)]


def ws_collapse(x: str) -> str:
    return " ".join(x.split())


# ------------------------------------------------------------------------------------------------ G / X
_AZ_CI = re.compile("[a-z]", re.I)


class GenError(Exception):
    pass


def fconst(x: float) -> str:
    if x == 0 or not math.isfinite(x):
        raise GenError(f"float literal {x!r}")
    mant, exp = math.frexp(x)
    m = int(mant * (1 << 53))
    assert m * 2.0 ** (exp - 53) == x
    return f"(FConst {Zs(m)} {Zs(exp - 53)})"


def fexpr(e: ast.expr) -> str:
    if isinstance(e, ast.Name) and e.id == "value":
        return "FVal"
    if isinstance(e, ast.Constant) and isinstance(e.value, (int, float)) and not isinstance(e.value, bool):
        return fconst(float(e.value))
    if isinstance(e, ast.BinOp) and isinstance(e.op, (ast.Mult, ast.Div)):
        return f"({'FMul' if isinstance(e.op, ast.Mult) else 'FDiv'} {fexpr(e.left)} {fexpr(e.right)})"
    raise GenError("unsupported expression in _odf_length_to_px: " + ast.dump(e)[:200])


def odf_units(dt):
    """[(unit, expr)] from the `if unit == "..."` tests of _odf_length_to_px, in source order.  The branch body is
    `return int(round(E))` or `<name> = E`."""
    fn = ast.parse(textwrap.dedent(inspect.getsource(dt._odf_length_to_px))).body[0]
    out = []
    for node in ast.walk(fn):
        if isinstance(node, ast.If) and isinstance(node.test, ast.Compare) and isinstance(node.test.left, ast.Name) \
                and node.test.left.id == "unit" and len(node.test.ops) == 1 and isinstance(node.test.ops[0], ast.Eq) \
                and isinstance(node.test.comparators[0], ast.Constant):
            u = node.test.comparators[0].value
            st = node.body[0]
            if len(node.body) != 1:
                raise GenError(f"unit branch {u!r} has {len(node.body)} statements")
            if isinstance(st, ast.Return) and isinstance(st.value, ast.Call) and getattr(st.value.func, "id", "") == "int" \
                    and isinstance(st.value.args[0], ast.Call) and getattr(st.value.args[0].func, "id", "") == "round":
                e = st.value.args[0].args[0]
            elif isinstance(st, ast.Assign) and len(st.targets) == 1 and isinstance(st.targets[0], ast.Name):
                e = st.value
            else:
                raise GenError(f"unit branch {u!r}: unsupported statement " + ast.dump(st)[:200])
            out.append((node.lineno, u, fexpr(e)))
    out.sort()
    if not out:
        raise GenError("no unit branches found in _odf_length_to_px")
    return [(u, e) for _, u, e in out]


IMG_CLASSES = ["DocImage", "DocxImage", "PdfImage", "PptImage", "PptxImage", "XlsImage", "XlsxImage",
               "OpenDocumentImage", "RtfImage", "EpubImage"]
# field names per class: (number, content type, data, size, width, height, unit, caption, description)
IMG_FIELDS = {
    "DocImage": ("image_number", "content_type", "data", "size_bytes", "unit_number", "caption", None),
    "DocxImage": ("image_index", "content_type", "data", "size_bytes", None, "caption", "description"),
    "PdfImage": ("index", "content_type", "data", None, "unit_name", "caption", "name"),
    "PptImage": ("image_index", "content_type", "data", "size_bytes", "slide_number", None, None),
    "PptxImage": ("image_index", "content_type", "blob", "size_bytes", "slide_number", "caption", "description"),
    "XlsImage": ("image_index", "content_type", "data", "size_bytes", None, None, None),
    "XlsxImage": ("image_index", "content_type", "data", "size_bytes", None, "caption", "description"),
    "OpenDocumentImage": ("image_index", "content_type", "data", "size_bytes", "unit_name", "caption", "description"),
    "RtfImage": ("image_index", "image_type", "data", None, "page_number", "caption", "description"),
    "EpubImage": ("image_index", "content_type", "data", "size_bytes", "unit_index", None, None),
}


def hint_kind(h) -> str:
    args = set(typing.get_args(h)) if typing.get_origin(h) in (typing.Union, types.UnionType) else {h}
    opt = type(None) in args
    args.discard(type(None))
    base = next(iter(args)) if len(args) == 1 else None
    name = {bytes: "Bytes", io.BytesIO: "Stream", int: "Int", str: "Str"}.get(base, "Other")
    return ("Opt" if opt else "") + name


def probes(ctx):
    """Behavioural probes deciding which variant of the three repaired spots the tree has."""
    import pathlib
    from sharepoint2text.parsing.extractors import data_types as dt
    from sharepoint2text.parsing.extractors.ms_legacy import rtf_extractor as rx
    try:
        odf_guard = dt._odf_length_to_px("9" * 400) is None
    except OverflowError:
        odf_guard = False
    p = rx._RtfParser(b"")
    out = p._strip_rtf_full_with_pages("\\u55357?\\u56832?")
    rtf_repair = not any(0xD800 <= ord(c) <= 0xDFFF for c in out)
    orig = pathlib.Path.exists

    def boom(self, *a, **k):
        raise OSError(36, "File name too long")
    pathlib.Path.exists = boom
    try:
        try:
            dt.FileMetadataInterface().populate_from_path("x/y.txt")
            path_guard = True
        except OSError:
            path_guard = False
    finally:
        pathlib.Path.exists = orig
    pi = rx._RtfParser(b"")
    pi._extract_metadata("{\\rtf1{\\info{\\title Pr\\u8364?is}}\\pard x}")
    info_unicode = pi.metadata.title == "Pr\u20acis"
    from types import SimpleNamespace
    from sharepoint2text.parsing.extractors.ms_legacy import ppt_extractor as ppx
    fake = SimpleNamespace(get_metadata=lambda: SimpleNamespace(title=b"\xf6", codepage=1252), exists=lambda name: False)
    ole_cp = ppx._extract_metadata(fake).title == "\u00f6"
    return odf_guard, rtf_repair, path_guard, info_unicode, ole_cp


def gen_tables(ctx):
    from sharepoint2text.parsing.extractors import data_types as dt
    from sharepoint2text.parsing.extractors.ms_legacy import rtf_extractor as rx
    from sharepoint2text.parsing.extractors.ms_modern import docx_extractor as dx, pptx_extractor as px
    from sharepoint2text.parsing.extractors.open_office import odt_extractor as ox
    from sharepoint2text.parsing.extractors import epub_extractor as ex
    odf_guard, rtf_repair, path_guard, info_unicode, ole_cp = probes(ctx)
    azci = [c for c in range(0x110000) if _AZ_CI.fullmatch(chr(c))]
    spaces = [c for c in range(0x110000) if chr(c).isspace()]
    decimals = [(c, unicodedata.decimal(chr(c))) for c in range(128, 0x110000) if unicodedata.decimal(chr(c), None) is not None]
    try:
        units = odf_units(dt)
        gen_err = ""
    except GenError as e:
        units, gen_err = [], str(e)
    ctx.obligation("translate:_odf_length_to_px unit branches", not gen_err, gen_err)
    hints = {c: typing.get_type_hints(getattr(dt, c)) for c in IMG_CLASSES}
    decls = []
    for c in IMG_CLASSES:
        f = IMG_FIELDS[c]
        decls.append(pair(c, cstr(hint_kind(hints[c].get(f[2]))), cstr(hint_kind(hints[c].get("width"))),
                          coq_bool(f[3] is not None and f[3] in hints[c])))
    tg = lambda *names: ("{| t_title := %s; t_author := %s; t_subject := %s; t_keywords := %s; t_description := %s |}"
                         % tuple(cstr(n) for n in names))
    ons, ens = ox.NS, ex.NS
    q = lambda ns, pre, n: "{%s}%s" % (ns[pre], n)
    txt = "(* GENERATED on every check run from the live modules of the repository — do not edit. *)\n"
    txt += "From S2T Require Import Lib.PyStr C04.Model C04.ModelFloat C04.ModelRtf C04.ModelMeta.\n"
    txt += "From Coq Require Import List NArith ZArith.\nImport ListNotations.\nOpen Scope N_scope.\n\n"
    txt += "Definition spaces : list N := " + nlist(spaces) + ".\n"
    txt += "Definition decimals : list (N * N) := [" + ";".join(f"({c},{v})" for c, v in decimals) + "].\n\n"
    txt += "Definition odf_T : odf_table := {|\n  units := " + coq_list([pair(cstr(u), e) for u, e in units]) + ";\n"
    txt += f"  guarded := {coq_bool(odf_guard)} |}}.\n\n"
    txt += "Definition rtf_T : rtf_tables := {|\n  skip_dests := " + coq_list([cstr(k) for k in sorted(rx._RtfParser.SKIP_DESTINATIONS)]) + ";\n"
    txt += "  special := " + coq_list([pair(cstr(k), cstr(v)) for k, v in rx._RtfParser.SPECIAL_CHARS.items()]) + ";\n"
    txt += f"  repair := {coq_bool(rtf_repair)} |}}.\n\n"
    txt += "Definition rtf_ctypes : list (str * str) := " + coq_list(
        [pair(cstr(k), cstr(v)) for k, v in dt.RtfImage._CONTENT_TYPES.items()]) + ".\n"
    txt += f"Definition path_guard : bool := {coq_bool(path_guard)}.\n"
    txt += f"Definition info_unicode : bool := {coq_bool(info_unicode)}.\n"
    txt += f"Definition ole_cp_aware : bool := {coq_bool(ole_cp)}.\n"
    txt += "(* code points matched by [a-z] under re.IGNORECASE *)\nDefinition az_ci_table : list N := " + nlist(azci) + ".\n\n"
    txt += "Definition docx_tags : prop_tags := " + tg(dx._DC_TITLE, dx._DC_CREATOR, dx._DC_SUBJECT, dx._CP_KEYWORDS, dx._DC_DESCRIPTION) + ".\n"
    txt += "Definition pptx_tags : prop_tags := " + tg(px._DC_TITLE, px._DC_CREATOR, px._DC_SUBJECT, px._CP_KEYWORDS, px._DC_DESCRIPTION) + ".\n"
    txt += "Definition odf_office_meta : str := " + cstr(q(ons, "office", "meta")) + ".\n"
    txt += "Definition odf_tags : prop_tags := " + tg(q(ons, "dc", "title"), q(ons, "dc", "creator"), q(ons, "dc", "subject"),
                                                        q(ons, "meta", "keyword"), q(ons, "dc", "description")) + ".\n"
    txt += "Definition epub_opf_metadata : str := " + cstr(q(ens, "opf", "metadata")) + ".\n"
    txt += "Definition epub_tags : prop_tags := " + tg(q(ens, "dc", "title"), q(ens, "dc", "creator"), q(ens, "dc", "subject"),
                                                         "", q(ens, "dc", "description")) + ".\n\n"
    txt += "(* declared field types of the image classes: (class, data/blob, width, has size_bytes) *)\n"
    txt += "Definition img_decls : list (img_class * str * str * bool) := " + coq_list(decls) + ".\n"
    ctx.gen_write("Gen/C04Tables.v", txt)
    ctx.extra["variants"] = {"odf_guarded": odf_guard, "rtf_repair": rtf_repair, "path_guard": path_guard, "info_unicode": info_unicode,
                             "ole_cp_aware": ole_cp}
    return dict(odf_guard=odf_guard, rtf_repair=rtf_repair, path_guard=path_guard, units=[u for u, _ in units],
                spaces=spaces, decimals=decimals)


PRE = ("From S2T Require Import Lib.PyStr C04.Model C04.ModelFloat C04.ModelPath C04.ModelRtf C04.ModelMeta C04.ModelRtfText C04.ModelSummary C04.ModelImeta C04.ModelEpub C04.Corr "
       "Gen.C04Tables.\nFrom Coq Require Import List NArith ZArith.\nImport ListNotations.\nOpen Scope N_scope.\n")


def corr(ctx, name, fn, cases, infos, ty, shard=300):
    if not cases:
        ctx.obligation(f"correspondence:{name}", False, "no cases generated")
        return []
    ok, failing, log = coq_eval_shards(ctx, name, PRE, fn, cases, shard=shard, ty=ty)
    ctx.traces += len(cases)
    ctx.disagreements += len(failing)
    ctx.obligation(f"correspondence:{name} model==implementation ({len(cases)} cases)", ok and not failing,
                   (f"{len(failing)} disagreements, first: {infos[failing[0]]!r:.600} " if failing else "") + log[-900:])
    if failing:
        ctx.extra.setdefault("corr_disagreements", {})[name] = [repr(infos[i])[:400] for i in failing[:8]]
    return failing


# ------------------------------------------------------------------------------------------------ ODF lengths
def odf_cases(ctx, tb):
    rng = ctx.rng
    units = tb["units"] + ["", "PX", "Cm", "IN", "em", "q", "pxx", "c m", "\u212a"]
    nums = ["0", "1", "2.5", "3.5", "0.5", "1.5", "10.5", "2.54", "25.4", "72", "0.0", "00012.500", "96", "1.0000000000000002",
            "0.49999999999999994", "9" * 15, "9" * 16, "9" * 17 + ".5", "4503599627370496.5", "9007199254740993",
            "1" + "0" * 308, "9" * 308, "17976931348623157" + "0" * 292, "17976931348623158" + "0" * 292,
            "179769313486231580793728971405303415079934132710037826936173778980444968292764750946649017977587207096330286416692887910946555547851940402630657488671505820681908902000708383676273854845817711531764475730270069855571366959622842914819860834936475292719074168444365510704342711559699508093042880177904174497791",
            "179769313486231580793728971405303415079934132710037826936173778980444968292764750946649017977587207096330286416692887910946555547851940402630657488671505820681908902000708383676273854845817711531764475730270069855571366959622842914819860834936475292719074168444365510704342711559699508093042880177904174497792",
            "9" * 309, "9" * 400, "1" + "0" * 306, "2" + "0" * 306, "0." + "0" * 330 + "1", "0." + "0" * 322 + "25", "0." + "9" * 40,
            "\u0663", "\u0661\u0662.\u0665", "\uff11\uff10", "1\u06f5"]
    for k in range(ctx.n(60, 600)):
        ip = "".join(rng.choice("0123456789") for _ in range(rng.choice([1, 1, 2, 3, 5, 16, 17, 20, 40])))
        fp = "".join(rng.choice("0123456789") for _ in range(rng.choice([0, 0, 1, 2, 3, 17, 30])))
        nums.append(ip + ("." + fp if fp else ""))
    # values landing near .5 pixel boundaries for every unit
    for k in (0, 1, 2, 7, 100, 12345):
        for f in (96.0, 96 / 2.54, 96 / 25.4, 96 / 72.0, 96 * 12 / 72.0):
            v = (k + 0.5) / f
            nums += [repr(v), "%.17f" % v, "%.12f" % v]
    nums = [n for n in nums if "e" not in n and "-" not in n]
    cases = []
    for n in nums:
        for u in (units if len(n) < 25 else rng.sample(units, 4) + ["cm", "in"]):
            cases.append(n + u)
    cases += [" 1cm", "1cm ", "1 cm", "\t1.5\u2003in\n", "\u20031cm", "1cm\n", "1cm\n\n", "1.", ".5", "1..5", "1.5.5cm", "1e3", "-1cm", "+1cm",
              "1cm2", "cm", " ", "1 c m", "1,5cm", "1.5 cm x", "0x10", "1_0", "\x00", "1.cm", "1.\u0663cm", "\u0663.1cm",
              "1\x1ccm", "1\x85cm", "1\xa0cm", "\u00b2cm", "\u2460"]
    seen, out = set(), []
    for c in cases:
        if c not in seen:
            seen.add(c)
            out.append(c)
    if ctx.tier == "quick" and len(out) > 900:
        head, rest = out[:300], out[300:]
        rng.shuffle(rest)
        out = head + rest[:600]
    return out


def run_odf(ctx, tb):
    from sharepoint2text.parsing.extractors import data_types as dt
    inputs = odf_cases(ctx, tb)
    terms = []
    for x in inputs:
        try:
            r = dt._odf_length_to_px(x)
            want = "(Some " + coq_opt(r, Zs) + ")"
            if r is not None and (not isinstance(r, int) or r < 0):
                ctx.finding("odf-length-negative", f"_odf_length_to_px({x!r:.80}) = {r!r:.80}", {"length": x})
        except (OverflowError, ValueError) as e:
            want = "None"
            ctx.finding("odf-length-overflow",
                        f"_odf_length_to_px raises {type(e).__name__} for a length of {len(x)} characters "
                        f"({x[:12]!r}...{x[-4:]!r}); OpenDocumentImage.get_metadata() raises for such svg:width/height",
                        {"length": x, "call": "sharepoint2text.parsing.extractors.data_types._odf_length_to_px(length)",
                         "error": repr(e)})
        ctx.case(("odf", x), len(x) > 1, kind="odf-length:" + ("huge" if len(x) > 100 else "plain"))
        terms.append(pair(cstr(x), want))
    corr(ctx, "odf_length", "(odf_case spaces decimals odf_T)", terms, inputs, "str * option (option Z)", shard=150)


# ------------------------------------------------------------------------------------------------ paths
def spec_path(p: str):
    """Executable right-hand side: name / extension / folder / normalised path of a POSIX path string."""
    if p.startswith("/"):
        root = "//" if p.startswith("//") and not p.startswith("///") else "/"
    else:
        root = ""
    parts = [c for c in p.split("/") if c not in ("", ".")]
    name = parts[-1] if parts else ""
    i = name.rfind(".")
    ext = name[i:] if 0 < i < len(name) - 1 else ""
    full = (root + "/".join(parts)) or "."
    par = (root + "/".join(parts[:-1])) or "." if parts else full
    return name, ext, full, par


def fs_record(q: str):
    try:
        e = Path(q).exists()
    except OSError:
        return None, ""
    return e, (str(Path(q).resolve()) if e else "")


def path_cases(ctx):
    rng = ctx.rng
    res = common.REPO / "sharepoint2text" / "tests" / "resources"
    comps = ["a", "dir", ".", "..", "", "a.zip!", "archive.tar.gz!", "\u00e9\u4e2d", "x.tar.gz", ".hidden", "name.", "a b", "\ud800",
             "a\x00b", "n" * 300, "...", "c.docx", "M.DOCX", "..docx", "a.b.c", "\U0001f600.pdf", "x.", " ", "\n", "a\\b", "~", "*", "é" * 130]
    roots = ["", "/", "//", "///", "./", "../", "/var/tmp/", "/nonexistent/", str(res) + "/", "/var/tmp/" + "d" * 256 + "/"]
    paths = ["", ".", "..", "/", "//", "///", "a.zip!/b/c.docx", "archive.zip!/dir/member.docx", "x.zip!/a.tar!/y.txt", "/abs/file.txt",
             "rel/file.tar.gz", "nonexistent.docx", str(res / "plain_text" / "plain.txt"), str(res / "plain_text") + "/", str(res),
             "/var/tmp", "/var/tmp/", "/var/tmp/.", "/var/tmp/../tmp/x", "n" * 300 + ".docx", "a.zip!/" + "b" * 300 + ".docx",
             "/var/tmp/" + "c" * 256, "/var/tmp/" + "c" * 255, "\u00fcber/stra\u00dfe.odt", "\ud800.docx", "x\x00y.docx", "/etc/passwd/x",
             "/proc/self/fd/999999", "tools", "tools/props/c04.py", "./check", ".hidden", "dir/.hidden", "dir/name.", "a/./b/../c.txt//"]
    for _ in range(ctx.n(150, 2500)):
        k = rng.randint(0, 4)
        p = rng.choice(roots) + "/".join(rng.choice(comps) for _ in range(k)) + rng.choice(["", "", "/", "/.", "//"])
        paths.append(p)
    seen, out = set(), []
    for p in paths:
        if p not in seen:
            seen.add(p)
            out.append(p)
    return out


def path_histories(ctx, terms, infos):
    import shutil
    import tempfile
    import sharepoint2text as s2t
    from sharepoint2text.parsing.extractors.data_types import FileMetadataInterface
    so = lambda x: coq_opt(x, cstr)
    cwd0 = os.getcwd()
    td = tempfile.mkdtemp(prefix="c04-hist-", dir="/var/tmp")
    T = Path(td)

    def call(p, step, scenario):
        """One call of the real function in the current state + its oracle values recorded right now."""
        pp = Path(p)
        sp, spar = str(pp), str(pp.parent)
        fs = {q: fs_record(q) for q in (sp, spar)}
        name, ext, full, par = spec_path(p)
        want = (name, ext, fs[sp][1] if fs[sp][0] else full, fs[spar][1] if fs[spar][0] else par)
        gots = []
        m = FileMetadataInterface()
        try:
            m.populate_from_path(p)
            gots.append(("populate_from_path", (m.filename, m.file_extension, m.file_path, m.folder_path)))
        except Exception as e:  # noqa
            ctx.finding(f"path-raises:{type(e).__name__}", f"populate_from_path({p!r:.80}) raises {e!r:.160} [{scenario} step {step}]", {"path": p})
        try:
            md = next(iter(s2t.read_plain_text(io.BytesIO(b"x"), path=p))).get_metadata()
            gots.append(("read_plain_text", (md.filename, md.file_extension, md.file_path, md.folder_path)))
        except Exception as e:  # noqa
            ctx.finding(f"reader-path-raises:read_plain_text:{type(e).__name__}", f"read_plain_text(path={p!r:.80}) raises {e!r:.160}", {"path": p})
        ctx.case(("path-history", scenario, step, p, os.getcwd().replace(td, "<T>")), True, kind="path:history")
        for who, got in gots:
            if got != want:
                which = ",".join(n_ for n_, g_, w_ in zip(("filename", "file_extension", "file_path", "folder_path"), got, want) if g_ != w_)
                ctx.finding("path-metadata-history-dependent:" + which,
                            f"{who}({p!r:.80}) in scenario '{scenario}', step {step} (cwd {os.getcwd().replace(td, '<T>')}): {which} = "
                            f"{tuple(g_ for g_, w_ in zip(got, want) if g_ != w_)!r:.200}, the file system now says "
                            f"{tuple(w_ for g_, w_ in zip(got, want) if g_ != w_)!r:.200} — the answer describes an earlier call",
                            {"path": p, "scenario": scenario, "step": step, "got": got, "want": want,
                             "how": "same process; see tools/props/c04.py path_histories for the sequence of chdir/mkdir/symlink steps"})
        if gots:
            got = gots[0][1]
            fsl = coq_list([pair(cstr(q), pair(coq_opt(e, coq_bool), cstr(r))) for q, (e, r) in fs.items()])
            terms.append(pair("(Some " + cstr(p) + ")", fsl, "(Some " + pair(so(got[0]), so(got[1]), so(got[2]), so(got[3])) + ")"))
            infos.append((scenario, step, p))

    try:
        for d in ("A/docs", "B/docs", "C", "real1", "real2"):
            (T / d).mkdir(parents=True)
        (T / "A/docs/report.txt").write_text("a")
        (T / "B/docs/report.txt").write_text("b")
        rel = "docs/report.txt"
        # 1. the same relative path from different working directories (both orders, and back again)
        for k, d in enumerate(("A", "B", "C", "A", "C", "B")):
            os.chdir(T / d)
            call(rel, k, "relative path, cwd A/B/C")
            call("report.txt", k, "bare name, cwd A/B/C")
            call("./docs/../docs/report.txt", k, "dotted relative path, cwd A/B/C")
        os.chdir(T)
        # 2. a parent that does not exist, then exists, then holds the file, then is gone again
        newp = str(T / "late" / "sub" / "x.txt")
        call(newp, 0, "parent appears")
        (T / "late" / "sub").mkdir(parents=True)
        call(newp, 1, "parent appears")
        (T / "late" / "sub" / "x.txt").write_text("x")
        call(newp, 2, "parent appears")
        shutil.rmtree(T / "late")
        call(newp, 3, "parent appears")
        # 3. a symlinked parent that is re-targeted between calls
        link = T / "link"
        for k, target in enumerate(("real1", "real2", None, "real1")):
            if link.is_symlink():
                link.unlink()
            if target:
                link.symlink_to(T / target, target_is_directory=True)
            call(str(link / "f.txt"), k, "symlinked parent re-targeted")
            call("link/f.txt", k, "symlinked parent re-targeted (relative)")
        # 4. a directory replaced by a file of the same name
        (T / "shape").mkdir()
        call(str(T / "shape" / "y.txt"), 0, "directory becomes file")
        (T / "shape").rmdir()
        (T / "shape").write_text("now a file")
        call(str(T / "shape" / "y.txt"), 1, "directory becomes file")
    finally:
        os.chdir(cwd0)
        shutil.rmtree(td, ignore_errors=True)


# ------------------------------------------------------------------------------------------------ memoisation obligation (ast)
_FS_NAMES = {"exists", "resolve", "stat", "lstat", "is_file", "is_dir", "is_symlink", "absolute", "cwd", "getcwd", "expanduser", "home",
             "samefile", "iterdir", "glob", "rglob", "realpath", "abspath", "open", "readlink", "listdir", "scandir", "getenv", "environ",
             "_path_exists", "Path", "PurePath", "os", "mimetypes", "guess_type", "time", "now", "today"}
_SAFE_CALLS = {"int", "float", "round", "str", "len", "max", "min", "sorted", "tuple", "list", "dict", "set", "isinstance", "bool", "abs",
               "lower", "upper", "strip", "lstrip", "rstrip", "group", "groups", "match", "search", "fullmatch", "get", "startswith",
               "endswith", "split", "join", "replace", "isdigit", "isalpha", "isfinite", "compile", "format", "encode", "decode"}


def memo_obligation(ctx):
    """No functools cache / module-level memo on data_types.py code whose result depends on the file system, the
    working directory or the environment (fail closed: a cached function must be provably made of safe calls)."""
    from sharepoint2text.parsing.extractors import data_types as dt
    src = Path(inspect.getsourcefile(dt)).read_text(encoding="utf-8")
    tree = ast.parse(src)
    funcs = {}
    for node in ast.walk(tree):
        if isinstance(node, (ast.FunctionDef, ast.AsyncFunctionDef)):
            funcs.setdefault(node.name, node)
    memo_names = set()
    for node in tree.body:
        tgt, val = None, None
        if isinstance(node, ast.Assign) and len(node.targets) == 1 and isinstance(node.targets[0], ast.Name):
            tgt, val = node.targets[0].id, node.value
        elif isinstance(node, ast.AnnAssign) and isinstance(node.target, ast.Name) and node.value is not None:
            tgt, val = node.target.id, node.value
        if tgt and ((isinstance(val, (ast.Dict, ast.List, ast.Set)) and not (getattr(val, "keys", None) or getattr(val, "elts", None)))
                    or (isinstance(val, ast.Call) and getattr(val.func, "id", getattr(val.func, "attr", "")) in
                        ("dict", "list", "set", "defaultdict", "OrderedDict", "WeakValueDictionary", "WeakKeyDictionary"))):
            memo_names.add(tgt)

    def deco_name(d):
        d = d.func if isinstance(d, ast.Call) else d
        return d.attr if isinstance(d, ast.Attribute) else getattr(d, "id", "")

    def called_names(fn):
        out = set()
        for n in ast.walk(fn):
            if isinstance(n, ast.Call):
                f = n.func
                out.add(f.attr if isinstance(f, ast.Attribute) else getattr(f, "id", "?"))
            elif isinstance(n, ast.Attribute):
                out.add(n.attr)
            elif isinstance(n, ast.Name):
                out.add(n.id)
        return out

    cached = []
    for name, fn in funcs.items():
        decos = [deco_name(d) for d in fn.decorator_list]
        how = [d for d in decos if d in ("lru_cache", "cache", "cached_property", "memoize", "memoized")]
        for n in ast.walk(fn):     # writes into a module-level container = hand-made memo
            if isinstance(n, ast.Subscript) and isinstance(n.ctx, ast.Store) and getattr(n.value, "id", None) in memo_names:
                how.append("memo:" + n.value.id)
            if isinstance(n, ast.Call) and isinstance(n.func, ast.Attribute) and getattr(n.func.value, "id", None) in memo_names \
                    and n.func.attr in ("setdefault", "update", "append", "add"):
                how.append("memo:" + n.func.value.id)
        if how:
            cached.append((name, sorted(set(how)), fn))
    bad, listed = [], []
    for name, how, fn in cached:
        seen, todo, reasons = set(), [fn], []
        while todo:
            f = todo.pop()
            if f.name in seen:
                continue
            seen.add(f.name)
            for c in called_names(f):
                if c in _FS_NAMES:
                    reasons.append(f"{f.name} uses {c}")
                elif c in funcs and c not in seen:
                    todo.append(funcs[c])
            for n in ast.walk(f):
                if isinstance(n, ast.Call):
                    fnm = n.func.attr if isinstance(n.func, ast.Attribute) else getattr(n.func, "id", "?")
                    if fnm not in _SAFE_CALLS and fnm not in funcs and fnm not in _FS_NAMES:
                        reasons.append(f"{f.name} calls {fnm} (not known to be pure)")
        listed.append(f"{name} [{', '.join(how)}]")
        if reasons:
            bad.append(f"{name} [{', '.join(how)}]: " + "; ".join(sorted(set(reasons))[:4]))
    ctx.extra["data_types_cached_functions"] = listed
    ctx.obligation("ast:data_types.py has no file-system/cwd-dependent memoisation (cached functions: %s)" % (", ".join(listed) or "none"),
                   not bad, "; ".join(bad))
    return bad


def inventory_obligation(ctx):
    """Fail closed when data_types.py grows an image / table class the models do not know, or when an image class stops
    defining one of the five interface accessors itself."""
    from sharepoint2text.parsing.extractors import data_types as dt
    classes = {n: c for n, c in vars(dt).items() if isinstance(c, type) and c.__module__ == dt.__name__ and not getattr(c, "_is_protocol", False)}
    imgs = sorted(n for n, c in classes.items() if "get_bytes" in vars(c))
    tabs = sorted(n for n, c in classes.items() if "get_dim" in vars(c))
    results = sorted(n for n, c in classes.items() if "iterate_units" in vars(c) and "get_full_text" in vars(c))
    want_t = sorted(["TableData", "XlsxSheet", "OdsSheet", "OdtTable", "RtfTable", "XlsSheet"])
    missing = [f"{n}.{a}" for n in imgs for a in ("get_bytes", "get_content_type", "get_caption", "get_description", "get_metadata")
               if a not in vars(classes[n])]
    ok = imgs == sorted(IMG_CLASSES) and tabs == want_t and not missing
    ctx.extra["inventory"] = {"image_classes": imgs, "table_classes": tabs, "result_classes": results}
    ctx.obligation("inventory:image and table classes of data_types.py are exactly the modelled ones", ok,
                   f"image classes {imgs} vs modelled {sorted(IMG_CLASSES)}; table classes {tabs} vs modelled {want_t}; "
                   f"accessors not defined by the class itself: {missing}")


def run_imeta(ctx, tb):
    """ImageMetadata under random sequences of attribute / item / alias assignments vs the model."""
    from sharepoint2text.parsing.extractors.data_types import ImageMetadata
    rng = ctx.rng
    fields = ["unit_number", "image_number", "content_type", "width", "height"]
    fcoq = dict(zip(fields, ["FUnit", "FNum", "FCtype", "FWidth", "FHeight"]))
    vals = [None, 0, 1, -3, 7, 2 ** 40, "", "image/png", "x y", "\u00fc"]

    def mv(v):
        if v is None:
            return "(MOptZ None)"
        if isinstance(v, int):
            return f"(MZ {Zs(v)})"
        return f"(MStr {cstr(v)})"
    terms, infos = [], []
    for k in range(ctx.n(250, 2500)):
        init = [rng.choice(vals) for _ in fields]
        md = ImageMetadata(**dict(zip(fields, init)))
        ops, log = [], []
        for _ in range(rng.randint(0, 7)):
            kind = rng.choice(["attr", "attr", "item", "item", "other", "uidx", "iidx"])
            v = rng.choice(vals)
            if kind == "attr":
                f = rng.choice(fields)
                setattr(md, f, v)
                ops.append(f"(OSetAttr {fcoq[f]} {mv(v)})")
            elif kind == "item":
                key = rng.choice(fields + ["extra", "caption", "unit_index", ""])
                md[key] = v
                ops.append(f"(OSetItem {cstr(key)} {mv(v)})")
            elif kind == "other":
                object.__setattr__(md, "_c04_probe", v) if False else setattr(md, "note", v)
                ops.append(f"(OSetOtherAttr {mv(v)})")
            elif kind == "uidx":
                md.unit_index = v
                ops.append(f"(OSetUnitIndex {mv(v)})")
            else:
                md.image_index = v
                ops.append(f"(OSetImageIndex {mv(v)})")
            log.append((kind, v))
        # property oracle: both views agree on every dataclass field, aliases read the fields
        for f in fields:
            if dict.get(md, f, "<missing>") != getattr(md, f) or type(dict.get(md, f)) is not type(getattr(md, f)):
                ctx.finding("metadata-dict-view-differs:ImageMetadata", f"after {log!r:.200} item {f} = {dict.get(md, f)!r} but attribute = {getattr(md, f)!r}",
                            {"init": init, "ops": log})
        if md.unit_index != md.unit_number or md.image_index != md.image_number:
            ctx.finding("metadata-alias-differs:ImageMetadata", f"unit_index/image_index differ from unit_number/image_number after {log!r:.200}", {"init": init, "ops": log})
        ctx.case(("imeta", tuple(init), tuple(log)), bool(log), kind="imeta:ops")
        fin = pair(*[mv(getattr(md, f)) for f in fields])
        items = coq_list([pair(cstr(k_), mv(v_)) for k_, v_ in dict.items(md)])
        terms.append(pair(pair(*[mv(v) for v in init]), coq_list(ops), fin, items))
        infos.append((init, log))
    corr(ctx, "image_metadata_mutation", "imeta_case", terms, infos,
         "(mval * mval * mval * mval * mval) * list iop * (mval * mval * mval * mval * mval) * list (str * mval)", shard=400)


def run_paths(ctx, tb):
    from sharepoint2text.parsing.extractors.data_types import FileMetadataInterface
    paths = path_cases(ctx)
    so = lambda x: coq_opt(x, cstr)
    terms, infos, pure = [], [], []
    m0 = FileMetadataInterface()
    m0.populate_from_path(None)
    got0 = (m0.filename, m0.file_extension, m0.file_path, m0.folder_path)
    if got0 != (None, None, None, None):
        ctx.finding("path-none-not-none", f"populate_from_path(None) sets {got0}", {"path": None})
    terms.append(pair("None", "[]", "(Some " + pair(so(got0[0]), so(got0[1]), so(got0[2]), so(got0[3])) + ")"))
    infos.append(None)
    for p in paths:
        pp = Path(p)
        sp, spar = str(pp), str(pp.parent)
        pure.append(pair(cstr(p), cstr(sp), cstr(pp.name), cstr(pp.suffix), cstr(spar)))
        fs = {q: fs_record(q) for q in (sp, spar)}
        m = FileMetadataInterface()
        try:
            m.populate_from_path(p)
            got = (m.filename, m.file_extension, m.file_path, m.folder_path)
        except OSError as e:
            got = None
            ctx.finding("path-exists-oserror",
                        f"populate_from_path raises {type(e).__name__} (errno {e.errno}) for a non-existent path whose "
                        f"component is too long for the file system (path of {len(p)} characters): Path.exists() re-raises",
                        {"path": p, "error": repr(e)})
        except Exception as e:  # noqa
            got = None
            ctx.finding(f"path-raises:{type(e).__name__}", f"populate_from_path({p!r:.100}) raises {e!r:.200}", {"path": p})
        ctx.case(("path", p), "/" in p or "." in p, kind="path:" + ("exists" if fs[sp][0] else "missing" if fs[sp][0] is False else "oserror"))
        # property oracle: derived from the path argument
        if got is not None:
            name, ext, full, par = spec_path(p)
            want_fp = fs[sp][1] if fs[sp][0] else full
            want_dp = fs[spar][1] if fs[spar][0] else par
            if got != (name, ext, want_fp, want_dp):
                wantt = (name, ext, want_fp, want_dp)
                which = ",".join(n_ for n_, g_, w_ in zip(("filename", "file_extension", "file_path", "folder_path"), got, wantt) if g_ != w_)
                ctx.finding("path-metadata-mismatch:" + which,
                            f"metadata of path {p!r:.100} is {got!r:.300}, derived from the path: {(name, ext, want_fp, want_dp)!r:.300}",
                            {"path": p, "got": got, "want": (name, ext, want_fp, want_dp)})
        fsl = coq_list([pair(cstr(q), pair(coq_opt(e, coq_bool), cstr(r))) for q, (e, r) in fs.items()])
        want = "None" if got is None else "(Some " + pair(so(got[0]), so(got[1]), so(got[2]), so(got[3])) + ")"
        terms.append(pair("(Some " + cstr(p) + ")", fsl, want))
        infos.append(p)
    # the SAME path strings under changing file-system states and working directories, in this one process:
    # every call is compared with the model on that call's oracle values — the result is a function of
    # (path, file system now), never of earlier calls
    path_histories(ctx, terms, infos)
    corr(ctx, "populate_from_path", "(path_case path_guard)", terms, infos,
         "option str * list (str * (option bool * str)) * option (option str * option str * option str * option str)")
    corr(ctx, "pathlib", "purepath_case", pure, paths, "str * str * str * str * str")
    # end to end: extractors hand the path argument to the metadata
    import sharepoint2text as s2t
    for p in paths[:ctx.n(60, 400)] + [None]:
        for rd, data in ((s2t.read_plain_text, b"hello"), (s2t.read_rtf, b"{\\rtf1 hi}"), (s2t.read_html, b"<p>x</p>")):
            try:
                r = next(iter(rd(io.BytesIO(data), path=p)))
                md = r.get_metadata()
                got = (md.filename, md.file_extension, md.folder_path)
            except Exception as e:  # noqa
                cause = getattr(e, "__cause__", None)
                if isinstance(cause, OSError) or isinstance(e, OSError):
                    ctx.finding("path-exists-oserror", f"{rd.__name__}(..., path=<{len(p or '')} chars>) fails: {e!r:.200}",
                                {"path": p, "reader": rd.__name__})
                else:
                    ctx.finding(f"reader-path-raises:{rd.__name__}:{type(e).__name__}",
                                f"{rd.__name__}(path={p!r:.80}) raises {e!r:.200}", {"path": p, "reader": rd.__name__})
                continue
            ctx.case(("reader-path", rd.__name__, p), True, kind="reader-path")
            if p is None:
                want = (None, None, None)
            else:
                name, ext, full, par = spec_path(p)
                e_, r_ = fs_record(str(Path(p).parent))
                want = (name, ext, r_ if e_ else par)
            if got != want:
                ctx.finding(f"reader-path-metadata:{rd.__name__}", f"{rd.__name__}(path={p!r:.80}).get_metadata() = {got!r:.200}, "
                            f"derived from the path: {want!r:.200}", {"path": p, "reader": rd.__name__, "got": got, "want": want})


# ------------------------------------------------------------------------------------------------ RTF decoder
RTF_TOKENS = ["\\u55357?", "\\u56832?", "\\u-10179?", "\\u-8704?", "\\u8364?", "\\u65", "\\u65?", "\\u", "\\u-", "\\u-?", "\\ul ", "\\uc1 ",
              "\\u0", "\\u65536?", "\\u99999999999", "\\'e9", "\\'E9", "\\'zz", "\\' 5", "\\'5 ", "\\'-0", "\\'-5", "\\'+5", "\\'", "\\'a", "\\'0x",
              "\\'\u0663a", "\\'a\x1c", "\\'\x1fa", "\\'a\x0b", "\\'a\x85", "\\'\xa0a", "\\'a\x7f", "\\par ", "\\par", "\\line ", "\\page ", "\\page", "\\sbkpage ", "\\page1 ", "\\pagebb ", "\\par-3 ", "\\tab ",
              "\\bullet ", "\\emdash", "\\endash ", "\\lquote ", "\\rdblquote ", "\\enspace ", "\\qmspace ", "\\fs24 ", "\\b0", "\\b ",
              "\\f0\\fs20 ", "\\~", "\\_", "\\-", "\\\\", "\\{", "\\}", "\\", "{", "}", "{\\*\\generator Riched20;}", "{\\*\\x{\\y z}w}v",
              "{\\fonttbl{\\f0 Arial;}}", "{\\pict\\pngblip 0102}", "{\\info{\\title T}}", "{\\header H}", "{\\object x}", "{\\fldinst Z}",
              "{\\stylesheet{\\s0 N;}}", "{\\b bold}", "{\\listtablex y}", "text", "Hello World", " ", "  ", "\t", " \t ", "\n", "\n\n\n\n", "\r",
              "\r\n", "\u00e9", "\u4e2d", "\U0001f600", "\u0663", "\u00b2", "\u2003", "\\\u00e9", "\\\u4e2dx", "\\u\u0663\u0663?", "\\par\u00b2 ",
              "\\tab\u0663 ", "\\\u00b2", "\\*", "\\:", "\\|", "\x0b", "\x0c", "\x1c", "\x85", "\xa0", "x\\page y", "\\par\\par\\par\\par", "a  b\t\tc"]


def rtf_inputs(ctx):
    rng = ctx.rng
    out = ["\\u55357?\\u56832?", "{\\rtf1 \\u55357?\\u56832? x}", "{\\rtf1 \\u55357? \\u56832?}", "\\u56832?\\u55357?", "\\u55357?\\page \\u56832?",
           "\\u55357?", "a\\u56832?b", "{\\rtf1\\ansi\\deff0 {\\fonttbl{\\f0 Arial;}}\\f0\\fs24 Hello\\par World\\page Next}", "", "\\", "{", "}",
           "{\\*\\a{\\*\\b x}y}z", "\\'e", "\\'e9x", "x\\", "\\u", "\\u-", "\\page", "\\page\\page", " \\page ", "\n\n\n\\page\n\n\n\nx\n\n\n"]
    out += list(RTF_TOKENS)
    for _ in range(ctx.n(500, 6000)):
        k = rng.randint(1, 9)
        out.append("".join(rng.choice(RTF_TOKENS) for _ in range(k)))
    if ctx.tier == "thorough":
        out += ["\\u" + "1" * 4300 + "?", "\\u" + "1" * 4301 + "?", "x\\u-" + "7" * 4301]
    seen, res = set(), []
    for x in out:
        if x not in seen:
            seen.add(x)
            res.append(x)
    return res


def run_rtf(ctx, tb):
    from sharepoint2text.parsing.extractors.ms_legacy import rtf_extractor as rx
    inputs = rtf_inputs(ctx)
    terms = []
    for x in inputs:
        p = rx._RtfParser(b"")
        try:
            joined = p._strip_rtf_full_with_pages(x)
            want = "(Some " + pair(cstr(joined), coq_list([cstr(pg) for pg in p.pages])) + ")"
            bad = [t for t in [joined] + list(p.pages) if any(0xD800 <= ord(c) <= 0xDFFF for c in t)]
            if bad and not any(0xD800 <= ord(c) <= 0xDFFF for c in x):
                ctx.finding("rtf-unicode-escape-lone-surrogate",
                            f"RTF body decoder turns well-formed input {x!r:.80} into text with lone surrogates {bad[0]!r:.60} "
                            "(\\uN decoded one by one with chr(N & 0xFFFF)); get_full_text().encode('utf-8') fails",
                            {"rtf_text": x, "call": "_RtfParser(b'')._strip_rtf_full_with_pages(text)", "output": joined})
        except ValueError:
            want = "None"
        alphas = sorted({ord(c) for c in x if c.isalpha()})
        digits = sorted({ord(c) for c in x if c.isdigit()})
        ctx.case(("rtf", x), "\\" in x, kind="rtf:" + ("unicode-escape" if "\\u" in x else "other"))
        terms.append(pair(cstr(x), nlist(alphas), nlist(digits), want))
    corr(ctx, "rtf_strip_full", "(rtf_case spaces decimals rtf_T)", terms, inputs, "str * list N * list N * option (str * list str)", shard=250)
    # _repair_surrogates (when present) against its model
    rep = getattr(rx, "_repair_surrogates", None)
    if rep is not None:
        rng = ctx.rng
        alpha = ["a", "\ud83d", "\ude00", "\ud800", "\udbff", "\udc00", "\udfff", "\U0001f600", "\uffff", "\ue000", "\ud7ff", "\U0010ffff", "\x00"]
        ins = ["", "\ud83d\ude00", "\ude00\ud83d", "\ud83d\ud83d\ude00", "\ud83d"] + \
              ["".join(rng.choice(alpha) for _ in range(rng.randint(0, 7))) for _ in range(ctx.n(300, 3000))]
        ins = list(dict.fromkeys(ins))
        terms2 = []
        for x in ins:
            y = rep(x)
            ctx.case(("repair", x), True, kind="rtf:repair")
            try:
                y.encode("utf-8")
            except UnicodeEncodeError:
                ctx.finding("rtf-repair-not-utf8", f"_repair_surrogates({x!r}) = {y!r} is not encodable", {"input": x})
            terms2.append(pair(cstr(x), cstr(y)))
        corr(ctx, "repair_surrogates", "repair_case", terms2, ins, "str * str", shard=800)
    # whole extractor on RTF documents with escapes in body, header, footnote, table cell, info
    import sharepoint2text as s2t
    docs = {
        "body-pair": b"{\\rtf1 \\u55357?\\u56832? x}",
        "body-lone-high": b"{\\rtf1 a\\u55357?b}",
        "body-lone-low": b"{\\rtf1 a\\u56832?b\\par}",
        "negative-pair": b"{\\rtf1 \\u-10179?\\u-8704?}",
        "header-pair": b"{\\rtf1{\\header \\u55357?\\u56832? head}\\pard body\\par}",
        "footnote-pair": b"{\\rtf1 body{\\footnote \\u55357?\\u56832? note}\\par}",
        "cell-pair": b"{\\rtf1\\trowd\\cellx1000\\cellx2000 \\u55357?\\u56832?\\cell b\\cell\\row\\pard after\\par}",
        "hyperlink-pair": b'{\\rtf1{\\field{\\*\\fldinst{HYPERLINK "http://x"}}{\\fldrslt{\\u55357?\\u56832?}}}\\par}',
        "page-split-pair": b"{\\rtf1 \\u55357?\\page \\u56832? x}",
        "info-pair": b"{\\rtf1{\\info{\\title \\u55357?\\u56832?}{\\author A}}\\pard x\\par}",
        "hex-high": b"{\\rtf1 \\'ff\\'80\\'00 x}",
        "not-rtf-latin1": b"\xff\xfe plain \xed\xa0\xbd",
        "controls": b"{\\rtf1 a\x00b\x01c\x7f\\par \\u0? \\u1? \\u65535? \\u65534?}",
    }
    # RTF info group: stored title/author/subject/keywords reach RtfMetadata unchanged
    info_vals = [("Plain Title", "Plain Title", "plain"), ("J\\'fcrgen", "J\u00fcrgen", "hex-escape"),
                 ("Pr\\u8364?is", "Pr\u20acis", "unicode-escape"), ("  padded  ", "padded", "padded")]
    for i_, v in enumerate(HOSTILE_VALUES):
        if v.isascii() and len(v) < 200 and not any(c in v for c in "{}\\\n\t"):
            info_vals.append((v, v.strip(), f"hostile-{i_}"))
    for enc, want, tag in info_vals:
        data = ("{\\rtf1\\ansi{\\info{\\title %s}{\\author %s}{\\subject %s}{\\keywords %s}}\\pard x\\par}" % (enc, enc, enc, enc)).encode("ascii")
        try:
            md = next(iter(s2t.read_rtf(io.BytesIO(data), path=None))).get_metadata()
        except Exception as e:  # noqa
            ctx.finding(f"rtf-info-raises:{tag}", f"read_rtf raises on an info group ({tag}): {e!r:.160}", {"rtf_bytes": data})
            continue
        ctx.case(("rtf-info", tag), True, kind="props:read_rtf")
        for fld in ("title", "author", "subject", "keywords"):
            got = getattr(md, fld)
            if got != want:
                key = "rtf-info-unicode-escape-dropped" if tag == "unicode-escape" else f"props-changed:read_rtf:{fld}"
                ctx.finding(key, f"read_rtf: info-group {fld} written as {enc!r} (i.e. {want!r}) is reported as {got!r}",
                            {"rtf_bytes": data, "field": fld, "got": got, "want": want})
    for key, data in docs.items():
        try:
            for r in s2t.read_rtf(io.BytesIO(data), path=None):
                exercise(ctx, r, f"rtf-doc:{key}", None, {"rtf_bytes": data, "call": "read_rtf(io.BytesIO(rtf_bytes))"},
                         utf8_key="rtf-unicode-escape-lone-surrogate")
        except Exception as e:  # noqa
            ctx.finding(f"rtf-doc-raises:{key}", f"read_rtf on hostile RTF {key} raises {e!r:.200}", {"rtf_bytes": data})


INFO_TOKENS = ["Title", "Dragon Ball Z", " ", "  ", "J", "\\'fc", "rgen", "\\'e9", "\\'E9", "\\'zz", "\\'5c", "\\'7b", "\\'a0", "\\'85", "\\'",
               "\\u8364?", "\\u8364", "\\u8364 ", "\\u8364?is", "\\u55357?\\u56832?", "\\u55357?", "\\u56832?", "\\u-10179?\\u-8704?", "\\u-3?",
               "\\u", "\\u-", "\\u65B", "\\u\u0663?", "\\u92?b", "\\~", "\\par ", "\\b0 x", "\\b", "\\fs24  y", "\\\u212a1 ", "\\\u017f", "\\\u0131x",
               "\\-", "\\_", "\\\\", "\\{", "{", "{\\b x", "a,b;", "\u00fc", "\u4e2d", "\U0001f600", "\t", "\n", "\u2003", "\\par\u0663\u2003z", "?", "\\'e9\\'e9"]


def run_rtf_text(ctx, tb):
    """get_value (info group) and _strip_rtf_simple against their models; property oracle on both."""
    from sharepoint2text.parsing.extractors.ms_legacy import rtf_extractor as rx
    rng = ctx.rng
    encs = list(INFO_TOKENS) + ["".join(rng.choice(INFO_TOKENS) for _ in range(rng.randint(1, 6))) for _ in range(ctx.n(350, 4000))]
    if ctx.tier == "thorough":
        encs += ["\\u" + "1" * 4300 + "?", "\\u" + "1" * 4301 + "?"]
    encs = [e for e in dict.fromkeys(encs) if "}" not in e]
    terms = []
    for enc in encs:
        p = rx._RtfParser(b"")
        try:
            p._extract_metadata("{\\rtf1{\\info{\\title " + enc + "}}\\pard x}")
            got = p.metadata.title
            want = "(Some " + cstr(got) + ")"
            if not utf8_ok(got) and utf8_ok(enc):
                ctx.finding("rtf-info-lone-surrogate", f"info-group value {enc!r:.80} is reported with lone surrogates {got!r:.60}", {"enc": enc})
        except ValueError:
            want = "None"
        ctx.case(("rtf-info-value", enc), "\\" in enc, kind="rtf:info-value")
        terms.append(pair(cstr(enc), want))
    corr(ctx, "rtf_info_value", "(info_case spaces decimals az_ci_table info_unicode (repair rtf_T))", terms, encs, "str * option str", shard=250)
    toks = RTF_TOKENS + ["{\\pict abc}", "{\\PICT{\\x y}z}", "{\\object {a}{b}}", "{\\*\\unbalanced {", "{\\pictx}", "\\par\\tab", "\\par{", "\\par}", "\\par\t\n x",
                         "\\pard ", "\\b-3 ", "\\b- ", "\\b-x", "\\fs24\u2003y", "\\\u212a1 ", "\\emdash-", "\\cell ", "\\row", "\\~x", "\\_ ", "\\-\\"]
    ins = list(toks) + ["".join(rng.choice(toks) for _ in range(rng.randint(1, 8))) for _ in range(ctx.n(350, 4000))]
    if ctx.tier == "thorough":
        ins += ["x\\u" + "1" * 4301 + "?"]
    ins = [x for x in dict.fromkeys(ins) if len(x.lower()) == len(x)]
    terms = []
    for x in ins:
        p = rx._RtfParser(b"")
        try:
            got = p._strip_rtf_simple(x)
            want = "(Some " + cstr(got) + ")"
            if not utf8_ok(got) and utf8_ok(x):
                ctx.finding("rtf-unicode-escape-lone-surrogate", f"_strip_rtf_simple turns well-formed {x!r:.80} into {got!r:.60} with lone surrogates",
                            {"rtf_text": x, "call": "_RtfParser(b'')._strip_rtf_simple(text)"})
        except ValueError:
            want = "None"
        except Exception as e:  # noqa
            want = "None"
            ctx.finding(f"rtf-strip-simple-raises:{type(e).__name__}", f"_strip_rtf_simple({x!r:.80}) raises {e!r:.120}", {"rtf_text": x})
        ctx.case(("rtf-simple", x), "\\" in x, kind="rtf:strip-simple")
        terms.append(pair(cstr(x), want))
    corr(ctx, "rtf_strip_simple", "(simple_case spaces decimals az_ci_table rtf_T)", terms, ins, "str * option str", shard=250)


# ------------------------------------------------------------------------------------------------ the accessor sweep
class _Timeout(Exception):
    pass


def _alarm(signum, frame):
    raise _Timeout()


def utf8_ok(x) -> bool:
    try:
        x.encode("utf-8")
        return True
    except UnicodeEncodeError:
        return False


def exercise(ctx, r, origin, path_arg, replay, utf8_key=None, check_size=True, strict_numbers=True):
    """Call every accessor of result r and everything reachable; assert the statement's right-hand side.
    Findings are keyed by class.accessor and kind, so one defect is one key whatever the input."""
    cls = type(r).__name__
    n_acc = 0

    def bad(kind, acc, detail):
        key = utf8_key if (kind == "not-utf8" and utf8_key) else f"{kind}:{acc}"
        if kind == "raises" and acc == "OpenDocumentImage.get_metadata" and "OverflowError" in detail:
            key = "odf-length-overflow"
        if kind == "not-utf8" and cls == "RtfContent":
            key = "rtf-unicode-escape-lone-surrogate"
        rp = dict(replay)
        rp.update({"origin": origin, "accessor": acc, "detail": detail})
        ctx.finding(key, f"{acc} on a result of {origin}: {kind} — {detail}"[:400], rp)

    def call(obj, name, *a):
        nonlocal n_acc
        n_acc += 1
        acc = f"{type(obj).__name__}.{name}"
        ctx.extra.setdefault("_acc_by_origin", {}).setdefault("instance" if origin.startswith("instance:") else "extracted", set()).add(acc)
        try:
            v = getattr(obj, name)(*a)
            if isinstance(v, types.GeneratorType) or (hasattr(v, "__next__") and not isinstance(v, io.IOBase)):
                v = list(v)
            return True, v
        except Exception as e:  # noqa
            bad("raises", acc, f"{type(e).__name__}: {e}"[:200])
            return False, None

    def text(obj, name):
        ok, v = call(obj, name)
        if ok:
            acc = f"{type(obj).__name__}.{name}"
            if not isinstance(v, str):
                bad("not-str", acc, f"returned {type(v).__name__}")
            elif not utf8_ok(v):
                bad("not-utf8", acc, f"lone surrogate in {v[:60]!r}")
        return v

    def image(img):
        ok, b = call(img, "get_bytes")
        acc = f"{type(img).__name__}.get_bytes"
        if ok:
            if not isinstance(b, io.BytesIO):
                bad("not-bytesio", acc, type(b).__name__)
            else:
                if b.tell() != 0:
                    bad("stream-not-at-0", acc, f"tell() = {b.tell()}")
                n = len(b.read())
                # an earlier reader left the stream at its end: the next get_bytes() must again be at 0 with the same bytes
                ok2, b2 = call(img, "get_bytes")
                if ok2 and isinstance(b2, io.BytesIO):
                    if b2.tell() != 0:
                        bad("stream-not-at-0", acc, f"second get_bytes() after a full read: tell() = {b2.tell()}")
                    elif len(b2.read()) != n:
                        bad("stream-content-changed", acc, "second get_bytes() returns different bytes")
                    b2.seek(0)
                b.seek(0)
                size = getattr(img, "size_bytes", None)
                if check_size and size is not None and size != n:
                    bad("size-mismatch", acc, f"size_bytes = {size}, stream length = {n}")
        for nm in ("get_content_type", "get_caption", "get_description"):
            text(img, nm)
        ok, md = call(img, "get_metadata")
        if ok:
            acc = f"{type(img).__name__}.get_metadata"
            num = getattr(md, "image_number", None)
            if strict_numbers and not (isinstance(num, int) and not isinstance(num, bool) and num >= 1):
                bad("image-number-not-positive", acc, f"image_number = {num!r}")
            un = getattr(md, "unit_number", None)
            if strict_numbers and un is not None and not (isinstance(un, int) and un >= 1):
                bad("unit-number-not-positive", acc, f"unit_number = {un!r}")
            for d in ("width", "height"):
                v = getattr(md, d, None)
                if v is not None and not (isinstance(v, int) and v >= (0 if type(img).__name__ == "RtfImage" else 1)):
                    bad("dimension-not-positive", acc, f"{d} = {v!r}")
            for k in ("unit_number", "image_number", "content_type", "width", "height"):
                if dict.get(md, k, "<missing>") != getattr(md, k, "<noattr>"):
                    bad("metadata-dict-view-differs", acc, f"{k}: item {dict.get(md, k)!r} vs attribute {getattr(md, k, None)!r}")

    def table(t):
        ok, tb_ = call(t, "get_table")
        ok2, dm = call(t, "get_dim")
        if ok and ok2:
            acc = f"{type(t).__name__}.get_dim"
            try:
                rows = len(tb_)
                cols = max((len(row) for row in tb_), default=0)
            except TypeError as e:
                bad("table-not-rows", f"{type(t).__name__}.get_table", repr(e))
                return
            if (dm.rows, dm.columns) != (rows, cols):
                bad("dim-mismatch", acc, f"get_dim = ({dm.rows}, {dm.columns}), shape of get_table = ({rows}, {cols})")

    text(r, "get_full_text")
    ok, units = call(r, "iterate_units")
    for u in (units or []):
        text(u, "get_text")
        ok, imgs = call(u, "get_images")
        for i in (imgs or []):
            image(i)
        ok, tbs = call(u, "get_tables")
        for t in (tbs or []):
            table(t)
        ok, um = call(u, "get_metadata")
        if ok:
            un = getattr(um, "unit_number", None)
            if strict_numbers and not (isinstance(un, int) and not isinstance(un, bool) and un >= 1):
                bad("unit-number-not-positive", f"{type(u).__name__}.get_metadata", f"unit_number = {un!r}")
        call(u, "to_json")
    ok, imgs = call(r, "iterate_images")
    for i in (imgs or []):
        image(i)
    ok, tbs = call(r, "iterate_tables")
    for t in (tbs or []):
        table(t)
    ok, md = call(r, "get_metadata")
    if ok and path_arg is not ...:
        got = (md.filename, md.file_extension, md.folder_path, md.file_path)
        if path_arg is None:
            want = (None, None, None, None)
        else:
            name, ext, full, par = spec_path(str(path_arg))
            e_, r_ = fs_record(str(Path(str(path_arg)).parent))
            e2, r2 = fs_record(str(Path(str(path_arg))))
            want = (name, ext, r_ if e_ else par, r2 if e2 else full)
        if got != want:
            bad("path-metadata", f"{cls}.get_metadata", f"path argument {str(path_arg)!r:.80}: (filename, extension, folder_path, file_path) = "
                f"{got!r:.200} expected {want!r:.200}")
    okj, js = call(r, "to_json")
    if okj:
        # every string of the JSON form must be well-formed Unicode (a UTF-8 JSON file could not hold it otherwise)
        stack, n_seen = [("", js)], 0
        while stack and n_seen < 20000:
            where, v = stack.pop()
            n_seen += 1
            if isinstance(v, str):
                if not utf8_ok(v):
                    bad("not-utf8", f"{cls}.to_json", f"lone surrogate in the string at {where or '<root>'}: {v[:40]!r}")
                    break
            elif isinstance(v, dict):
                stack.extend((f"{where}.{k_}", x) for k_, x in v.items())
                stack.extend((f"{where}.<key>", k_) for k_ in v if isinstance(k_, str))
            elif isinstance(v, (list, tuple)):
                stack.extend((f"{where}[{i_}]", x) for i_, x in enumerate(v))
    ctx.case((origin, cls, n_acc), n_acc > 1, kind=f"sweep:{origin.split(':')[0]}:{cls}")


def fixture_files():
    root = common.REPO / "sharepoint2text" / "tests" / "resources"
    return sorted(p for p in root.rglob("*") if p.is_file())


def run_fixtures(ctx):
    import sharepoint2text as s2t
    from sharepoint2text.parsing.exceptions import ExtractionError
    signal.signal(signal.SIGALRM, _alarm)
    n_results = 0
    for f in fixture_files():
        rel = str(f.relative_to(common.REPO))
        is_archive = "archives" in f.parts
        try:
            signal.alarm(120)
            try:
                results = list(s2t.read_file(str(f)))
            finally:
                signal.alarm(0)
        except (ExtractionError, _Timeout):
            ctx.count("fixture:rejected")
            continue
        except Exception as e:  # noqa  (C01 owns the failure surface)
            ctx.count("fixture:other-error")
            continue
        for r in results:
            n_results += 1
            exercise(ctx, r, f"fixture:{rel}", ... if is_archive else str(f), {"file": rel, "call": "sharepoint2text.read_file(file)"},
                     utf8_key=None)
    ctx.extra["fixture_results"] = n_results
    ctx.obligation("sweep:fixtures yield results", n_results >= 60, f"only {n_results} results from fixtures")


class _ChildCtx:
    """What exercise() needs from a Ctx, inside a forked worker: every record goes to the parent as a JSON line."""
    def __init__(self, ctx, fd):
        self.tier, self.seed, self.extra, self._fd = ctx.tier, ctx.seed, {}, fd

    def _send(self, rec):
        import json
        os.write(self._fd, (json.dumps(common._jsonable(rec), ensure_ascii=True) + "\n").encode("ascii"))

    def finding(self, key, what, replay, found_input=True):
        self._send(["f", key, what, replay])

    def case(self, canon, nontrivial, kind=None):
        self._send(["c", repr(canon)[:300], bool(nontrivial), kind])

    def count(self, kind, k=1):
        self._send(["n", kind, k])


def run_forked(ctx, work, timeout):
    """Run work(child_ctx) in a forked worker under a hard watchdog (SIGKILL): third-party parsers can spin on mutated
    input where no Python-level alarm gets through.  Returns False when the worker had to be killed."""
    import json
    import select
    r, w = os.pipe()
    pid = os.fork()
    if pid == 0:
        code = 0
        try:
            os.close(r)
            signal.signal(signal.SIGALRM, signal.SIG_DFL)
            work(_ChildCtx(ctx, w))
        except BaseException:  # noqa
            code = 3
        finally:
            os._exit(code)
    os.close(w)
    deadline = time.time() + timeout
    buf, alive = b"", True
    while True:
        left = deadline - time.time()
        if left <= 0:
            alive = False
            break
        ready, _, _ = select.select([r], [], [], min(left, 1.0))
        if ready:
            chunk = os.read(r, 1 << 16)
            if not chunk:
                break
            buf += chunk
    if not alive:
        try:
            os.kill(pid, signal.SIGKILL)
        except OSError:
            pass
    os.close(r)
    try:
        os.waitpid(pid, 0)
    except OSError:
        pass
    for line in buf.split(b"\n"):
        if not line.strip():
            continue
        try:
            rec = json.loads(line)
        except ValueError:
            continue          # a line cut by the kill
        if rec[0] == "f":
            ctx.finding(rec[1], rec[2], rec[3])
        elif rec[0] == "c":
            ctx.case(rec[1], rec[2], rec[3])
        elif rec[0] == "n":
            ctx.count(rec[1], rec[2])
    return alive


def mutate(rng, data: bytes):
    b = bytearray(data)
    kind = rng.choice(["flip", "flip", "trunc", "burst", "zero"])
    if kind == "flip":
        for _ in range(rng.choice([1, 2, 8])):
            i = rng.randrange(len(b))
            b[i] ^= 1 << rng.randrange(8)
    elif kind == "trunc":
        b = b[: rng.randrange(max(1, len(b) // 2), len(b))]
    elif kind == "burst":
        i = rng.randrange(len(b))
        for j in range(i, min(len(b), i + rng.choice([4, 16, 64]))):
            b[j] = rng.randrange(256)
    else:
        i = rng.randrange(len(b))
        b[i:i + 32] = bytes(min(32, len(b) - i))
    return kind, bytes(b)


def run_mutants(ctx):
    """Mutated-but-accepted fixtures.  The implementation is never called on a mutant in this process: each fixture's
    mutants run in a forked worker with a hard watchdog (a hang is counted, it is C01/C12's subject, not an alarm here)."""
    from sharepoint2text.parsing import router
    rng = ctx.rng
    per = ctx.n(3, 14)
    killed = 0
    for f in fixture_files():
        if f.stat().st_size > ctx.n(600_000, 3_000_000) or "password" in str(f):
            continue
        data = f.read_bytes()
        if len(data) < 8:
            continue
        rel = str(f.relative_to(common.REPO))
        try:
            reader = router.get_extractor(str(f))
        except Exception:  # noqa
            continue
        mutants = [mutate(rng, data) for _ in range(per)]
        is_archive = "archives" in f.parts

        def work(cctx, mutants=mutants, reader=reader, f=f, rel=rel, is_archive=is_archive):
            for kind, b in mutants:
                try:
                    results = list(reader(io.BytesIO(b), path=str(f)))
                except BaseException:  # noqa  rejected inputs are outside this property
                    cctx.count("mutant:rejected")
                    continue
                cctx.count("mutant:accepted")
                for r in results:
                    exercise(cctx, r, f"mutant:{rel}", ... if is_archive else str(f),
                             {"file": rel, "mutation": kind, "mutant_bytes": b if len(b) < 200_000 else None,
                              "call": f"{reader.__name__}(io.BytesIO(mutant_bytes), path=file)"}, check_size=True)
        if not run_forked(ctx, work, timeout=ctx.n(40, 120)):
            killed += 1
            ctx.count("mutant:worker-killed-by-watchdog")
    ctx.extra["mutants_accepted"] = ctx.hist.get("mutant:accepted", 0)
    ctx.extra["mutant_workers_killed"] = killed


def rewrite_zip(src: Path, repl: dict) -> bytes:
    out = io.BytesIO()
    with zipfile.ZipFile(src) as zin, zipfile.ZipFile(out, "w", zipfile.ZIP_DEFLATED) as zout:
        for it in zin.infolist():
            d = zin.read(it.filename)
            if it.filename in repl:
                d = repl[it.filename](d)
            zout.writestr(it, d, compress_type=zipfile.ZIP_STORED if it.filename == "mimetype" else zipfile.ZIP_DEFLATED)
    return out.getvalue()


def run_label_docs(ctx, s2t, res):
    """Free-text labels (frame names, picture titles, alt texts) of ODF documents with headings drawn from HOSTILE_LABELS:
    every accessor must keep working.  Sampled: each label once as name+title+desc of all frames of headings.odt /
    image_extraction.odt / .odp, with a paragraph mentioning the label."""
    from xml.sax.saxutils import escape, quoteattr
    for rel, reader in (("open_office/headings.odt", s2t.read_odt), ("open_office/image_extraction.odt", s2t.read_odt),
                        ("open_office/image_extraction.odp", s2t.read_odp)):
        src = res / rel
        if not src.exists():
            continue
        for k, label in enumerate(HOSTILE_LABELS):
            if "\x00" in label:
                continue    # not XML

            def sub(d, label=label):
                x = d.decode("utf-8")
                x = re.sub(r'draw:name="[^"]*"', lambda m: "draw:name=" + quoteattr(label), x)
                x = re.sub(r"<svg:title>.*?</svg:title>|<svg:desc>.*?</svg:desc>", "", x, flags=re.S)
                x = re.sub(r"(<draw:image\b[^>]*/>)", lambda m: m.group(1) + f"<svg:title>{escape(label)}</svg:title><svg:desc>{escape(label)} alt</svg:desc>", x)
                x = re.sub(r"(<draw:image\b[^>]*>)(?!<svg:title>)(.*?</draw:image>)", lambda m: m.group(1) + m.group(2) +
                           f"<svg:title>{escape(label)}</svg:title><svg:desc>{escape(label)} alt</svg:desc>", x, flags=re.S)
                x = x.replace("</office:text>", f'<text:h text:outline-level="1">About {escape(label)}</text:h>'
                              f"<text:p>See {escape(label)} for details; {escape(label)}0 is something else.</text:p></office:text>", 1)
                return x.encode("utf-8")
            try:
                data = rewrite_zip(src, {"content.xml": sub})
                results = list(reader(io.BytesIO(data), path=None))
            except Exception:  # noqa
                ctx.count("hostile:rejected")
                continue
            for r in results:
                exercise(ctx, r, f"hostile-labels:{Path(rel).name}", None,
                         {"base_file": rel, "label": label, "how": "draw:name, svg:title and svg:desc of every frame in content.xml set to "
                          "the label; a heading and a paragraph mentioning the label appended", "call": reader.__name__})


def run_doc_captions(ctx, s2t, res):
    """A real .doc (fixture headings.doc: headings + one picture) whose body line is overwritten in place (same-size
    surgery on the WordDocument stream, tools/props/c08_writers.ole_patch) by a SEQ caption line carrying a hostile label:
    the label becomes DocImage.caption in the real extractor and meets the heading-based unit assembly."""
    try:
        from props.c08_writers import ole_patch, ole_read_stream
    except Exception as e:  # noqa
        ctx.obligation("generator:doc-captions (CFB surgery helper importable)", False, repr(e))
        return
    src = res / "legacy_ms" / "headings.doc"
    if not src.exists():
        ctx.obligation("generator:doc-captions (fixture headings.doc present)", False, "fixture missing")
        return
    data = src.read_bytes()
    line = "This is a subsection in chapter 1"
    wd = ole_read_stream(data, "WordDocument")
    off = wd.find(line.encode("utf-16-le"))
    reached = 0
    if off >= 0:
        for label in HOSTILE_LABELS:
            head = "SEQ F \\*A "
            if len(head) + len(label) > len(line) or any(c in label for c in "\x00\n\r") or label != label.strip():
                continue
            new = (head + label).ljust(len(line))
            try:
                d2 = ole_patch(data, "WordDocument", [(off, new.encode("utf-16-le"))])
                results = list(s2t.read_doc(io.BytesIO(d2), path=None))
            except Exception:  # noqa
                ctx.count("hostile:rejected")
                continue
            for r in results:
                caps = [getattr(i, "caption", None) for i in getattr(r, "images", [])]
                if label in caps:
                    reached += 1
                exercise(ctx, r, "hostile-doc-caption:headings.doc", None,
                         {"base_file": "legacy_ms/headings.doc", "caption_label": label,
                          "how": f"WordDocument stream: the UTF-16 text {line!r} overwritten by {new!r}", "call": "read_doc"})
    ctx.extra["doc_captions_reaching_extractor"] = reached
    ctx.obligation("generator:doc-captions reach DocImage.caption through the real DOC extractor", reached >= 5,
                   f"only {reached} hostile labels arrived as captions (text offset {off})")


def run_empty_alt_docs(ctx, s2t, res):
    """ODF picture frames whose svg:title / svg:desc elements are present but empty (<svg:desc/>, <svg:title></svg:title>),
    with and without a draw:name: type-level contract of the text accessors (str, never None)."""
    forms = [("<svg:title/>", "<svg:desc/>"), ("<svg:title></svg:title>", ""), ("", "<svg:desc></svg:desc>"), ("<svg:title/>", "<svg:desc>alt</svg:desc>"),
             ("<svg:title>t</svg:title>", "<svg:desc/>")]
    for rel, reader in (("open_office/image_extraction.odt", s2t.read_odt), ("open_office/image_extraction.odp", s2t.read_odp),
                        ("open_office/image_extraction.ods", s2t.read_ods), ("open_office/drawing.odg", s2t.read_odg)):
        src = res / rel
        if not src.exists():
            continue
        for k, (ti, de) in enumerate(forms):
            for keep_name in (True, False):
                def sub(d, ti=ti, de=de, keep_name=keep_name):
                    x = d.decode("utf-8")
                    if not keep_name:
                        x = re.sub(r'\sdraw:name="[^"]*"', "", x)
                    x = re.sub(r"<svg:title\b[^>]*/>|<svg:title\b[^>]*>.*?</svg:title>|<svg:desc\b[^>]*/>|<svg:desc\b[^>]*>.*?</svg:desc>", "", x, flags=re.S)
                    x = re.sub(r"(<draw:image\b[^>]*/>)", lambda m: m.group(1) + ti + de, x)
                    x = re.sub(r"(<draw:image\b[^>/]*>.*?</draw:image>)", lambda m: m.group(1) + ti + de, x, flags=re.S)
                    return x.encode("utf-8")
                try:
                    results = list(reader(io.BytesIO(rewrite_zip(src, {"content.xml": sub})), path=None))
                except Exception:  # noqa
                    ctx.count("hostile:rejected")
                    continue
                for r in results:
                    exercise(ctx, r, f"hostile-empty-alt:{Path(rel).suffix}", None,
                             {"base_file": rel, "how": f"every frame gets {ti!r}{de!r} after its draw:image; draw:name kept: {keep_name}", "call": reader.__name__})


def run_read_file_paths(ctx, s2t):
    """read_file glue: files that exist under hostile names (decomposed NFD / composed NFC letters, Hangul jamo, spaces,
    several dots, upper-case extension) inside such directories, opened through read_file with str and Path arguments,
    absolute and relative to the working directory: the metadata is that of the path argument as given."""
    import shutil
    import tempfile
    import unicodedata
    names = ["Cafe\u0301 notes.txt", "Caf\u00e9 notes.txt", "\u1112\u1161\u11ab\u1100\u1173\u11af.txt", "\ud55c\uae00.txt", "a b  c.txt", "v1.2.final.TXT",
             "\u00c5ngstro\u0308m.md", "\u212b.csv", "\ufb01le.txt", "plain.txt"]
    dirs = ["", "de\u0301p\u00f4t", "sub dir/x\u0323\u0307"]
    cwd0 = os.getcwd()
    td = tempfile.mkdtemp(prefix="c04-rf-", dir="/var/tmp")
    try:
        for d in dirs:
            os.makedirs(os.path.join(td, d), exist_ok=True)
            for n in names:
                with open(os.path.join(td, d, n), "w", encoding="utf-8") as fh:
                    fh.write(f"text of {unicodedata.normalize('NFC', n)}")
        os.chdir(td)
        for d in dirs:
            for n in names:
                rel = os.path.join(d, n) if d else n
                for label, arg in (("abs-str", os.path.join(td, rel)), ("rel-str", rel), ("abs-Path", Path(td) / rel), ("rel-dot", "./" + rel)):
                    try:
                        results = list(s2t.read_file(arg))
                    except Exception as e:  # noqa
                        ctx.finding(f"read_file-raises:{type(e).__name__}", f"read_file({str(arg)!r:.80}) raises {e!r:.160} for an existing file",
                                    {"name": n, "dir": d, "argument_form": label})
                        continue
                    for r in results:
                        exercise(ctx, r, f"read_file-path:{label}", str(arg),
                                 {"file_name": n, "directory": d, "argument_form": label,
                                  "how": "a temp dir holds files under these exact (not normalised) names; read_file(argument)"})
    finally:
        os.chdir(cwd0)
        shutil.rmtree(td, ignore_errors=True)


def run_mail_docs(ctx, s2t):
    """E-mails whose headers / bodies are encoded so that a permissive codec yields lone surrogates (UTF-7 '+2AA-',
    CESU-style UTF-8, utf-16 halves)."""
    subj = ["=?utf-7?Q?+2AA-?=", "=?utf-7?B?KzJBQS0=?=", "=?utf-8?B?7aCA?=", "=?utf-16-le?B?ANg=?=", "=?utf-8?Q?caf=C3=A9_=F0=9F=98=80?=", "plain"]
    for k, s_ in enumerate(subj):
        for cs, body in (("utf-7", b"Hello +2AA- world"), ("utf-8", b"Hello \xed\xa0\x80 world"), ("us-ascii", b"Hello")):
            eml = (b"From: =?utf-7?Q?+2AA-?= <a@b.c>\r\nTo: d@e.f\r\nSubject: " + s_.encode("ascii") + b"\r\nMIME-Version: 1.0\r\nContent-Type: text/plain; charset="
                   + cs.encode() + b"\r\n\r\n" + body + b"\r\n")
            for name, reader, data in (("eml", s2t.read_email__eml_format, eml),
                                       ("mbox", s2t.read_email__mbox_format, b"From a@b.c Thu Jan  1 00:00:00 2020\r\n" + eml + b"\r\n")):
                try:
                    results = list(reader(io.BytesIO(data), path=None))
                except Exception:  # noqa
                    ctx.count("hostile:rejected")
                    continue
                for r in results:
                    exercise(ctx, r, f"hostile-mail:{name}", None, {"message_bytes": data, "call": reader.__name__},
                             utf8_key="mail-permissive-codec-lone-surrogate")


def run_archives(ctx, s2t, res):
    """Generated ZIP / TAR / TAR.GZ archives whose member names come from a hostile grammar (relative, ./, nested, //,
    ABSOLUTE, unicode, spaces, '!' inside) x archive path arguments: the metadata of every member result is that of the
    path argument  <archive path>!/<member name>  (file system recorded at call time)."""
    import tarfile
    from sharepoint2text.parsing.extractors.archive_extractor import read_archive
    members = ["notes/readme.txt", "./docs/guide.md", "/srv-c04/reports/summary.txt", "/top-c04.csv", "a//b.txt", "deep/er/est/x.json",
               "sp ace/na me.txt", "\u00fcml\u00e4ut/\u4e2d.txt", "bang!/in!side.txt", "dot.dir/.hidden.txt", "x.tar.gz.txt", "//double.txt",
               "plain.txt", "trailing./dots..txt", "C:\\win\\style.txt"]
    apaths = [None, "bundle.zip", "rel/dir/bundle.zip", "/abs/nowhere/bundle.tar", str(res / "archives" / "test_archive.zip"),
              "\u00fcber/b\u00fcndel.zip", "a b/c d.zip", "outer.zip!/inner.zip"]
    rng = ctx.rng
    cterms, cinfos = [], []
    import sys as _sys
    if "/verif/tools" not in _sys.path:
        _sys.path.insert(0, "/verif/tools")
    from sevenz_min import write_7z
    for kind in ("zip", "tar", "tar.gz", "7z"):
        names = members if ctx.tier == "thorough" else rng.sample(members, 9) + ["/srv-c04/reports/summary.txt", "notes/readme.txt"]
        names = list(dict.fromkeys(names))
        if kind == "7z":
            # the 7z reader refuses a whole archive that lists an absolute member name (confinement rule, C09's property)
            names = [n for n in names if not n.startswith("/")]
        payload = {n: f"member-{i}-{kind} unique text" for i, n in enumerate(names)}
        buf = io.BytesIO()
        if kind == "7z":
            buf.write(write_7z([(n, payload[n].encode()) for n in names], solid=False))
        elif kind == "zip":
            with zipfile.ZipFile(buf, "w", zipfile.ZIP_DEFLATED) as z:
                for n in names:
                    z.writestr(zipfile.ZipInfo(n), payload[n])
        else:
            with tarfile.open(fileobj=buf, mode="w:gz" if kind.endswith("gz") else "w") as tf:
                for n in names:
                    ti = tarfile.TarInfo(n)
                    ti.size = len(payload[n].encode())
                    tf.addfile(ti, io.BytesIO(payload[n].encode()))
        data = buf.getvalue()
        for ap in apaths:
            ap_arg = None if ap is None else ap + ("" if ap.endswith("inner.zip") else "")
            try:
                results = list(read_archive(io.BytesIO(data), path=ap_arg))
            except Exception as e:  # noqa
                ctx.count("archive:rejected")
                continue
            by_text = {}
            for r in results:
                try:
                    by_text[r.get_full_text().strip()] = r
                except Exception:  # noqa
                    pass
            for n in names:
                r = by_text.get(payload[n])
                if r is None:
                    ctx.count("archive:member-not-extracted")     # confinement / skip rules are C09's
                    continue
                arg = n if ap_arg is None else f"{ap_arg}!/{n}"
                ctx.case(("archive-member", kind, ap_arg, n), True, kind="archive-member:" + kind)
                try:
                    md = r.get_metadata()
                    pa = Path(arg)
                    fs = {q: fs_record(q) for q in (str(pa), str(pa.parent))}
                    so = lambda x: coq_opt(x, cstr)
                    fsl = coq_list([pair(cstr(q), pair(coq_opt(e_, coq_bool), cstr(r_))) for q, (e_, r_) in fs.items()])
                    cterms.append(pair("(Some " + cstr(arg) + ")", fsl, "(Some " + pair(so(md.filename), so(md.file_extension),
                                                                                     so(md.file_path), so(md.folder_path)) + ")"))
                    cinfos.append((kind, ap_arg, n))
                except Exception:  # noqa  (reported by the sweep below)
                    pass
                exercise(ctx, r, f"archive-member:{kind}", arg,
                         {"archive_kind": kind, "archive_path": ap_arg, "member_name": n, "path_argument_of_member": arg,
                          "call": "read_archive(io.BytesIO(archive), path=archive_path); archive = " + kind + " with the members "
                                  + repr(names)[:400]})


    return cterms, cinfos


# ------------------------------------------------------------------------------------------------ generated EPUBs / ODF picture types
def make_epub(spine, extra_manifest=()):
    """spine: [(item id, itemref attributes dict, kind)] with kind in xhtml | empty | missing | image | dup.
    Every xhtml chapter carries a unique text."""
    man, refs, files = [], [], {}
    seen = set()
    for k, (iid, attrs, kind) in enumerate(spine):
        a = "".join(f' {k_}="{v}"' for k_, v in attrs.items())
        if kind == "noid":
            refs.append(f"<itemref{a}/>")
            continue
        if kind == "emptyid":
            refs.append(f'<itemref idref=""{a}/>')
            continue
        refs.append(f'<itemref idref="{iid}"{a}/>')
        if iid in seen or kind == "missing":
            continue
        seen.add(iid)
        if kind == "image":
            man.append(f'<item id="{iid}" href="img/{iid}.png" media-type="image/png"/>')
            files[f"OEBPS/img/{iid}.png"] = _tiny_png()
        else:
            man.append(f'<item id="{iid}" href="text/{iid}.xhtml" media-type="application/xhtml+xml"/>')
            body = "" if kind == "empty" else f"<h1>Title of {iid}</h1><p>Body text of {iid}, item {k}.</p>"
            files[f"OEBPS/text/{iid}.xhtml"] = (f'<?xml version="1.0" encoding="utf-8"?><html xmlns="http://www.w3.org/1999/xhtml"><head><title>{iid}</title>'
                                                 f"</head><body>{body}</body></html>").encode("utf-8")
    for x in extra_manifest:
        man.append(x)
    opf = ('<?xml version="1.0" encoding="utf-8"?><package xmlns="http://www.idpf.org/2007/opf" version="3.0" unique-identifier="id">'
           '<metadata xmlns:dc="http://purl.org/dc/elements/1.1/"><dc:title>Generated</dc:title><dc:identifier id="id">c04</dc:identifier>'
           "<dc:language>en</dc:language></metadata><manifest>" + "".join(man) + '</manifest><spine>' + "".join(refs) + "</spine></package>")
    out = io.BytesIO()
    with zipfile.ZipFile(out, "w", zipfile.ZIP_DEFLATED) as z:
        z.writestr(zipfile.ZipInfo("mimetype"), "application/epub+zip")
        z.writestr("META-INF/container.xml", '<?xml version="1.0"?><container version="1.0" xmlns="urn:oasis:names:tc:opendocument:xmlns:container">'
                   '<rootfiles><rootfile full-path="OEBPS/content.opf" media-type="application/oebps-package+xml"/></rootfiles></container>')
        z.writestr("OEBPS/content.opf", opf)
        for n, d in files.items():
            z.writestr(n, d)
    return out.getvalue()


def _tiny_png() -> bytes:
    import struct
    import zlib

    def chunk(kind, data):
        body = kind + data
        return struct.pack(">I", len(data)) + body + struct.pack(">I", zlib.crc32(body))
    return (b"\x89PNG\r\n\x1a\n" + chunk(b"IHDR", struct.pack(">IIBBBBB", 2, 2, 8, 0, 0, 0, 0))
            + chunk(b"IDAT", zlib.compress(b"\x00\x10\x20\x00\x30\x40")) + chunk(b"IEND", b""))


def epub_corpus(ctx):
    """Spine grammar: every itemref attribute form (linear yes/no in several spellings, properties, id), at the first,
    a middle and the last position; missing, empty, image and duplicate items."""
    rng = ctx.rng
    lin = [{}, {"linear": "yes"}, {"linear": "no"}, {"linear": "NO"}, {"linear": " no "}, {"linear": "maybe"}, {"properties": "page-spread-left"},
           {"id": "ref1", "linear": "no"}]
    kinds = ["xhtml", "xhtml", "xhtml", "empty", "missing", "image", "dup", "noid", "emptyid"]
    out = []
    for a in lin:                                     # the attribute form at the head, in the middle, at the end
        out.append([("cover", a, "xhtml"), ("c1", {}, "xhtml"), ("c2", {}, "xhtml")])
        out.append([("c1", {}, "xhtml"), ("note", a, "xhtml"), ("c2", {}, "xhtml")])
        out.append([("c1", {}, "xhtml"), ("c2", {}, "xhtml"), ("back", a, "xhtml")])
    out.append([("a", {"linear": "no"}, "xhtml"), ("b", {"linear": "no"}, "xhtml")])          # nothing linear at all
    out.append([("a", {"linear": "no"}, "empty"), ("b", {"linear": "no"}, "xhtml"), ("c", {}, "xhtml")])
    for _ in range(ctx.n(25, 250)):
        n = rng.randint(1, 6)
        sp = []
        for i in range(n):
            kind = rng.choice(kinds)
            iid = sp[-1][0] if (kind == "dup" and sp) else f"i{i}"
            sp.append((iid, rng.choice(lin), "xhtml" if kind == "dup" else kind))
        out.append(sp)
    return out


def epub_loop_obligation(ctx):
    """Fail closed when read_epub's numbering loop leaves the modelled shape:
       chapter_number = 0; for item_id in ctx.spine: chapter_number += 1 (first statement, unconditional); …"""
    from sharepoint2text.parsing.extractors import epub_extractor as ex
    fn = ast.parse(textwrap.dedent(inspect.getsource(ex.read_epub))).body[0]
    loops = [n for n in ast.walk(fn) if isinstance(n, ast.For) and isinstance(n.iter, ast.Attribute) and n.iter.attr == "spine"]
    why = ""
    if len(loops) != 1:
        why = f"{len(loops)} loops over ctx.spine"
    else:
        first = loops[0].body[0]
        if not (isinstance(first, ast.AugAssign) and isinstance(first.op, ast.Add) and getattr(first.target, "id", "") == "chapter_number"
                and isinstance(first.value, ast.Constant) and first.value.value == 1):
            why = "the loop does not start with `chapter_number += 1`: " + ast.dump(first)[:160]
        inits = [n for n in ast.walk(fn) if isinstance(n, ast.Assign) and any(getattr(x, "id", "") == "chapter_number" for x in n.targets)]
        if not why and not (len(inits) == 1 and isinstance(inits[0].value, ast.Constant) and inits[0].value.value == 0):
            why = "chapter_number is not initialised exactly once with 0"
        others = [n for n in ast.walk(fn) if isinstance(n, ast.AugAssign) and getattr(n.target, "id", "") == "chapter_number"]
        if not why and len(others) != 1:
            why = f"{len(others)} updates of chapter_number"
    ctx.obligation("ast:read_epub numbers chapters by spine position (chapter_number = 0; += 1 first in the spine loop)", not why, why)


def run_epubs(ctx, s2t):
    from sharepoint2text.parsing.extractors import epub_extractor as ex
    epub_loop_obligation(ctx)
    opf_itemref = "{%s}itemref" % ex.NS["opf"]
    terms, infos = [], []
    for k, spine in enumerate(epub_corpus(ctx)):
        data = make_epub(spine)
        try:
            results = list(s2t.read_epub(io.BytesIO(data), path=None))
        except Exception:  # noqa
            ctx.count("hostile:rejected")
            continue
        for r in results:
            # which spine items produced a chapter (oracle) and the numbers they got
            got = []
            for ch in r.iterate_units():
                m = re.search(r"Body text of (\w+), item", ch.get_text()) or re.search(r"Title of (\w+)", ch.get_text())
                got.append((m.group(1) if m else "?", ch.get_metadata().unit_number))
            if all(i != "?" for i, _ in got):
                children = coq_list([pair(cstr(opf_itemref), "None" if kd == "noid" else "(Some " + cstr("" if kd == "emptyid" else i) + ")")
                                     for i, a, kd in spine])
                prod = coq_list([cstr(i) for i in dict.fromkeys(i for i, _ in got)])
                terms.append(pair(children, prod, coq_list([pair(cstr(i), Zs(n_)) for i, n_ in got])))
                infos.append(spine)
                # property oracle: the number is the 1-based position of a spine entry with that id
                ids = [i for i, a, kd in spine if kd not in ("noid", "emptyid")]
                for i, n_ in got:
                    if not (isinstance(n_, int) and 1 <= n_ <= len(ids) and ids[n_ - 1] == i):
                        ctx.finding("epub-unit-number-not-spine-position", f"EPUB chapter of spine item {i!r} has unit_number {n_!r}; spine ids are {ids!r}",
                                    {"spine": [(i_, a, kd) for i_, a, kd in spine], "how": "tools/props/c04.py make_epub(spine)"})
            exercise(ctx, r, "generated-epub", None,
                     {"spine": [(i, a, kd) for i, a, kd in spine], "how": "tools/props/c04.py make_epub(spine)", "call": "read_epub"})
    corr(ctx, "epub_unit_numbers", f"(epub_units_case {cstr(opf_itemref)})", terms, infos, "list spine_child * list str * list (str * Z)")


def odf_with_picture_extension(src: Path, ext: str) -> bytes:
    """The ODF package with every Pictures/* member renamed to the given extension (content.xml, styles.xml and the
    manifest follow): picture types the platform's mimetypes table may or may not know."""
    out = io.BytesIO()
    with zipfile.ZipFile(src) as zin:
        pics = [n for n in zin.namelist() if n.startswith("Pictures/") and "." in n.rsplit("/", 1)[-1]]
        ren = {n: n.rsplit(".", 1)[0] + ext for n in pics}
        with zipfile.ZipFile(out, "w", zipfile.ZIP_DEFLATED) as zout:
            for it in zin.infolist():
                d = zin.read(it.filename)
                name = ren.get(it.filename, it.filename)
                if it.filename.endswith(".xml"):
                    x = d.decode("utf-8")
                    for a, b in ren.items():
                        x = x.replace(a, b)
                    d = x.encode("utf-8")
                zout.writestr(name, d, compress_type=zipfile.ZIP_STORED if name == "mimetype" else zipfile.ZIP_DEFLATED)
    return out.getvalue()


PICTURE_EXTS = [".svm", ".wdp", ".pct", ".emf", ".wmf", ".bin", ".PNG", ".jpeg2", ""]


def digest(r):
    """Canonical, comparable value of everything the accessors of a result return (no addresses, no paths)."""
    import hashlib

    def img(i):
        b = i.get_bytes()
        p0 = b.tell()
        d = b.read()
        b2 = i.get_bytes()
        p1 = b2.tell()
        d2 = b2.read()
        b2.seek(0)
        md = i.get_metadata()
        return (p0, len(d), hashlib.sha1(d).hexdigest()[:12], p1, len(d2), getattr(i, "size_bytes", None), i.get_content_type(), i.get_caption(),
                i.get_description(), tuple(sorted((k, repr(v)) for k, v in dict.items(md))))

    def tab(x):
        dm = x.get_dim()
        return (dm.rows, dm.columns, repr(x.get_table())[:400])
    units = []
    for u in r.iterate_units():
        um = u.get_metadata()
        units.append((u.get_text(), getattr(um, "unit_number", None), tuple(img(i) for i in u.get_images()), tuple(tab(x) for x in u.get_tables())))
    md = r.get_metadata()
    mdd = {k: repr(v) for k, v in (md.to_dict() if hasattr(md, "to_dict") else vars(md)).items()
           if k not in ("file_path", "folder_path", "filename", "file_extension")}
    return (type(r).__name__, r.get_full_text(), tuple(units), tuple(img(i) for i in r.iterate_images()),
            tuple(tab(x) for x in r.iterate_tables()), tuple(sorted(mdd.items())))


def run_env(ctx, tb):
    """The accessor results must not depend on the environment (common.env_sweep: DEBUG logging, worker thread, time
    zones, cwd).  Sampled: one small fixture per format, ODF packages with every picture renamed to extensions the
    mimetypes table may not know, generated EPUBs and RTFs, and type-directed image instances of all ten classes
    (stream pre-positioned, content types incl. application/octet-stream)."""
    import sharepoint2text as s2t
    from sharepoint2text.parsing import router
    from sharepoint2text.parsing.extractors import data_types as dt
    rng = ctx.rng
    res = common.REPO / "sharepoint2text" / "tests" / "resources"
    docs = []                                                    # (label, extension, bytes)
    seen_ext = set()
    for f in fixture_files():
        e = f.suffix.lower()
        if e in seen_ext or f.stat().st_size > 120_000 or "password" in str(f) or "archives" in f.parts or e in (".pdf", ".7z"):
            continue
        seen_ext.add(e)
        docs.append(("fixture:" + f.name, f.name, f.read_bytes()))
    for rel in ("open_office/image_extraction.odt", "open_office/image_extraction.odp", "open_office/image_extraction.ods", "open_office/drawing.odg"):
        src = res / rel
        if src.exists():
            for ext in (PICTURE_EXTS if ctx.tier == "thorough" else rng.sample(PICTURE_EXTS, 3) + [".svm"]):
                try:
                    docs.append((f"{Path(rel).name} pictures renamed to *{ext}", Path(rel).name, odf_with_picture_extension(src, ext)))
                except Exception:  # noqa
                    pass
    for sp in epub_corpus(ctx)[:6]:
        docs.append((f"generated epub {[(i, a) for i, a, _ in sp]}", "x.epub", make_epub(sp)))
    docs.append(("rtf pair", "x.rtf", b"{\\rtf1 \\u55357?\\u56832? x\\page y{\\info{\\title T}{\\creatim\\yr2020\\mo1\\dy2\\hr3\\min4}}}"))

    def doc_fn(case):
        label, name, data = case
        reader = router.get_extractor(name)
        return tuple(digest(r) for r in reader(io.BytesIO(data), path=None))
    # the statement's right-hand side on the same documents (unknown picture types included), then the sweep
    for label, name, data in docs:
        try:
            for r in router.get_extractor(name)(io.BytesIO(data), path=None):
                exercise(ctx, r, "env-sample:" + label.split(":")[0].split(" pictures")[0], None, {"document": label, "bytes": data if len(data) < 150_000 else None})
        except Exception:  # noqa
            ctx.count("env-sample:rejected")
    common.env_sweep(ctx, "document-accessors", doc_fn, docs, describe=lambda c: c[0])

    hints = {c: typing.get_type_hints(getattr(dt, c)) for c in IMG_CLASSES}
    ctypes_ = ["application/octet-stream", "image/png", "image/unknown", "", " image/jpeg ", "emf"]
    specs = []
    for cname in IMG_CLASSES:
        f = IMG_FIELDS[cname]
        dk = hint_kind(hints[cname][f[2]])
        for ct in ctypes_:
            for blob in (b"", b"abc", bytes(range(20))):
                for p0 in (0, 2):
                    specs.append((cname, ct, blob, p0, dk))
    rng.shuffle(specs)
    specs = specs[:ctx.n(240, 720)]

    def img_fn(case):
        cname, ct, blob, p0, dk = case
        f = IMG_FIELDS[cname]
        kw = {f[0]: 1, f[1]: ct}
        if dk in ("Bytes", "OptBytes"):
            kw[f[2]] = blob
        else:
            st = io.BytesIO(blob)
            st.seek(p0)
            kw[f[2]] = st
        if f[3]:
            kw[f[3]] = len(blob)
        i = getattr(dt, cname)(**kw)
        b = i.get_bytes()
        p = b.tell()
        d = b.read()
        b2 = i.get_bytes()
        return (p, d, b2.tell(), b2.read(), i.get_content_type(), i.get_caption(), i.get_description(), sorted(dict.items(i.get_metadata()), key=repr))
    common.env_sweep(ctx, "image-accessors", img_fn, specs, describe=lambda c: repr(c[:4]))


def run_hostile_docs(ctx):
    """Generated hostile-content documents: huge ODF lengths, control characters, stored document properties."""
    import sharepoint2text as s2t
    res = common.REPO / "sharepoint2text" / "tests" / "resources"
    run_label_docs(ctx, s2t, res)
    run_empty_alt_docs(ctx, s2t, res)
    run_read_file_paths(ctx, s2t)
    run_mail_docs(ctx, s2t)
    run_epubs(ctx, s2t)
    run_doc_captions(ctx, s2t, res)
    cterms, cinfos = run_archives(ctx, s2t, res)
    corr(ctx, "archive_member_path", "(path_case path_guard)", cterms, cinfos,
         "option str * list (str * (option bool * str)) * option (option str * option str * option str * option str)")
    huge = [("9" * 400 + "cm", "400-digit-cm"), ("1" + "0" * 308 + "in", "1e308-in"), ("9" * 5000, "5000-digit"), ("0.0cm", "zero"),
            ("12e3cm", "exponent"), ("-3cm", "negative"), ("\u0663cm", "arabic-digit"), ("", "empty"), ("1.5 furlong", "unknown-unit")]
    odfs = [("open_office/image_extraction.odt", s2t.read_odt), ("open_office/image_extraction.odp", s2t.read_odp),
            ("open_office/image_extraction.ods", s2t.read_ods), ("open_office/drawing.odg", s2t.read_odg)]
    for rel, reader in odfs:
        src = res / rel
        if not src.exists():
            continue
        for val, tag in huge:
            def sub(d, val=val):
                t = d.decode("utf-8")
                t = re.sub(r'svg:width="[^"]*"', lambda m: 'svg:width="%s"' % val, t)
                t = re.sub(r'svg:height="[^"]*"', lambda m: 'svg:height="%s"' % val, t)
                return t.encode("utf-8")
            data = rewrite_zip(src, {"content.xml": sub})
            try:
                results = list(reader(io.BytesIO(data), path="hostile/" + Path(rel).name))
            except Exception as e:  # noqa
                ctx.count("hostile:rejected")
                continue
            for r in results:
                exercise(ctx, r, f"hostile-odf:{Path(rel).suffix}:{tag}", "hostile/" + Path(rel).name,
                         {"base_file": rel, "svg_width_height": val, "call": reader.__name__}, check_size=True)
    # an embedded image whose compressed data is damaged (the container still opens): results must keep the contract
    import struct
    for rel, reader in (("modern_ms/GKIM_Skills_Framework_-_static.docx", s2t.read_docx), ("open_office/image_extraction.odt", s2t.read_odt),
                        ("open_office/apache_oo/aoo_document.odt", s2t.read_odt), ("open_office/image_extraction.odp", s2t.read_odp),
                        ("open_office/image_extraction.ods", s2t.read_ods), ("modern_ms/pptx_formula_image.pptx", s2t.read_pptx),
                        ("modern_ms/image_in_excel.xlsx", s2t.read_xlsx), ("epub/sample.epub", s2t.read_epub)):
        src = res / rel
        if not src.exists():
            continue
        raw = bytearray(src.read_bytes())
        with zipfile.ZipFile(src) as z:
            members = [i for i in z.infolist() if re.search(r"\.(png|jpe?g|gif|emf|wmf|bmp|svg)$", i.filename, re.I) and i.compress_size > 40]
        for it in members[:2]:
            nl, el = struct.unpack_from("<HH", raw, it.header_offset + 26)
            start = it.header_offset + 30 + nl + el
            for k in range(8, min(it.compress_size, 40)):
                raw[start + k] ^= 0x5A
        data = bytes(raw)
        try:
            results = list(reader(io.BytesIO(data), path=None))
        except Exception:  # noqa
            ctx.count("hostile:rejected")
            continue
        for r in results:
            exercise(ctx, r, f"hostile-damaged-image:{Path(rel).suffix}", None,
                     {"base_file": rel, "damage": "bytes 8..40 of the compressed data of the first two image members xor 0x5A",
                      "call": reader.__name__}, check_size=True)
    # XLSX pictures whose drawing extent is 0 and whose bytes carry no usable raster size
    src = res / "modern_ms" / "image_in_excel.xlsx"
    if src.exists():
        for tag, media in (("vector-bytes", b"\x01\x00\x00\x00 vector picture without a raster header"), ("empty", b""),
                           ("png-zero-size", _tiny_png()[:16] + bytes(8) + _tiny_png()[24:]), ("tiny-png", _tiny_png())):
            out = io.BytesIO()
            with zipfile.ZipFile(src) as zin, zipfile.ZipFile(out, "w", zipfile.ZIP_DEFLATED) as zo:
                for it in zin.infolist():
                    d = zin.read(it.filename)
                    if it.filename.startswith("xl/drawings/") and it.filename.endswith(".xml"):
                        d = re.sub(r'c([xy])="\d+"', r'c\1="0"', d.decode("utf-8")).encode("utf-8")
                    if it.filename.startswith("xl/media/"):
                        d = media
                    zo.writestr(it, d)
            try:
                results = list(s2t.read_xlsx(io.BytesIO(out.getvalue()), path=None))
            except Exception:  # noqa
                ctx.count("hostile:rejected")
                continue
            for r in results:
                exercise(ctx, r, f"hostile-xlsx-picture:{tag}", None,
                         {"base_file": "modern_ms/image_in_excel.xlsx", "how": "every cx/cy in xl/drawings/*.xml set to 0 and every xl/media/* "
                          f"replaced by {media[:24]!r}...", "call": "read_xlsx"}, check_size=True)
    # stored document properties reach the metadata object unchanged (end to end through the XML parser)
    from xml.sax.saxutils import escape
    n_docs = len(HOSTILE_VALUES)
    for k in range(n_docs):
        tag = f"hostile-{k}"
        names5 = ("title", "author", "subject", "keywords", "description")
        want = {nm: hostile_for(k, i) for i, nm in enumerate(names5)}
        extra_vals = {"category": hostile_for(k, 5), "last_modified_by": hostile_for(k, 6)}
        sweep = k < 4
        core = ('<?xml version="1.0" encoding="UTF-8" standalone="yes"?><cp:coreProperties '
                'xmlns:cp="http://schemas.openxmlformats.org/package/2006/metadata/core-properties" '
                'xmlns:dc="http://purl.org/dc/elements/1.1/" xmlns:dcterms="http://purl.org/dc/terms/" '
                'xmlns:xsi="http://www.w3.org/2001/XMLSchema-instance">'
                f'<dc:title>{escape(want["title"])}</dc:title><dc:creator>{escape(want["author"])}</dc:creator>'
                f'<dc:subject>{escape(want["subject"])}</dc:subject><cp:keywords>{escape(want["keywords"])}</cp:keywords>'
                f'<dc:description>{escape(want["description"])}</dc:description><cp:category>{escape(extra_vals["category"])}</cp:category>'
                f'<cp:lastModifiedBy>{escape(extra_vals["last_modified_by"])}</cp:lastModifiedBy></cp:coreProperties>').encode("utf-8")
        for rel, reader, fields in (("modern_ms/headings.docx", s2t.read_docx, ("title", "author", "subject", "keywords", "comments")),
                                    ("modern_ms/pptx_table.pptx", s2t.read_pptx, ("title", "author", "subject", "keywords", "comments")),
                                    ("modern_ms/mwe.xlsx", s2t.read_xlsx, ("title", "creator", None, "keywords", "description"))):
            src = res / rel
            if not src.exists():
                continue
            data = rewrite_zip(src, {"docProps/core.xml": lambda d: core})
            check_props(ctx, reader, data, rel, tag, want, fields, sweep=sweep,
                        extra=extra_vals if reader is not s2t.read_xlsx else {"last_modified_by": extra_vals["last_modified_by"]})
        meta = ('<?xml version="1.0" encoding="UTF-8"?><office:document-meta '
                'xmlns:office="urn:oasis:names:tc:opendocument:xmlns:office:1.0" xmlns:dc="http://purl.org/dc/elements/1.1/" '
                'xmlns:meta="urn:oasis:names:tc:opendocument:xmlns:meta:1.0" office:version="1.2"><office:meta>'
                f'<dc:title>{escape(want["title"])}</dc:title><dc:creator>{escape(want["author"])}</dc:creator>'
                f'<dc:subject>{escape(want["subject"])}</dc:subject><meta:keyword>{escape(want["keywords"])}</meta:keyword>'
                f'<dc:description>{escape(want["description"])}</dc:description></office:meta></office:document-meta>').encode("utf-8")
        for rel, reader in (("open_office/headings.odt", s2t.read_odt), ("open_office/sample_presentation.odp", s2t.read_odp),
                            ("open_office/sample_spreadsheet.ods", s2t.read_ods)):
            src = res / rel
            if src.exists():
                data = rewrite_zip(src, {"meta.xml": lambda d: meta})
                check_props(ctx, reader, data, rel, tag, want, ("title", "creator", "subject", "keywords", "description"), sweep=sweep)
        html = ("<html><head><title>%s</title><meta name=\"Author\" content=\"%s\"><meta name=\"keywords\" content=\"%s\">"
                "<meta name=\"DESCRIPTION\" content=\"%s\"></head><body><p>x</p></body></html>"
                % (escape(want["title"]), escape(want["author"], {'"': "&quot;"}), escape(want["keywords"], {'"': "&quot;"}),
                   escape(want["description"], {'"': "&quot;"}))).encode("utf-8")
        check_props(ctx, s2t.read_html, html, "generated.html", tag, want, ("title", "author", None, "keywords", "description"),
                    trimmed_ok=("title",), collapsed_ok=("title",), sweep=sweep)
        # the same properties in documents that use HTML's optional tags differently (no <head>, no <html>, upper case,
        # title after the metas, doctype, body-less)
        if k % 4 == 0:
            ti, au, kw, de = (escape(want["title"]), escape(want["author"], {'"': "&quot;"}), escape(want["keywords"], {'"': "&quot;"}),
                              escape(want["description"], {'"': "&quot;"}))
            metas = f'<meta name="author" content="{au}"><meta name="keywords" content="{kw}"><meta name="description" content="{de}">'
            skeletons = [f"<!DOCTYPE html><meta charset=utf-8><title>{ti}</title>{metas}<p>x</p>",
                         f"<html><title>{ti}</title>{metas}<body><p>x</p></body></html>",
                         f"<title>{ti}</title>{metas}<p>x</p>",
                         f"<HTML><HEAD>{metas}<TITLE>{ti}</TITLE></HEAD><BODY><P>x</P></BODY></HTML>",
                         f"<!doctype html><html lang=en><head>{metas}<title>{ti}</title></head><p>x</p>",
                         f"<html><head><title>{ti}</title>{metas}</head><body><svg><title>tooltip</title></svg><p>x</p></body></html>"]
            for j, doc in enumerate(skeletons):
                check_props(ctx, s2t.read_html, doc.encode("utf-8"), f"generated-skeleton-{j}.html", tag, want,
                            ("title", "author", None, "keywords", "description"), trimmed_ok=("title",), collapsed_ok=("title",), sweep=False)
        # EPUB: rewrite the dc: elements of the OPF of the sample
        src = res / "epub" / "sample.epub"
        if src.exists():
            with zipfile.ZipFile(src) as z:
                opf = next((n for n in z.namelist() if n.endswith(".opf")), None)
            if opf:
                def sub(d, want=want):
                    t = d.decode("utf-8")
                    for el, k in (("title", "title"), ("creator", "author"), ("subject", "subject"), ("description", "description")):
                        t = re.sub(r"<dc:%s\b[^>]*>.*?</dc:%s>" % (el, el), "", t, flags=re.S)
                        t = re.sub(r"(<metadata\b[^>]*>)", lambda m: m.group(1) + "<dc:%s>%s</dc:%s>" % (el, escape(want[k]), el), t, count=1)
                    return t.encode("utf-8")
                data = rewrite_zip(src, {opf: sub})
                check_props(ctx, s2t.read_epub, data, "epub/sample.epub", tag, want, ("title", "creator", "subject", None, "description"),
                            trimmed_ok=("title", "author", "subject", "description"), sweep=sweep)


def check_props(ctx, reader, data, rel, tag, want, fields, trimmed_ok=(), collapsed_ok=(), extra=None, sweep=True):
    """Run the real extractor on a generated package and compare every stored textual property with the metadata
    object.  Findings are keyed by reader and field (one key per defect, whatever the value)."""
    names = ("title", "author", "subject", "keywords", "description")
    try:
        r = next(iter(reader(io.BytesIO(data), path=None)))
        md = r.get_metadata()
    except Exception as e:  # noqa
        ctx.finding(f"props-document-rejected:{reader.__name__}", f"{reader.__name__} fails on {rel} with rewritten properties: {e!r:.200}",
                    {"base_file": rel, "props": want})
        return
    ctx.case(("props", reader.__name__, tag, tuple(want.values())), True, kind="props:" + reader.__name__)
    pairs = [(nm, fld, want[nm]) for nm, fld in zip(names, fields) if fld is not None]
    pairs += [(fld, fld, v) for fld, v in (extra or {}).items()]
    for nm, fld, w in pairs:
        got = getattr(md, fld, None)
        if got != w:
            if nm in trimmed_ok and isinstance(got, str) and got == w.strip():
                # EPUB readers trim dc: values, HTML trims <title> (the models say strip): counted, not reported
                ctx.count("props:trimmed-by-format-rule")
                continue
            if nm in collapsed_ok and isinstance(got, str) and ws_collapse(got) == ws_collapse(w) and got.strip() == got:
                ctx.count("props:whitespace-collapsed-by-format-rule")
                continue
            if isinstance(got, str) and got == w.strip():
                key = f"props-stripped:{reader.__name__}:{fld}"
            else:
                key = f"props-changed:{reader.__name__}:{fld}"
            ctx.finding(key, f"{reader.__name__}: stored {nm} {w!r:.70} is reported as {got!r:.70} ({type(md).__name__}.{fld})",
                        {"base_file": rel, "stored": want, "stored_extra": extra, "field": fld, "got": got, "want": w,
                         "how": "the package is base_file with docProps/core.xml | meta.xml | the OPF dc: elements | the HTML head rewritten "
                                "to hold the stored values; call " + reader.__name__ + "(io.BytesIO(package)).get_metadata()"})
    if sweep:
        exercise(ctx, r, f"props-doc:{reader.__name__}", None, {"base_file": rel, "props": want})


# ------------------------------------------------------------------------------------------------ metadata readers vs model
def xml_term(e) -> str:
    if e is None:
        return "None"
    def t(x):
        return f"(Elem {cstr(x.tag)} {coq_opt(x.text, cstr)} {coq_list([t(c) for c in x])})"
    return "(Some " + t(e) + ")"


def run_meta(ctx, tb):
    from types import SimpleNamespace
    from xml.etree import ElementTree as ET
    from sharepoint2text.parsing.extractors.ms_modern import docx_extractor as dx, pptx_extractor as px
    from sharepoint2text.parsing.extractors.open_office import odt_extractor as ox
    from sharepoint2text.parsing.extractors.open_office._shared import extract_odf_metadata
    from sharepoint2text.parsing.extractors import epub_extractor as ex
    from sharepoint2text.parsing.extractors.data_types import EpubMetadata
    rng = ctx.rng
    texts = [None, "", "Title", "  padded\t", "\u00dcml\u00e4ut \u4e2d", "a\nb", " ", "\u2003x\u2003", "x" * 40, "0"] + \
            [v for v in HOSTILE_VALUES if len(v) < 200]
    q = lambda ns, pre, n: "{%s}%s" % (ns[pre], n)

    def tree(root_tag, tags, wrap=None, depth=0):
        root = ET.Element(root_tag)
        root.text = rng.choice(texts)
        host = root
        if wrap and rng.random() < 0.85:
            for _ in range(rng.randint(0, 2)):
                ET.SubElement(root, rng.choice(tags + ["noise"])).text = rng.choice(texts)
            inner = ET.SubElement(root, "wrapper") if rng.random() < 0.3 else root
            host = ET.SubElement(inner, wrap)
        for _ in range(rng.randint(0, 9)):
            c = ET.SubElement(host, rng.choice(tags + ["noise", "{urn:x}title"]))
            c.text = rng.choice(texts)
            if rng.random() < 0.2:
                ET.SubElement(c, rng.choice(tags)).text = rng.choice(texts)
        return root

    sv = lambda *xs: pair(*[cstr(x) for x in xs])
    jobs = []
    n = ctx.n(80, 1200)
    for name, mod, tags_name in (("docx", dx, "docx_tags"), ("pptx", px, "pptx_tags")):
        tags = [mod._DC_TITLE, mod._DC_CREATOR, mod._DC_SUBJECT, mod._CP_KEYWORDS, mod._DC_DESCRIPTION, mod._CP_CATEGORY]
        terms, infos = [], []
        for k in range(n):
            root = None if k == 0 else tree("{x}coreProperties", tags)
            md = mod._extract_metadata_from_context(SimpleNamespace(_core_root=root))
            got = (md.title, md.author, md.subject, md.keywords, md.comments)
            if root is not None:
                for tg_, g in zip(tags[:5], got):
                    el = root.find(tg_)
                    stored = el.text if el is not None and el.text else ""
                    if g != stored:
                        ctx.finding(f"props-changed:{name}-core", f"{name} core.xml property {tg_} stored {stored!r} reported {g!r}",
                                    {"xml": ET.tostring(root, encoding="unicode")})
            ctx.case(("meta", name, k, got), root is not None, kind="meta:" + name)
            terms.append(pair(xml_term(root), sv(*got)))
            infos.append(ET.tostring(root, encoding="unicode") if root is not None else None)
        jobs.append((f"metadata_{name}_core", f"(ooxml_case {tags_name})", terms, infos, "option xml * (str * str * str * str * str)"))
    ons = ox.NS
    tags = [q(ons, "dc", "title"), q(ons, "dc", "creator"), q(ons, "dc", "subject"), q(ons, "meta", "keyword"), q(ons, "dc", "description"),
            q(ons, "dc", "language")]
    terms, infos = [], []
    for k in range(n):
        root = None if k == 0 else tree(q(ons, "office", "document-meta"), tags, wrap=q(ons, "office", "meta"))
        md = extract_odf_metadata(root, ons)
        got = (md.title, md.creator, md.subject, md.keywords, md.description)
        if root is not None:
            m_ = root.find(".//" + q(ons, "office", "meta"))
            if m_ is not None:
                for tg_, g in zip(tags[:5], got):
                    el = m_.find(tg_)
                    stored = el.text if el is not None and el.text else ""
                    if g != stored:
                        ctx.finding("props-changed:odf-meta", f"meta.xml property {tg_} stored {stored!r:.80} reported {g!r:.80}",
                                    {"xml": ET.tostring(root, encoding="unicode")})
        ctx.case(("meta", "odf", k, got), root is not None, kind="meta:odf")
        terms.append(pair(xml_term(root), sv(*got)))
        infos.append(ET.tostring(root, encoding="unicode") if root is not None else None)
    jobs.append(("metadata_odf_meta", "(odfmeta_case odf_office_meta odf_tags)", terms, infos, "option xml * (str * str * str * str * str)"))
    ens = ex.NS
    tags = [q(ens, "dc", "title"), q(ens, "dc", "creator"), q(ens, "dc", "subject"), q(ens, "dc", "description"), q(ens, "dc", "language")]
    terms, infos = [], []
    for k in range(n):
        wrap = rng.choice([q(ens, "opf", "metadata"), q(ens, "opf", "metadata"), "{urn:other}metadata", "metadata", "meta"])
        root = None if k == 0 else tree(q(ens, "opf", "package"), tags, wrap=wrap)
        c = object.__new__(ex._EpubContext)
        c._opf_root = root
        c._metadata = EpubMetadata()
        c._parse_metadata()
        md = c._metadata
        got = (md.title, md.creator, md.subject, "", md.description)
        if root is not None:
            m_ = root.find(q(ens, "opf", "metadata"))
            if m_ is None:
                m_ = root.find("{*}metadata")
            if m_ is not None:
                for tg_, g in zip(tags[:4], (md.title, md.creator, md.subject, md.description)):
                    el = m_.find(tg_)
                    stored = (el.text or "") if el is not None else ""
                    if g != stored.strip():     # EPUB trims dc: values; anything else must arrive unchanged
                        ctx.finding("props-changed:epub-opf", f"OPF property {tg_} stored {stored!r:.80} reported {g!r:.80}",
                                    {"xml": ET.tostring(root, encoding="unicode")})
        ctx.case(("meta", "epub", k, got), root is not None, kind="meta:epub")
        terms.append(pair(xml_term(root), sv(*got)))
        infos.append(ET.tostring(root, encoding="unicode") if root is not None else None)
    jobs.append(("metadata_epub_opf", "(epub_case spaces epub_opf_metadata epub_tags)", terms, infos, "option xml * (str * str * str * str * str)"))
    # HTML <meta> loop, through the real parser
    import sharepoint2text as s2t
    names = ["description", "Description", "KEYWORDS", "keywords", "author", "Author", "generator", "viewport", "", "\u0130"]
    contents = ["", "c1", "second value", "\u00fc\u4e2d", " padded ", "a,b,c"] + \
               [v for v in HOSTILE_VALUES if len(v) < 200 and not any(c in v for c in '"&<>\n\t')]
    terms, infos, lows = [], [], {}
    for k in range(n):
        metas = []
        for _ in range(rng.randint(0, 6)):
            a = []
            if rng.random() < 0.9:
                a.append(("name", rng.choice(names)))
            if rng.random() < 0.9:
                a.append(("content", rng.choice(contents)))
            if rng.random() < 0.2:
                a.append(("name", rng.choice(names)))   # duplicate attribute: html.parser keeps both, dict() keeps the last
            metas.append(a)
        doc = "<html><head>" + "".join("<meta " + " ".join(f'{k_}="{v}"' for k_, v in a) + ">" for a in metas) + "</head><body><p>t</p></body></html>"
        r = next(iter(s2t.read_html(io.BytesIO(doc.encode("utf-8")), path=None)))
        md = r.get_metadata()
        got = ("", md.author, "", md.keywords, md.description)
        dicts = [list(dict(a).items()) for a in metas]
        for a in dicts:
            for k_, v in a:
                if k_ == "name":
                    lows[v] = v.lower()
        ctx.case(("meta", "html", doc), bool(metas), kind="meta:html")
        terms.append(pair(coq_list([coq_list([pair(cstr(k_), cstr(v)) for k_, v in a]) for a in dicts]), sv(*got)))
        infos.append(doc)
    low_tbl = coq_list([pair(cstr(k_), cstr(v)) for k_, v in lows.items()])
    jobs.append(("metadata_html_meta", f"(htmlmeta_case {low_tbl})", terms, infos, "list (list (str * str)) * (str * str * str * str * str)"))
    from concurrent.futures import ThreadPoolExecutor
    with ThreadPoolExecutor(max_workers=5) as pool:
        list(pool.map(lambda j: corr(ctx, *j), jobs))


# ------------------------------------------------------------------------------------------------ OLE summary / openpyxl records
def spec_codec(cp) -> str:
    """The codec a property set's code page stands for (independent restatement)."""
    import codecs
    if isinstance(cp, int) and not isinstance(cp, bool):
        cp &= 0xFFFF
        if cp == 1200:
            return "utf-16-le"
        if cp not in (0, 65001):
            try:
                return codecs.lookup("cp%d" % cp).name
            except LookupError:
                pass
    return "utf-8"


def run_summary(ctx, tb):
    import olefile
    from types import SimpleNamespace
    from sharepoint2text.parsing.extractors.ms_legacy import doc_extractor as dx, ppt_extractor as ppx, xls_extractor as xx
    from sharepoint2text.parsing.extractors.ms_modern import xlsx_extractor as xlx
    rng = ctx.rng
    cp_aware = ctx.extra["variants"]["ole_cp_aware"]
    texts = ["Dragon Ball Z", "J\u00f6rg M\u00fcller", "\u4e2d\u6587", "  padded  ", "2024T", "a, b;", "\U0001f600 Z", "AT&T", "x" * 40, "Z"]
    vals = [None, b"", "", 0, 5, 2.5] + [x for x in texts]
    for x in texts:
        for enc in ("utf-8", "cp1252", "cp936", "utf-16-le"):
            try:
                vals.append(x.encode(enc))
            except UnicodeEncodeError:
                pass
    vals += [b"\xff\xfe\x00", b"ge\xf6rgpi", b"\x80", b"Z\x00Z"]
    cps = [1252, 65001, -535, 936, 1200, 0, None, 99999, 437, 932, 1251]
    fields = ("title", "author", "subject", "keywords", "comments")

    def oval(v):
        if v is None:
            return "ONone"
        if isinstance(v, bytes):
            return f"(OBytes {nlist(v)})"
        if isinstance(v, str):
            return f"(OStr {cstr(v)})"
        return f"(OOther {coq_bool(bool(v))} {cstr(str(v))})"

    records = []
    for k in range(ctx.n(70, 1200)):
        records.append((rng.choice(cps), {f: rng.choice(vals) for f in fields}, "generated"))
    # the records olefile reads from the fixtures
    for f in fixture_files():
        if f.suffix.lower() in (".doc", ".xls", ".ppt") and "password" not in str(f):
            try:
                with olefile.OleFileIO(str(f)) as o:
                    m = o.get_metadata()
                    records.append((m.codepage, {fl: getattr(m, fl, None) for fl in fields}, "fixture:" + f.name))
            except Exception:  # noqa
                continue
    orig_ole = olefile.OleFileIO

    class FakeOle:
        def __init__(self, meta):
            self.meta = meta

        def get_metadata(self):
            return self.meta

        def exists(self, name):       # no property-set streams to pre-check (util/ole_text.read_ole_metadata)
            return False

        def __enter__(self):
            return self

        def __exit__(self, *a):
            return False
    terms, infos = [], []
    for cp, rec, origin in records:
        meta = SimpleNamespace(codepage=cp, create_time=None, last_saved_time=None, num_pages=0, num_words=0, num_chars=0,
                               last_saved_by=None, company=None, **rec)
        bs = sorted({v for v in rec.values() if isinstance(v, bytes)})
        used_cp = cp if cp_aware else 65001
        cpz = cp if isinstance(cp, int) else 0
        dt = coq_list([pair(Zs(cpz if cp_aware else 65001), nlist(b), cstr(b.decode(spec_codec(used_cp), "replace"))) for b in bs])

        def strict(b):
            try:
                return b.decode("utf-8")
            except UnicodeDecodeError:
                return None
        st = coq_list([pair(nlist(b), coq_opt(strict(b), cstr)) for b in bs])
        mterm = ("{| o_cp := %s; o_title := %s; o_author := %s; o_subject := %s; o_keywords := %s; o_comments := %s |}"
                 % ((Zs(cpz),) + tuple(oval(rec[f]) for f in fields)))
        for kind, name in ((0, "doc"), (1, "ppt"), (2, "xls")):
            try:
                if kind == 0:
                    rd = object.__new__(dx._DocReader)
                    rd.ole = FakeOle(meta)
                    md = rd.get_metadata()
                    got = (md.title, md.author, md.subject, md.keywords, "")
                elif kind == 1:
                    md = ppx._extract_metadata(FakeOle(meta))
                    got = (md.title, md.author, md.subject, md.keywords, md.comments)
                else:
                    olefile.OleFileIO = lambda f_, meta=meta: FakeOle(meta)
                    try:
                        md = xx._read_metadata(io.BytesIO(b""))
                    finally:
                        olefile.OleFileIO = orig_ole
                    got = (md.title, md.author, md.subject, "", "")
            except (UnicodeDecodeError, AttributeError) as e:
                got = None
                if kind == 2:
                    ctx.finding("xls-summary-ansi-text-raises",
                                f"xls_extractor._read_metadata raises {type(e).__name__} for a summary property stored as "
                                f"{[v for v in (rec['title'], rec['author'], rec['subject']) if v][:1]!r:.60} (code page {cp}); read_xls fails for such a workbook",
                                {"record": {k_: repr(v) for k_, v in rec.items()}, "codepage": cp, "error": repr(e)})
            # property oracle: str values arrive unchanged, bytes as text of the recorded code page
            if got is not None:
                for i_, f in enumerate(fields):
                    if (kind == 0 and f == "comments") or (kind == 2 and f in ("keywords", "comments")):
                        continue
                    v = rec[f]
                    want = v if isinstance(v, str) else v.decode(spec_codec(cp), "replace") if isinstance(v, bytes) else None
                    if want is not None and got[i_] != want:
                        ctx.finding(f"ole-summary-ansi-text-changed:{name}",
                                    f"{name} summary property {f} stored as {v!r:.50} (code page {cp}) is reported as {got[i_]!r:.50}, expected {want!r:.50}",
                                    {"record": {k_: repr(v_) for k_, v_ in rec.items()}, "codepage": cp, "field": f})
            ctx.case(("summary", name, cp, repr(rec)), True, kind=f"summary:{name}:{origin.split(':')[0]}")
            terms.append(pair(str(kind), mterm, dt, st, "None" if got is None else "(Some " + pair(*[cstr(g) for g in got]) + ")"))
            infos.append((name, cp, rec, origin))
    corr(ctx, "ole_summary_readers", "(summary_case ole_cp_aware)", terms, infos,
         "N * ole_meta * list (Z * list N * str) * list (list N * option str) * option (str * str * str * str * str)", shard=80)
    # XLSX
    terms, infos = [], []
    xv = [None, ""] + HOSTILE_VALUES[:40]
    for k in range(ctx.n(120, 1200)):
        pr = {f: rng.choice(xv) for f in ("title", "creator", "keywords", "description")}
        wb = SimpleNamespace(properties=SimpleNamespace(lastModifiedBy=None, created=None, modified=None, language=None, revision=None,
                                                        subject=rng.choice(xv), **pr))
        md = xlx._extract_metadata_from_workbook(wb)
        got = (md.title, md.creator, "", md.keywords, md.description)
        for f, g in zip(("title", "creator", None, "keywords", "description"), got):
            if f and g != (pr[f] or ""):
                ctx.finding(f"props-changed:xlsx-properties:{f}", f"XLSX property {f} stored {pr[f]!r:.60} reported {g!r:.60}", {"props": pr})
        ctx.case(("summary", "xlsx", repr(pr)), True, kind="summary:xlsx")
        so = lambda x: coq_opt(x, cstr)
        terms.append(pair("{| x_title := %s; x_creator := %s; x_keywords := %s; x_description := %s |}"
                          % (so(pr["title"]), so(pr["creator"]), so(pr["keywords"]), so(pr["description"])), pair(*[cstr(g) for g in got])))
        infos.append(pr)
    corr(ctx, "xlsx_properties", "xlsx_case", terms, infos, "xlsx_properties * (str * str * str * str * str)", shard=600)
    # end to end: an ANSI author in real DOC / XLS fixtures
    import sharepoint2text as s2t
    res = common.REPO / "sharepoint2text" / "tests" / "resources" / "legacy_ms"
    for fn, old, new_, reader, want in (("pb_2011_1_gen_web.xls", b"georgpi", b"ge\xf6rgpi", s2t.read_xls, "ge\u00f6rgpi"),
                                        ("Speech_Prime_Minister_of_The_Netherlands_EN.doc", b"Toby Screech", b"T\xf6by Screech", s2t.read_doc, "T\u00f6by Screech")):
        src = res / fn
        if not src.exists():
            continue
        data = src.read_bytes().replace(old, new_)
        ctx.case(("summary-e2e", fn), True, kind="summary:end-to-end")
        try:
            got = next(iter(reader(io.BytesIO(data), path=None))).get_metadata().author
        except Exception as e:  # noqa
            ctx.finding("xls-summary-ansi-text-raises" if reader is s2t.read_xls else f"ole-summary-raises:{reader.__name__}",
                        f"{reader.__name__} fails on {fn} once its author is {new_!r} (cp1252, as Office writes it): {e!r:.160}",
                        {"base_file": fn, "replace": [old, new_]})
            continue
        if got != want:
            ctx.finding(f"ole-summary-ansi-text-changed:{'doc' if reader is s2t.read_doc else 'xls'}",
                        f"{reader.__name__}: author stored as {new_!r} in code page 1252 is reported as {got!r}, expected {want!r}",
                        {"base_file": fn, "replace": [old, new_]})


# ------------------------------------------------------------------------------------------------ type-directed instances
def run_instances(ctx, tb):
    from sharepoint2text.parsing.extractors import data_types as dt
    rng = ctx.rng
    strs = ["", "image/png", " image/jpeg ", "application/octet-stream", "\tx\n", "PNG", "Jpeg", "wmf", "unknown", "\u00fc\u4e2d", "\u2003pad\u2003", "a b", "EMF", "\u0130"]
    lens = [None, "", "10cm", "2.5in", "0cm", "abc", "9" * 400 + "cm", "1" + "0" * 308 + "in", " 3 mm ", "12pt", "1pc", "5", "0.4px", "\u0663cm"]
    ints = [0, 1, -1, 7, 14, 15, 16, 1440, 2 ** 40, -15]
    blobs = [b"", b"\x00", b"abc", bytes(range(7))]
    lows = {}
    terms, infos = [], []
    hints = {c: typing.get_type_hints(getattr(dt, c)) for c in IMG_CLASSES}
    for k in range(ctx.n(400, 4000)):
        cname = rng.choice(IMG_CLASSES)
        cls = getattr(dt, cname)
        f = IMG_FIELDS[cname]
        kw = {}
        num = rng.choice(ints)
        kw[f[0]] = num
        ct = rng.choice(strs)
        kw[f[1]] = ct
        dk = hint_kind(hints[cname][f[2]])
        if dk == "Bytes":
            data = rng.choice(blobs)
            kw[f[2]] = data
            pl, raw, pos0 = f"(PBytes {nlist(data)})", data, 0
        elif dk == "OptBytes":
            data = rng.choice(blobs + [None])
            kw[f[2]] = data
            pl, raw = f"(POptBytes {coq_opt(data, nlist)})", data or b""
        else:
            data = rng.choice(blobs + [None])
            if data is None:
                kw[f[2]] = None
                pl, raw = "(PStream None)", b""
            else:
                st = io.BytesIO(data)
                p0 = rng.choice([0, 1, len(data), len(data) + 5])
                st.seek(p0)
                kw[f[2]] = st
                pl, raw = f"(PStream (Some {{| buf := {nlist(data)}; pos := {p0} |}}))", data
        size = None
        if f[3]:
            size = rng.choice([len(raw), len(raw), 0, 99])
            kw[f[3]] = size
        wk = hint_kind(hints[cname]["width"])
        def dimv():
            if wk == "OptStr":
                v = rng.choice(lens)
                return v, ("DNone" if v is None else f"(DStr {cstr(v)})")
            if wk == "OptInt":
                v = rng.choice(ints + [None])
                return v, ("DNone" if v is None else f"(DInt {Zs(v)})")
            v = rng.choice(ints)
            return v, f"(DInt {Zs(v)})"
        w, wt = dimv()
        h, ht = dimv()
        kw["width"], kw["height"] = w, h
        unit = None
        if f[4]:
            uh = hint_kind(hints[cname][f[4]])
            unit = rng.choice(ints + ([None] if uh.startswith("Opt") else []))
            kw[f[4]] = unit
        cap = rng.choice(strs) if f[5] else ""
        if f[5]:
            kw[f[5]] = cap
        desc = rng.choice(strs) if f[6] else ""
        if f[6]:
            kw[f[6]] = desc
        img = cls(**kw)
        lows[ct] = ct.lower()
        try:
            b = img.get_bytes()
            if b.tell() != 0:
                ctx.finding(f"stream-not-at-0:{cname}.get_bytes", f"{cname}.get_bytes() returns a stream at position {b.tell()} "
                            "(the stored stream had been read before)", {"class": cname, "kwargs": repr(kw)[:800]})
            gb = pair(str(b.tell()), nlist(b.read()))
        except Exception as e:  # noqa
            ctx.finding(f"raises:{cname}.get_bytes", f"{cname}.get_bytes raises {e!r:.120} on a type-directed instance", {"kwargs": repr(kw)[:800]})
            continue
        try:
            md = img.get_metadata()
            wm = "(Some " + pair(coq_opt(md.unit_number, Zs), Zs(md.image_number), cstr(md.content_type), coq_opt(md.width, Zs), coq_opt(md.height, Zs)) + ")"
            for kk in ("unit_number", "image_number", "content_type", "width", "height"):
                if dict.get(md, kk, "<missing>") != getattr(md, kk):
                    ctx.finding("metadata-dict-view-differs:" + cname, f"ImageMetadata item {kk} differs from attribute", {"kwargs": repr(kw)[:800]})
            for d_ in (md.width, md.height):
                if d_ is not None and d_ < (0 if cname == "RtfImage" else 1):
                    ctx.finding(f"dimension-not-positive:{cname}.get_metadata", f"{cname}.get_metadata reports dimension {d_}", {"kwargs": repr(kw)[:800]})
        except OverflowError as e:
            wm = "None"
            ctx.finding("odf-length-overflow", f"OpenDocumentImage.get_metadata() raises OverflowError for width/height "
                        f"{str(w)[:10]!r}…/{str(h)[:10]!r}… ({len(str(w))}/{len(str(h))} characters)",
                        {"class": cname, "width": w, "height": h, "error": repr(e)})
        except Exception as e:  # noqa
            wm = "None"
            ctx.finding(f"raises:{cname}.get_metadata", f"{cname}.get_metadata raises {e!r:.120} on a type-directed instance", {"kwargs": repr(kw)[:800]})
        try:
            texts = (img.get_content_type(), img.get_caption(), img.get_description())
        except Exception as e:  # noqa
            ctx.finding(f"raises:{cname}.text-accessor", f"{cname} text accessor raises {e!r:.120}", {"kwargs": repr(kw)[:800]})
            continue
        ctx.case(("img", cname, repr(kw)), True, kind="instance:" + cname)
        term = ("{| icls := %s; inum := %s; ictype := %s; idata := %s; isize := %s; iwidth := %s; iheight := %s; iunit := %s; "
                "icaption := %s; idesc := %s |}" % (cname, Zs(num), cstr(ct), pl, coq_opt(size, Zs), wt, ht, coq_opt(unit, Zs), cstr(cap), cstr(desc)))
        terms.append(pair(term, gb, wm, pair(*[cstr(t) for t in texts])))
        infos.append((cname, kw))
    low_tbl = coq_list([pair(cstr(k_), cstr(v)) for k_, v in lows.items()])
    corr(ctx, "image_accessors", f"(image_case spaces decimals odf_T rtf_ctypes {low_tbl})", terms, infos,
         "image * (N * list N) * option (option Z * Z * str * option Z * option Z) * (str * str * str)", shard=200)
    # tables
    tcls = ["TableData", "XlsxSheet", "OdsSheet", "OdtTable", "RtfTable", "XlsSheet"]
    terms, infos = [], []
    for k in range(ctx.n(300, 3000)):
        cname = rng.choice(tcls)
        nr = rng.choice([0, 0, 1, 2, 3, 6])
        if cname == "XlsSheet":
            keys = ["a", "b", "c", "d", "\u00fc"]
            data = [{kk: rng.choice([1, "x", None]) for kk in rng.sample(keys, rng.randint(0, 4))} for _ in range(nr)]
            dterm = coq_list([coq_list([pair(cstr(kk), "tt") for kk in row]) for row in data])
        else:
            data = [[rng.choice([1, "x", None]) for _ in range(rng.choice([0, 1, 2, 5]))] for _ in range(nr)]
            dterm = coq_list([coq_list(["tt"] * len(row)) for row in data])
        t = getattr(dt, cname)(data=data)
        try:
            tb_ = t.get_table()
            dm = t.get_dim()
        except Exception as e:  # noqa
            ctx.finding(f"raises:{cname}.get_dim", f"{cname}.get_table/get_dim raises {e!r:.120}", {"data": repr(data)[:600]})
            continue
        lens_ = [len(r_) for r_ in tb_]
        if (dm.rows, dm.columns) != (len(tb_), max(lens_, default=0)):
            ctx.finding(f"dim-mismatch:{cname}.get_dim", f"{cname}.get_dim = {(dm.rows, dm.columns)} but get_table has shape "
                        f"{(len(tb_), max(lens_, default=0))}", {"data": repr(data)[:600]})
        ctx.case(("table", cname, repr(data)), nr >= 2, kind="instance:" + cname)
        terms.append(pair(f"(@{cname} unit {dterm})", coq_list([f"{x}%nat" for x in lens_]), pair(f"{dm.rows}%nat", f"{dm.columns}%nat")))
        infos.append((cname, data))
    corr(ctx, "table_dims", "table_case", terms, infos, "table unit * list nat * (nat * nat)")
    # generic type-directed instances of every result class: accessors must not raise and text must be UTF-8
    run_generic_instances(ctx)


def run_generic_instances(ctx):
    from sharepoint2text.parsing.extractors import data_types as dt
    rng = ctx.rng
    classes = {n: c for n, c in vars(dt).items() if isinstance(c, type) and dataclasses.is_dataclass(c)
               and c.__module__ == dt.__name__ and not getattr(c, "_is_protocol", False)}
    base_strs = ["", "x", "Hello World", " padded ", "\u00fc\u4e2d\U0001f600", "a\nb", "\x00\x01", "10cm", "9" * 400 + "cm", "png"]
    strs = list(base_strs)

    def new_pool():
        """Per instance: a few labels and texts that mention them, so that caption/description/name fields and the
        unit / paragraph texts of ONE instance refer to each other (the matching branches of iterate_units run)."""
        labels = rng.sample(HOSTILE_LABELS, 3)
        pool = list(labels) + [f"See {labels[0]} for the numbers.", f"{labels[1]}0 and more", "Heading " + labels[2], "plain words",
                               # a body text with heading-like lines (legacy DOC units are cut at such lines)
                               f"Chapter 1\nSee {labels[0]} for the numbers.\nSection 1.1\n{labels[1]} is shown below\nIntro\n{labels[2]}0\n",
                               f"Chapter 1\nSee {labels[0]} for the numbers.\nSection 1.1\n{labels[1]} is shown below\nIntro\n{labels[2]}0\n"]
        return pool + rng.sample(base_strs, 3)

    def of(h, depth):
        if h is typing.Any:
            return rng.choice([None, 1, "x", 1.5])
        if h is type(None):
            return None
        if h is str:
            return rng.choice(strs)
        if h is bool:
            return rng.random() < 0.5
        if h is int:
            return rng.choice([1, 1, 2, 2, 3, 7, 1024])
        if h is float:
            return rng.choice([0.0, 1.5, 72.0])
        if h is bytes:
            return rng.choice([b"", b"abc"])
        if h is io.BytesIO:
            b = io.BytesIO(rng.choice([b"", b"abcdef"]))
            b.seek(rng.choice([0, 2]))
            return b
        origin, args = typing.get_origin(h), typing.get_args(h)
        if origin in (list, typing.List):
            return [of(args[0] if args else typing.Any, depth + 1) for _ in range(0 if depth >= 3 else rng.randrange(5 if depth == 0 else 3))]
        if origin in (dict, typing.Dict):
            return {rng.choice(["a", "b", "c"]): of(args[1] if len(args) > 1 else typing.Any, depth + 1) for _ in range(rng.randrange(3))}
        if origin is tuple:
            return tuple(of(a, depth + 1) for a in args if a is not Ellipsis)
        if origin in (typing.Union, types.UnionType):
            if depth >= 3 and type(None) in args:
                return None
            return of(rng.choice(args), depth)
        if isinstance(h, type) and dataclasses.is_dataclass(h):
            return inst(h, depth + 1)
        if isinstance(h, type) and h.__name__ in ("ImageInterface", "UnitInterface", "TableInterface"):
            impl = [c for c in classes.values() if h in c.__mro__ and not getattr(c, "_is_protocol", False)]
            return inst(rng.choice(impl), depth + 1) if impl else None
        return None

    def inst(cls, depth):
        try:
            hints = typing.get_type_hints(cls)
        except Exception:  # noqa
            hints = {}
        kw = {f.name: of(hints.get(f.name, typing.Any), depth) for f in dataclasses.fields(cls) if f.init}
        return cls(**kw)

    results = [c for c in classes.values() if hasattr(c, "iterate_units") and hasattr(c, "get_full_text")]
    made = 0
    for c in results:
        for k in range(ctx.n(40, 300)):
            strs[:] = new_pool() if k % 4 else base_strs
            try:
                r = inst(c, 0)
            except Exception:  # noqa  (constructor constraints are not part of the interface)
                ctx.count("instance:not-constructible")
                continue
            made += 1
            exercise(ctx, r, f"instance:{c.__name__}", ..., {"class": c.__name__, "instance": repr(r)[:1500]},
                     check_size=False, strict_numbers=False)
    ctx.extra["generic_instances"] = made


# ------------------------------------------------------------------------------------------------ entry
def run(ctx):
    logging.disable(logging.CRITICAL)
    import warnings
    warnings.filterwarnings("ignore")
    ctx.rule = ("cases = generated ODF lengths, path strings, RTF body texts, property trees, type-directed image/table/result "
                "instances, every fixture, mutated-but-accepted fixtures, hostile documents; non-trivial = at least one accessor "
                "beyond get_full_text was exercised, or the input has structure (digits+unit, a separator or dot, a control word)")
    ctx.trusted += [
        "G-dump/X: tools/props/c04.py prints Unicode whitespace/decimal tables (str.isspace, unicodedata.decimal), translates the unit "
        "branches of _odf_length_to_px from its ast (fail-closed), dumps SKIP_DESTINATIONS/SPECIAL_CHARS/_CONTENT_TYPES, reader tag names, "
        "declared image field types; three behavioural probes select the modelled variant (guarded/repaired) of the three repaired spots",
        "oracles: str.isspace/isalpha/isdigit/lower, Unicode decimal values, the file system (Path.exists/resolve, recorded per case), "
        "ElementTree parsing and find(), html.parser, CPython codecs (utf-16 surrogatepass/replace modelled by repair_surrogates, tied by D)",
        "Coq.Floats.SpecFloat (binary64: SFmul/SFdiv/binary_normalize) as the meaning of CPython float *, /, float(str); round() modelled by rne",
        "modelled by hand, tied by differential runs: accessors of the 10 image and 6 table classes, ImageMetadata, _odf_length_to_px, "
        "pathlib.PurePosixPath name/suffix/parent/str (3.12), populate_from_path, _strip_rtf_full_with_pages, metadata readers (core.xml, "
        "meta.xml, OPF, HTML meta)",
        "validated only (sweep): accessors never raise / UTF-8 / positive numbers / size / dims / path metadata for results of ALL extractors "
        "on fixtures, mutants and hostile documents; _strip_rtf_simple, RTF info group, OLE summary readers are not modelled",
    ]
    ctx.assumptions += ["POSIX pathlib of CPython 3.12; streams held by images are open; IEEE-754 binary64 floats"]
    tb = gen_tables(ctx)
    memo_obligation(ctx)
    inventory_obligation(ctx)
    import time as _t
    _t0 = _t.time()
    ctx.prove("C04/Props.v", ["C04/Proofs.vo", "C04/ProofsPath.vo", "C04/ProofsRtf.vo", "C04/ProofsMeta.vo", "C04/ProofsRtfText.vo", "C04/ModelSummary.vo", "C04/ProofsImeta.vo", "C04/ProofsEpub.vo"], expected=PROPS)
    ctx.prove("C04/Inst.v", ["Gen/C04Tables.vo", "C04/Corr.vo", "C04/ProofsRtf.vo"], expected=INST)
    ctx.prove("C04/InstFixed.v", ["C04/Inst.vo"], expected=INST_FIXED)
    ctx.extra["prove_s"] = round(_t.time() - _t0, 1)
    import time
    stage = {}
    for fn in (run_odf, run_paths, run_rtf, run_rtf_text, run_meta, run_summary, run_imeta, run_instances, run_env):
        t0 = time.time()
        fn(ctx, tb)
        stage[fn.__name__] = round(time.time() - t0, 1)
    for fn in (run_fixtures, run_hostile_docs, run_mutants):
        t0 = time.time()
        fn(ctx)
        stage[fn.__name__] = round(time.time() - t0, 1)
    ctx.extra["stage_s"] = stage
    cov = ctx.extra.pop("_acc_by_origin", {})
    only_inst = sorted(cov.get("instance", set()) - cov.get("extracted", set()))
    ctx.extra["accessors_exercised_on_extracted_results"] = len(cov.get("extracted", set()))
    ctx.extra["accessor_families_only_on_type_directed_instances"] = only_inst


META = {
    "technique": "Coq proof over executable models of the interface accessors, _odf_length_to_px (SpecFloat, bit-exact), pathlib-based "
                 "path metadata, the RTF body decoder and the document-property readers; tables/expressions regenerated from the live "
                 "modules; vm_compute differential correspondence; accessor sweep over fixtures, mutants, hostile documents, instances",
    "design_ref": "DESIGN.md §5 C04",
    "level_text": "Kernel-checked: get_dim is the shape of get_table for all six table classes; get_bytes is at position 0 with the image's "
                  "bytes (length = size_bytes under the producer invariant); path metadata: all None without a path, name/extension/folder "
                  "of every normal-form path incl. archive!/member forms, total once Path.exists() is shielded (refuted before); "
                  "ImageMetadata construction total except via the ODF length conversion, which is total once guarded (overflow refutation "
                  "with a 400-digit witness) ; RTF body decoder output is UTF-8 encodable for every input once surrogates are repaired "
                  "(refuted before; partial theorem for inputs without \\u escapes); document properties reach the metadata object unchanged "
                  "for core.xml/meta.xml/HTML meta (EPUB: stripped — refuted, partial). Validated only: the same contract for results "
                  "of all extractors on fixtures, mutated-but-accepted inputs and hostile documents.",
    "level_note": "Outside the model, stated: the meaning of a code page (bytes.decode) and of UTF-8/UTF-16 codecs, ElementTree/html.parser, "
                  "olefile/openpyxl records, the regex engine's choice of the info-group capture, pathlib on non-POSIX systems, image "
                  "sniffers of util/image_utils.py (C14's), HTML <title> assembly (_get_node_text, C02's walker), 7z archives with absolute "
                  "member names (rejected as a whole by the reader: C09), XLSX `subject` (no field in XlsxMetadata). "
                  "Trusted: Coq kernel+VM; SpecFloat as IEEE semantics; the hand-written models (validated differentially); the ast "
                  "translator of the unit branches; str predicates, file system, XML/HTML parsers and codecs are oracles.",
}
