"""C02 / ODP — the frames of a slide (groups, notes page) and their order.

Coq (C02/Odp.v, PropsOdp.v): `slide_frames` = odp_extractor._iter_slide_frames; abstract slides (frames,
nested draw:g groups, other shapes, a notes page) rendered by Coq; theorems: every frame exactly once in
document order and no notes frame (C02_odp_frames_once), processing order = stable sort by (y, x)
(C02_odp_each_frame_once / _position_order / _ties_document_order), refutations of the two wrong
collection strategies (direct children only = the code before a0edc91; Element.iter = enters the notes).
X: the source of _iter_slide_frames has exactly the modelled shape (fail closed) and _extract_slide
   obtains its frames from it and sorts them by (y, x).
D: Coq renders the slide XML (one source of truth); read_odp on the package; Coq compares the token order
   of get_full_text() with `odp_order`.
Oracle: every slide frame's token once, position order with ties in document order, no notes token in
   get_full_text(), notes tokens in OdpSlide.notes.
"""
from __future__ import annotations

import ast
import inspect
import io
import textwrap
import zipfile

from common import coq_list, coq_eval_shards

PRE = "From S2T Require Import Lib.PyStr C02.Xml C02.Pptx C02.Odp.\nFrom Coq Require Import ZArith.\n"
PROPS_EXPECTED = ["C02_odp_frames_once", "C02_odp_each_frame_once", "C02_odp_position_order",
                  "C02_odp_ties_document_order", "C02_odp_direct_children_refuted", "C02_odp_iter_everywhere_refuted"]
BASE = 0x4E00

EXPECTED_ITER = textwrap.dedent("""\
    for child in parent:
        if child.tag == _DRAW_FRAME_TAG:
            yield child
        elif child.tag == _DRAW_G_TAG:
            yield from _iter_slide_frames(child)""")


def body_source(fn) -> str:
    tree = ast.parse(textwrap.dedent(inspect.getsource(fn))).body[0]
    body = tree.body
    if body and isinstance(body[0], ast.Expr) and isinstance(getattr(body[0], "value", None), ast.Constant) \
            and isinstance(body[0].value.value, str):
        body = body[1:]
    return "\n".join(ast.unparse(st) for st in body)


class SlideGen:
    def __init__(self, rng):
        self.rng, self.n = rng, 0

    def frame(self):
        self.n += 1
        return {"id": self.n, "y": self.rng.randint(0, 4), "x": self.rng.randint(0, 3)}

    def shape(self, depth):
        r = self.rng.random()
        if r < 0.55 or depth >= 3:
            return ("f", self.frame())
        if r < 0.85:
            return ("g", [self.shape(depth + 1) for _ in range(self.rng.randint(0, 3))])
        return ("o", self.rng.randint(1, 9))

    def slide(self):
        shapes = [self.shape(0) for _ in range(self.rng.randint(1, 5))]
        notes = [self.frame() for _ in range(self.rng.choice([0, 0, 1, 2]))]
        return shapes, notes


def fterm(f):
    return f"{{| fid := {f['id']}%N; fy := {f['y']}%Z; fx := {f['x']}%Z |}}"


def sterm(sh):
    k, v = sh
    if k == "f":
        return f"(SFrame {fterm(v)})"
    if k == "g":
        return "(SGroup " + coq_list([sterm(x) for x in v]) + ")"
    return f"(SOther {v}%N)"


def flat(shapes):
    out = []
    for k, v in shapes:
        if k == "f":
            out.append(v)
        elif k == "g":
            out += flat(v)
    return out


def run_part(ctx):
    from props.c02 import coq_results, parse_strings, with_decls, encode_part, pick_encoding
    from sharepoint2text.parsing.extractors.open_office import odp_extractor as OP
    ctx.prove("C02/PropsOdp.v", ["C02/Odp.vo"], expected=PROPS_EXPECTED)

    # ---- X: the code has the modelled shape (fail closed)
    try:
        src = body_source(OP._iter_slide_frames)
    except Exception as e:  # noqa
        src = f"<unavailable: {e}>"
    ctx.obligation("odp-shape:_iter_slide_frames has the modelled body (frame -> yield, draw:g -> recurse, nothing else)",
                   src == EXPECTED_ITER, "source now:\n" + src)
    try:
        es = ast.unparse(ast.parse(textwrap.dedent(inspect.getsource(OP._extract_slide))))
    except Exception as e:  # noqa
        es = f"<unavailable: {e}>"
    uses = es.count("_iter_slide_frames(page)") == 1 and "findall('draw:frame'" not in es and \
        "frames_with_positions.sort(key=lambda item: (item[0], item[1]))" in es
    ctx.obligation("odp-shape:_extract_slide takes its frames from _iter_slide_frames(page) and sorts them by (y, x)", uses,
                   "call / sort statement not found in _extract_slide")

    rng = ctx.rng
    gen = SlideGen(rng)
    slides = [gen.slide() for _ in range(ctx.n(120, 2000))]
    terms = ["{| shapes := " + coq_list([sterm(x) for x in sh]) + "; note_frames := " + coq_list([fterm(f) for f in nt]) + " |}"
             for sh, nt in slides]
    # ---- Coq renders
    xmls, decls, qn = [], None, None
    for k in range(0, len(terms), 150):
        chunk = terms[k:k + 150]
        body = (PRE + "Definition cases : list slide := [\n" + ";\n".join(chunk) + "\n].\n"
                "Eval vm_compute in (map (fun sl => to_string (ser (r_page sl))) cases).\n"
                "Eval vm_compute in (to_string xmlns_decls).\n"
                "Eval vm_compute in [to_string (qname D_frame); to_string (qname D_g); to_string (qname PR_notes)].\n")
        ok, out = ctx.coq_eval(f"odp_render_{k}", body, timeout=600)
        r = coq_results(out) if ok else []
        if len(r) != 3 or len(parse_strings(r[0])) != len(chunk):
            ctx.obligation("correspondence:odp odp_order model == token order of read_odp(...).get_full_text()", False,
                           "render pass failed: " + out[-800:])
            return
        xmls += parse_strings(r[0])
        decls, qn = parse_strings(r[1])[0], parse_strings(r[2])
    ctx.obligation("odp-shape:tag constants are the model's constructors (draw:frame, draw:g, presentation:notes)",
                   qn[0] == OP._DRAW_FRAME_TAG and qn[1] == OP._DRAW_G_TAG and qn[2] == "{%s}notes" % OP.NS["presentation"],
                   f"{qn} vs {OP._DRAW_FRAME_TAG}, {OP._DRAW_G_TAG}")

    cases, info = [], []
    for (shapes, notes), term, x in zip(slides, terms, xmls):
        enc = pick_encoding(rng)
        content = (f'<office:document-content{decls} xmlns:xlink="http://www.w3.org/1999/xlink"><office:body><office:presentation>'
                   f'{x}</office:presentation></office:body></office:document-content>')
        b = io.BytesIO()
        with zipfile.ZipFile(b, "w", zipfile.ZIP_DEFLATED) as z:
            z.writestr("mimetype", "application/vnd.oasis.opendocument.presentation")
            z.writestr("META-INF/manifest.xml",
                       '<?xml version="1.0"?><manifest:manifest xmlns:manifest="urn:oasis:names:tc:opendocument:xmlns:manifest:1.0">'
                       '<manifest:file-entry manifest:full-path="/" manifest:media-type="application/vnd.oasis.opendocument.presentation"/>'
                       '</manifest:manifest>')
            z.writestr("content.xml", encode_part(content, enc))
        frames = flat(shapes)
        grouped = any(k == "g" for k, _ in shapes)
        ctx.case(("odp-frames", term, enc), len(frames) >= 3,
                 "odp-frames:" + ("grouped" if grouped else "flat") + ("+notes" if notes else ""))
        try:
            c = next(OP.read_odp(io.BytesIO(b.getvalue())))
            got = c.get_full_text()
            got_notes = "".join(c.slides[0].notes) if c.slides else ""
        except Exception as e:  # noqa
            ctx.finding("odp:raises", f"read_odp raised {type(e).__name__}: {e} on a generated slide", {"format": "odp", "page_xml": x, "encoding": enc})
            continue
        ids = [ord(ch) - BASE for ch in got if not ch.isspace()]
        cases.append(f"({term}, [" + ";".join(map(str, ids)) + "]%N)")
        info.append((x, ids))
        want = [f["id"] for f in sorted(frames, key=lambda f: (f["y"], f["x"]))]
        note_ids = [f["id"] for f in notes]
        rep = {"format": "odp", "page_xml": x, "expected_ids": want, "got_ids": ids, "notes_ids": note_ids, "encoding": enc}
        if set(ids) & set(note_ids):
            ctx.finding("odp:speaker-notes-in-full-text", "ODP get_full_text(): text of a frame of the notes page (presentation:notes) appears in the slide text", rep)
        elif any(chr(BASE + i) not in got_notes for i in note_ids):
            ctx.finding("odp:speaker-notes-not-collected", "ODP: text of a notes-page frame is missing from OdpSlide.notes", rep)
        elif sorted(ids) != sorted(want):
            ctx.finding("odp:grouped-text-box-lost" if grouped else "odp:frame-text-multiplicity",
                        "ODP get_full_text(): a frame's text is missing or duplicated" + (" (frames inside draw:g groups)" if grouped else ""), rep)
        elif ids != want:
            ctx.finding("odp:frame-order", "ODP get_full_text(): frames are not in position order with ties in document order", rep)
    ok, failing, log = coq_eval_shards(ctx, "odp_corr", PRE, "corr_odp", cases, shard=400, ty="slide * list N")
    ctx.traces += len(cases)
    ctx.disagreements += len(failing)
    ctx.obligation("correspondence:odp odp_order model == token order of read_odp(...).get_full_text()", ok and not failing,
                   (f"{len(failing)} disagreements; first: got={info[failing[0]][1]} xml={info[failing[0]][0][:600]} " if failing else "") + log[:600])
    ctx.extra["odp_frames"] = {"slides": len(cases)}
