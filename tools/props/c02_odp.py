"""C02 / ODP — the frames of a slide (groups, notes page) and their order.

Coq (C02/Odp.v, PropsOdp.v): `slide_frames` = odp_extractor._iter_slide_frames; abstract slides (frames,
nested draw:g groups, other shapes, a notes page) rendered by Coq; theorems: every frame exactly once in
document order and no notes frame (C02_odp_frames_once), processing order = stable sort by (y, x)
(C02_odp_each_frame_once / _position_order / _ties_document_order), refutations of the two wrong
collection strategies (direct children only = the code before a0edc91; Element.iter = enters the notes).
X: the source of _iter_slide_frames has exactly the modelled shape (fail closed) and _extract_slide
   obtains its frames from it and sorts them by (y, x).
D: Coq renders the slide XML (one source of truth); read_odp on the package; Coq compares the token order
   of get_full_text() with `odp_order`.
Oracle: every slide frame's token once, position order with ties in document order, no notes token in
   get_full_text(), notes tokens in OdpSlide.notes.
"""
from __future__ import annotations

import ast
import inspect
import io
import textwrap
import zipfile

from common import coq_list, coq_eval_shards

PRE = "From S2T Require Import Lib.PyStr C02.Xml C02.Pptx C02.Odp.\nFrom Coq Require Import ZArith.\n"
PROPS_EXPECTED = ["C02_odp_frames_once", "C02_odp_each_frame_once", "C02_odp_position_order",
                  "C02_odp_ties_document_order", "C02_odp_direct_children_refuted", "C02_odp_iter_everywhere_refuted",
                  "C02_odp_grouping_each_once", "C02_odp_grouping_order_partial", "C02_odp_grouping_order_refuted"]
BASE = 0x4E00

EXPECTED_ITER = textwrap.dedent("""\
    for child in parent:
        if child.tag == _DRAW_FRAME_TAG:
            yield child
        elif child.tag == _DRAW_G_TAG:
            yield from _iter_slide_frames(child)""")


def body_source(fn) -> str:
    tree = ast.parse(textwrap.dedent(inspect.getsource(fn))).body[0]
    body = tree.body
    if body and isinstance(body[0], ast.Expr) and isinstance(getattr(body[0], "value", None), ast.Constant) \
            and isinstance(body[0].value.value, str):
        body = body[1:]
    return "\n".join(ast.unparse(st) for st in body)


class SlideGen:
    def __init__(self, rng):
        self.rng, self.n = rng, 0

    def frame(self):
        self.n += 1
        return {"id": self.n, "y": self.rng.randint(0, 4), "x": self.rng.randint(0, 3)}

    def shape(self, depth):
        r = self.rng.random()
        if r < 0.55 or depth >= 3:
            return ("f", self.frame())
        if r < 0.85:
            return ("g", [self.shape(depth + 1) for _ in range(self.rng.randint(0, 3))])
        return ("o", self.rng.randint(1, 9))

    def slide(self):
        shapes = [self.shape(0) for _ in range(self.rng.randint(1, 5))]
        notes = [self.frame() for _ in range(self.rng.choice([0, 0, 1, 2]))]
        return shapes, notes


def fterm(f):
    return f"{{| fid := {f['id']}%N; fy := {f['y']}%Z; fx := {f['x']}%Z |}}"


def sterm(sh):
    k, v = sh
    if k == "f":
        return f"(SFrame {fterm(v)})"
    if k == "g":
        return "(SGroup " + coq_list([sterm(x) for x in v]) + ")"
    return f"(SOther {v}%N)"


def flat(shapes):
    out = []
    for k, v in shapes:
        if k == "f":
            out.append(v)
        elif k == "g":
            out += flat(v)
    return out


def run_part(ctx):
    from props.c02 import coq_results, parse_strings, with_decls, encode_part, pick_encoding
    from sharepoint2text.parsing.extractors.open_office import odp_extractor as OP
    ctx.prove("C02/PropsOdp.v", ["C02/Odp.vo", "C02/OdpGroup.vo"], expected=PROPS_EXPECTED)

    # ---- X: the code has the modelled shape (fail closed)
    try:
        src = body_source(OP._iter_slide_frames)
    except Exception as e:  # noqa
        src = f"<unavailable: {e}>"
    ctx.obligation("odp-shape:_iter_slide_frames has the modelled body (frame -> yield, draw:g -> recurse, nothing else)",
                   src == EXPECTED_ITER, "source now:\n" + src)
    try:
        es = ast.unparse(ast.parse(textwrap.dedent(inspect.getsource(OP._extract_slide))))
    except Exception as e:  # noqa
        es = f"<unavailable: {e}>"
    uses = es.count("_iter_slide_frames(page)") == 1 and "findall('draw:frame'" not in es and \
        "frames_with_positions.sort(key=lambda item: (item[0], item[1]))" in es
    ctx.obligation("odp-shape:_extract_slide takes its frames from _iter_slide_frames(page) and sorts them by (y, x)", uses,
                   "call / sort statement not found in _extract_slide")

    rng = ctx.rng
    gen = SlideGen(rng)
    slides = [gen.slide() for _ in range(ctx.n(120, 2000))]
    terms = ["{| shapes := " + coq_list([sterm(x) for x in sh]) + "; note_frames := " + coq_list([fterm(f) for f in nt]) + " |}"
             for sh, nt in slides]
    # ---- Coq renders
    xmls, decls, qn = [], None, None
    for k in range(0, len(terms), 150):
        chunk = terms[k:k + 150]
        body = (PRE + "Definition cases : list slide := [\n" + ";\n".join(chunk) + "\n].\n"
                "Eval vm_compute in (map (fun sl => to_string (ser (r_page sl))) cases).\n"
                "Eval vm_compute in (to_string xmlns_decls).\n"
                "Eval vm_compute in [to_string (qname D_frame); to_string (qname D_g); to_string (qname PR_notes)].\n")
        ok, out = ctx.coq_eval(f"odp_render_{k}", body, timeout=600)
        r = coq_results(out) if ok else []
        if len(r) != 3 or len(parse_strings(r[0])) != len(chunk):
            ctx.obligation("correspondence:odp odp_order model == token order of read_odp(...).get_full_text()", False,
                           "render pass failed: " + out[-800:])
            return
        xmls += parse_strings(r[0])
        decls, qn = parse_strings(r[1])[0], parse_strings(r[2])
    ctx.obligation("odp-shape:tag constants are the model's constructors (draw:frame, draw:g, presentation:notes)",
                   qn[0] == OP._DRAW_FRAME_TAG and qn[1] == OP._DRAW_G_TAG and qn[2] == "{%s}notes" % OP.NS["presentation"],
                   f"{qn} vs {OP._DRAW_FRAME_TAG}, {OP._DRAW_G_TAG}")

    cases, info = [], []
    for (shapes, notes), term, x in zip(slides, terms, xmls):
        enc = pick_encoding(rng)
        content = (f'<office:document-content{decls} xmlns:xlink="http://www.w3.org/1999/xlink"><office:body><office:presentation>'
                   f'{x}</office:presentation></office:body></office:document-content>')
        b = io.BytesIO()
        with zipfile.ZipFile(b, "w", zipfile.ZIP_DEFLATED) as z:
            z.writestr("mimetype", "application/vnd.oasis.opendocument.presentation")
            z.writestr("META-INF/manifest.xml",
                       '<?xml version="1.0"?><manifest:manifest xmlns:manifest="urn:oasis:names:tc:opendocument:xmlns:manifest:1.0">'
                       '<manifest:file-entry manifest:full-path="/" manifest:media-type="application/vnd.oasis.opendocument.presentation"/>'
                       '</manifest:manifest>')
            z.writestr("content.xml", encode_part(content, enc))
        frames = flat(shapes)
        grouped = any(k == "g" for k, _ in shapes)
        ctx.case(("odp-frames", term, enc), len(frames) >= 3,
                 "odp-frames:" + ("grouped" if grouped else "flat") + ("+notes" if notes else ""))
        try:
            c = next(OP.read_odp(io.BytesIO(b.getvalue())))
            got = c.get_full_text()
            got_notes = "".join(c.slides[0].notes) if c.slides else ""
        except Exception as e:  # noqa
            ctx.finding("odp:raises", f"read_odp raised {type(e).__name__}: {e} on a generated slide", {"format": "odp", "page_xml": x, "encoding": enc})
            continue
        ids = [ord(ch) - BASE for ch in got if not ch.isspace()]
        cases.append(f"({term}, [" + ";".join(map(str, ids)) + "]%N)")
        info.append((x, ids))
        want = [f["id"] for f in sorted(frames, key=lambda f: (f["y"], f["x"]))]
        note_ids = [f["id"] for f in notes]
        rep = {"format": "odp", "page_xml": x, "expected_ids": want, "got_ids": ids, "notes_ids": note_ids, "encoding": enc}
        if set(ids) & set(note_ids):
            ctx.finding("odp:speaker-notes-in-full-text", "ODP get_full_text(): text of a frame of the notes page (presentation:notes) appears in the slide text", rep)
        elif any(chr(BASE + i) not in got_notes for i in note_ids):
            ctx.finding("odp:speaker-notes-not-collected", "ODP: text of a notes-page frame is missing from OdpSlide.notes", rep)
        elif sorted(ids) != sorted(want):
            ctx.finding("odp:grouped-text-box-lost" if grouped else "odp:frame-text-multiplicity",
                        "ODP get_full_text(): a frame's text is missing or duplicated" + (" (frames inside draw:g groups)" if grouped else ""), rep)
        elif ids != want:
            ctx.finding("odp:frame-order", "ODP get_full_text(): frames are not in position order with ties in document order", rep)
    ok, failing, log = coq_eval_shards(ctx, "odp_corr", PRE, "corr_odp", cases, shard=400, ty="slide * list N")
    ctx.traces += len(cases)
    ctx.disagreements += len(failing)
    ctx.obligation("correspondence:odp odp_order model == token order of read_odp(...).get_full_text()", ok and not failing,
                   (f"{len(failing)} disagreements; first: got={info[failing[0]][1]} xml={info[failing[0]][0][:600]} " if failing else "") + log[:600])
    ctx.extra["odp_frames"] = {"slides": len(cases)}


    # ---- title / body / other grouping (OdpSlide.text_combined): model C02/OdpGroup.v
    grouping_part(ctx, OP, decls, encode_part)


STYLES = ["", "", "P1", "Title", "TitleText", "MyTitle2", "Body", "BodyText", "OutlineBody1", "Standard", "SubtitleBody"]


def grouping_part(ctx, OP, decls, encode_part):
    import inspect as _inspect
    from sharepoint2text.parsing.extractors import data_types as DT
    rng = ctx.rng
    es = ast.unparse(ast.parse(textwrap.dedent(_inspect.getsource(OP._extract_slide))))
    chain = ("if not found_title and ('Title' in style_name or style_name == 'TitleText'):\n"
             "                    slide.title = text\n                    found_title = True\n"
             "                elif 'Body' in style_name or style_name == 'BodyText':\n"
             "                    slide.body_text.append(text)\n                else:\n"
             "                    slide.other_text.append(text)")
    tc = ast.unparse(ast.parse(textwrap.dedent(_inspect.getsource(DT.OdpSlide.text_combined.fget))))
    ctx.obligation("odp-shape:title/body/other classification chain and OdpSlide.text_combined have the modelled shape",
                   " ".join(chain.split()) in " ".join(es.split()) and "parts.append(self.title)" in tc and "parts.extend(self.body_text)" in tc
                   and "parts.extend(self.other_text)" in tc and tc.index("self.title)") < tc.index("self.body_text") < tc.index("self.other_text"),
                   "classification chain or text_combined changed")
    cases, info = [], []
    tid = 0
    for _ in range(ctx.n(120, 1500)):
        paras, frames = [], ""
        for fi in range(rng.randint(1, 3)):
            ps = ""
            for _ in range(rng.randint(1, 3)):
                tid += 1
                st = rng.choice(STYLES)
                paras.append((("Title" in st or st == "TitleText"), ("Body" in st or st == "BodyText"), tid % 900, st))
                ps += f'<text:p text:style-name="{st}">&#{0x4E00 + tid % 900};</text:p>' if st else f"<text:p>&#{0x4E00 + tid % 900};</text:p>"
            frames += f'<draw:frame svg:x="1cm" svg:y="{1 + fi}cm" svg:width="5cm" svg:height="1cm"><draw:text-box>{ps}</draw:text-box></draw:frame>'
        content = (f'<office:document-content{decls}><office:body><office:presentation><draw:page>{frames}</draw:page>'
                   '</office:presentation></office:body></office:document-content>')
        b = io.BytesIO()
        with zipfile.ZipFile(b, "w") as z:
            z.writestr("mimetype", "application/vnd.oasis.opendocument.presentation")
            z.writestr("META-INF/manifest.xml", '<?xml version="1.0"?><manifest:manifest xmlns:manifest="urn:oasis:names:tc:opendocument:xmlns:manifest:1.0">'
                       '<manifest:file-entry manifest:full-path="/" manifest:media-type="application/vnd.oasis.opendocument.presentation"/></manifest:manifest>')
            z.writestr("content.xml", encode_part(content, "ascii-refs"))
        styled = any(t or bd for t, bd, _, _ in paras)
        ctx.case(("odp-grouping", tuple(paras)), len(paras) >= 3, "odp-grouping:" + ("styled" if styled else "plain"))
        try:
            got = next(OP.read_odp(io.BytesIO(b.getvalue()))).get_full_text()
        except Exception as e:  # noqa
            ctx.finding("odp:raises", f"read_odp raised {type(e).__name__}: {e}", {"format": "odp", "frames": frames})
            continue
        ids = [ord(c) - 0x4E00 for c in got if not c.isspace()]
        want_ids = [i for _, _, i, _ in paras]
        cases.append("(" + coq_list([f"({'true' if t else 'false'}, {'true' if bd else 'false'}, {i}%N)" for t, bd, i, _ in paras]) +
                     ", [" + ";".join(map(str, ids)) + "]%N)")
        info.append((frames, ids))
        rep = {"format": "odp", "frames": frames, "expected_ids_in_source_order": want_ids, "got_ids": ids}
        if sorted(ids) != sorted(want_ids):
            ctx.finding("odp:grouping-loses-or-duplicates-paragraph", "ODP get_full_text(): a paragraph is lost or duplicated by the "
                        "title/body/other assembly", rep)
        elif not styled and ids != want_ids:
            ctx.finding("odp:unstyled-paragraph-order", "ODP get_full_text(): paragraphs without title/body style are not in source order", rep)
    ok, failing, log = coq_eval_shards(ctx, "odp_group", "From S2T Require Import C02.Pptx C02.OdpGroup.\nFrom Coq Require Import List NArith.\nImport ListNotations.\n",
                                       "corr_group", cases, shard=400, ty="list (bool * bool * N) * list N")
    ctx.traces += len(cases)
    ctx.disagreements += len(failing)
    ctx.obligation("correspondence:odp text_combined model == token order of get_full_text() over styled paragraphs", ok and not failing,
                   (f"{len(failing)} disagreements; first: got={info[failing[0]][1]} frames={info[failing[0]][0][:500]} " if failing else "") + log[:500])
