"""C13 — tables come back with their shape and every cell in place.

G: whitespace set, tag constants, REMOVE_TAGS dumped from the live interpreter/modules into
   Gen/C13Tables.v; C13/Inst.v re-decides the obligations over them.
D: abstract source grids -> (Python mirror of the Coq `render`) -> real files (zip + XML, openpyxl,
   html/epub strings) -> real extractors -> iterate_tables(); the tree the implementation parsed,
   the abstract document and the implementation's answer are emitted as Coq terms and Coq checks
   `tree = render doc` and `model walker tree = implementation`.
Oracle: the expected grids (the theorem's right-hand side) are compared with the implementation's
   answer directly; disagreements are findings keyed by the construct that triggers them.
"""
from __future__ import annotations

import datetime
import html as htmlmod
import io
import re
import zipfile
from html.parser import HTMLParser
from xml.etree import ElementTree as ET
from xml.sax.saxutils import escape as xesc, quoteattr

from common import coq_str, coq_list, coq_bool, coq_opt, coq_Z, coq_eval_shards

# ----------------------------------------------------------------------------- namespaces / trees
NSMAP = {
    "w": "http://schemas.openxmlformats.org/wordprocessingml/2006/main",
    "a": "http://schemas.openxmlformats.org/drawingml/2006/main",
    "p": "http://schemas.openxmlformats.org/presentationml/2006/main",
    "r": "http://schemas.openxmlformats.org/officeDocument/2006/relationships",
    "office": "urn:oasis:names:tc:opendocument:xmlns:office:1.0",
    "text": "urn:oasis:names:tc:opendocument:xmlns:text:1.0",
    "table": "urn:oasis:names:tc:opendocument:xmlns:table:1.0",
    "draw": "urn:oasis:names:tc:opendocument:xmlns:drawing:1.0",
    "svg": "urn:oasis:names:tc:opendocument:xmlns:svg-compatible:1.0",
    "presentation": "urn:oasis:names:tc:opendocument:xmlns:presentation:1.0",
    "dc": "http://purl.org/dc/elements/1.1/",
}
URI2P = {v: k for k, v in NSMAP.items()}
TABLE_URI = "http://schemas.openxmlformats.org/drawingml/2006/table"


def short(name: str) -> str:
    """'{uri}local' -> 'prefix:local' (unknown namespaces stay as they are)."""
    if name.startswith("{"):
        uri, local = name[1:].split("}", 1)
        if uri in URI2P:
            return URI2P[uri] + ":" + local
    return name


class Nd:
    __slots__ = ("tag", "attrs", "text", "children", "tail")

    def __init__(self, tag, children=None, text="", attrs=None, tail=""):
        self.tag, self.attrs, self.text, self.children, self.tail = tag, list(attrs or []), text, list(children or []), tail


# how elements without content are written: "never" <t></t>, "always" <t/>, "random" per element
_SC = {"mode": "never", "rng": None}


def set_selfclose(mode, rng=None):
    _SC["mode"], _SC["rng"] = mode, rng


def _selfclose_now() -> bool:
    m = _SC["mode"]
    return m == "always" or (m == "random" and _SC["rng"].random() < 0.5)


def nd_xml(n: Nd) -> str:
    a = "".join(f" {k}={quoteattr(v)}" for k, v in n.attrs)
    inner = xesc(n.text) + "".join(nd_xml(c) for c in n.children)
    if not inner and _selfclose_now():
        return f"<{n.tag}{a}/>" + xesc(n.tail)
    return f"<{n.tag}{a}>{inner}</{n.tag}>" + xesc(n.tail)


def xmlns_decl() -> str:
    return "".join(f' xmlns:{k}="{v}"' for k, v in NSMAP.items())


def nd_from_et(e) -> Nd:
    return Nd(short(e.tag), [nd_from_et(c) for c in e], e.text or "", [(short(k), v) for k, v in e.attrib.items()], e.tail or "")


def nd_from_htmltree(d) -> Nd:
    return Nd(d["tag"], [nd_from_htmltree(c) for c in d["children"]], d["text"] or "", [], d["tail"] or "")


def coq_nd(n: Nd) -> str:
    a = coq_list([f"({coq_str(k)}, {coq_str(v)})" for k, v in n.attrs])
    return f"(Elem {coq_str(n.tag)} {a} {coq_str(n.text)} {coq_list([coq_nd(c) for c in n.children])} {coq_str(n.tail)})"


def coq_tables(ts) -> str:
    return coq_list([coq_list([coq_list([coq_str(c) for c in r]) for r in t]) for t in ts])


def coq_sgrid(g) -> str:
    return coq_list([coq_list([coq_str(c) for c in r]) for r in g])


def zipbytes(files: dict) -> bytes:
    b = io.BytesIO()
    with zipfile.ZipFile(b, "w", zipfile.ZIP_DEFLATED) as z:
        for k, v in files.items():
            z.writestr(k, v)
    return b.getvalue()


# ----------------------------------------------------------------------------- abstract documents
# para = [run,...]; fcell = [para,...]; citem = ("p", para) | ("t", fgrid); cell = [citem]; block = ("p", para) | ("t", grid)
def coq_para(p):
    return coq_list([coq_str(r) for r in p])


def coq_fgrid(g):
    return coq_list([coq_list([coq_list([coq_para(p) for p in c]) for c in r]) for r in g])


def coq_cell(c):
    return coq_list([f"(CPara {coq_para(i[1])})" if i[0] == "p" else f"(CTable {coq_fgrid(i[1])})" for i in c])


def coq_doc(d):
    return coq_list([f"(BPara {coq_para(b[1])})" if b[0] == "p" else
                     "(BTable " + coq_list([coq_list([coq_cell(c) for c in r]) for r in b[1]]) + ")" for b in d])


def doc_has_nested(d):
    return any(b[0] == "t" and any(i[0] == "t" for r in b[1] for c in r for i in c) for b in d)


def para_text(p):
    return "".join(p)


def spec_top(d):
    return [[["\n".join(para_text(i[1]) for i in c if i[0] == "p") for c in r] for r in b[1]] for b in d if b[0] == "t"]


def spec_preorder(d):
    out = []
    for b in d:
        if b[0] != "t":
            continue
        out.append([["\n".join(para_text(p) for i in c for p in ([i[1]] if i[0] == "p" else [q for rr in i[1] for cc in rr for q in cc]))
                      for c in r] for r in b[1]])
        for r in b[1]:
            for c in r:
                for i in c:
                    if i[0] == "t":
                        out.append([["\n".join(para_text(p) for p in cc) for cc in rr] for rr in i[1]])
    return out


ALPHA = ["a", "b", "Z", "7", " ", "  ", "\u00e9", "\u4e2d", "&", "<", ">", '"', "'", "\u00a0", "-", "x y", "\U0001f600"]


def rtext(rng, lo=0, hi=4, alpha=ALPHA):
    return "".join(rng.choice(alpha) for _ in range(rng.randint(lo, hi)))


def rpara(rng):
    return [rtext(rng, 0, 3) for _ in range(rng.choice([0, 1, 1, 1, 2, 3]))]


def rfcell(rng):
    return [rpara(rng) for _ in range(rng.choice([1, 1, 1, 2, 3]))]


def rfgrid(rng, maxr=4, maxc=4, ragged=False):
    r, c = rng.randint(1, maxr), rng.randint(1, maxc)
    return [[rfcell(rng) for _ in range(c if not ragged else rng.randint(1, maxc))] for _ in range(r)]


def force_empties(g, rng, empty):
    """empty cells in the first, a middle and the last column, and (sometimes) an empty first / last row"""
    for r in g:
        if r:
            for j in {0, len(r) // 2, len(r) - 1}:
                if rng.random() < 0.5:
                    r[j] = empty()
    if rng.random() < 0.5:
        g[0] = [empty() for _ in g[0]]
    if rng.random() < 0.5:
        g[-1] = [empty() for _ in g[-1]]
    return g


# grids with empty cells in every border position, an empty first row and an empty last row
EDGE_GRIDS = [
    [["", "b", "c"], ["d", "", "f"], ["g", "h", ""], ["j", "k", "l"]],
    [["", "", ""], ["a", "", "c"], ["", "e", ""], ["", "", ""]],
    [["", "x"], ["", ""], ["y", ""]],
    [[""]],
]


def rdoc(rng, nested: bool, ragged=False):
    d = []
    for _ in range(rng.randint(1, 4)):
        if rng.random() < 0.35:
            d.append(("p", rpara(rng)))
        else:
            fg = rfgrid(rng, ragged=ragged)
            if rng.random() < 0.6:
                force_empties(fg, rng, lambda: [[]] if rng.random() < 0.7 else [[""]])
            g = [[[("p", p) for p in c] for c in r] for r in fg]
            if nested:
                r = rng.choice(g)
                c = rng.choice(r)
                c.insert(rng.randint(0, len(c)), ("t", rfgrid(rng, 2, 2)))
            d.append(("t", g))
    if not any(b[0] == "t" for b in d):
        d.append(("t", [[[("p", ["k"])]]]))
    return d


# ----------------------------------------------------------------------------- DOCX
CT = ('<?xml version="1.0"?><Types xmlns="http://schemas.openxmlformats.org/package/2006/content-types">'
      '<Default Extension="xml" ContentType="application/xml"/><Default Extension="rels" '
      'ContentType="application/vnd.openxmlformats-package.relationships+xml"/></Types>')


def rels(target, typ="officeDocument"):
    return ('<?xml version="1.0"?><Relationships xmlns="http://schemas.openxmlformats.org/package/2006/relationships">'
            f'<Relationship Id="rId1" Type="http://schemas.openxmlformats.org/officeDocument/2006/relationships/{typ}" '
            f'Target="{target}"/></Relationships>')


def E(tag, children=None, text="", attrs=None, tail=""):
    return Nd(tag, children, text, attrs, tail)


def docx_r_para(p):
    return E("w:p", [E("w:r", [E("w:t", text=t)]) for t in p])


def docx_r_ftable(g):
    return E("w:tbl", [E("w:tr", [E("w:tc", [docx_r_para(p) for p in c]) for c in r]) for r in g])


def docx_r_body(d):
    def citem(i):
        return docx_r_para(i[1]) if i[0] == "p" else docx_r_ftable(i[1])
    def block(b):
        if b[0] == "p":
            return docx_r_para(b[1])
        return E("w:tbl", [E("w:tr", [E("w:tc", [citem(i) for i in c]) for c in r]) for r in b[1]])
    return E("w:body", [block(b) for b in d])


def docx_file(body: Nd) -> bytes:
    doc = f'<?xml version="1.0" encoding="UTF-8"?><w:document{xmlns_decl()}>{nd_xml(body)}</w:document>'
    return zipbytes({"[Content_Types].xml": CT, "_rels/.rels": rels("word/document.xml"), "word/document.xml": doc})


def tables_of(content):
    ts = list(content.iterate_tables())
    return [t.get_table() for t in ts], [(t.get_dim().rows, t.get_dim().columns) for t in ts]


LAST = {}


def docx_anchor_check(ctx, B, tree, tabs, d=None):
    """the anchor list is parallel to the table list: same length, never negative, never decreasing; for a structured
    document a table's anchor is max(0, paragraphs before it - 1) and nested tables share their parent's anchor"""
    anchors = LAST.get("docx_anchors", [])
    B["docxanchor"].add(f"({coq_nd(tree)}, {coq_tables(tabs)}, {coq_list([coq_Z(a) for a in anchors])})", ("docxanchor", len(tabs)))
    bad = None
    if len(anchors) != len(tabs):
        bad = f"{len(tabs)} tables but {len(anchors)} anchor indices"
    elif any(a < 0 for a in anchors) or any(a > b for a, b in zip(anchors, anchors[1:])):
        bad = f"anchor indices {anchors} are negative or decrease"
    elif d is not None:
        want, seen = [], 0
        for b in d:
            if b[0] == "p":
                seen += 1
            else:
                nested = sum(1 for r in b[1] for c in r for it in c if it[0] == "t")
                want += [max(0, seen - 1)] * (1 + nested)
        if anchors != want:
            bad = f"anchor indices {anchors}, expected {want} (paragraph blocks before each table - 1)"
    if bad:
        ctx.finding("docx-table-anchor-indices-misaligned", "DOCX: table_anchor_paragraph_indices: " + bad,
                    {"format": "docx", "tables": tabs, "anchors": anchors, "doc": d})


def docx_run(data: bytes):
    from sharepoint2text.parsing.extractors.ms_modern.docx_extractor import read_docx
    c = next(iter(read_docx(io.BytesIO(data))))
    LAST["docx_anchors"] = list(getattr(c, "table_anchor_paragraph_indices", []))
    with zipfile.ZipFile(io.BytesIO(data)) as z:
        root = ET.fromstring(z.read("word/document.xml"))
    body = root.find("{%s}body" % NSMAP["w"])
    tabs, dims = tables_of(c)
    return nd_from_et(body), tabs, dims


def docx_extra_tree(rng):
    """trees outside the render grammar: deeper nesting, sdt wrappers, stray elements, tblPr/tcPr, text in ins/hyperlink."""
    def para(depth=0):
        kids = []
        for _ in range(rng.randint(0, 3)):
            k = rng.random()
            run = E("w:r", [E("w:rPr", [E("w:b")]), E("w:t", text=rtext(rng, 0, 3))] if rng.random() < 0.3 else [E("w:t", text=rtext(rng, 0, 3))])
            if k < 0.6:
                kids.append(run)
            elif k < 0.75:
                kids.append(E("w:hyperlink", [run]))
            elif k < 0.9:
                kids.append(E("w:ins", [run]))
            else:
                kids.append(E("w:r", [E("w:tab"), E("w:t", text=rtext(rng, 1, 2)), E("w:br")]))
        return E("w:p", kids)

    def table(depth):
        rows = []
        for _ in range(rng.randint(0, 3)):
            cells = []
            for _ in range(rng.randint(0, 3)):
                kids = [E("w:tcPr", [E("w:tcW")])] if rng.random() < 0.3 else []
                for _ in range(rng.randint(0, 2)):
                    kids.append(para())
                if depth < 2 and rng.random() < 0.35:
                    kids.append(table(depth + 1))
                    kids.append(para())
                if rng.random() < 0.15:
                    kids.append(E("w:sdt", [E("w:sdtContent", [para()])]))
                cells.append(E("w:tc", kids))
            row = E("w:tr", ([E("w:trPr")] if rng.random() < 0.2 else []) + cells)
            rows.append(E("w:sdt", [E("w:sdtContent", [row])]) if rng.random() < 0.1 else row)
        return E("w:tbl", [E("w:tblPr"), E("w:tblGrid")] + rows)

    kids = []
    for _ in range(rng.randint(1, 4)):
        k = rng.random()
        if k < 0.3:
            kids.append(para())
        elif k < 0.85:
            kids.append(table(0))
        else:
            kids.append(E("w:sdt", [E("w:sdtContent", [table(1)])]))
    kids.append(E("w:sectPr"))
    return E("w:body", kids)


# ----------------------------------------------------------------------------- ODF (odt / odp / ods)
ODF_MANIFEST = ('<?xml version="1.0"?><manifest:manifest xmlns:manifest="urn:oasis:names:tc:opendocument:xmlns:manifest:1.0">'
                '<manifest:file-entry manifest:full-path="/" manifest:media-type="application/vnd.oasis.opendocument.text"/>'
                '<manifest:file-entry manifest:full-path="content.xml" manifest:media-type="text/xml"/></manifest:manifest>')


def odf_file(body_inner: str, kind: str) -> bytes:
    content = (f'<?xml version="1.0" encoding="UTF-8"?><office:document-content{xmlns_decl()}><office:body>'
               f'{body_inner}</office:body></office:document-content>')
    return zipbytes({"mimetype": "application/vnd.oasis.opendocument." + kind, "META-INF/manifest.xml": ODF_MANIFEST,
                     "content.xml": content})


def odf_r_para(p):
    if not p:
        return E("text:p")
    return E("text:p", [E("text:span", text=t) for t in p[1:]], text=p[0])


def odf_r_ftable(g):
    return E("table:table", [E("table:table-row", [E("table:table-cell", [odf_r_para(p) for p in c]) for c in r]) for r in g])


def odt_r_body(d):
    def citem(i):
        return odf_r_para(i[1]) if i[0] == "p" else odf_r_ftable(i[1])
    def block(b):
        if b[0] == "p":
            return odf_r_para(b[1])
        return E("table:table", [E("table:table-row", [E("table:table-cell", [citem(i) for i in c]) for c in r]) for r in b[1]])
    return E("office:text", [block(b) for b in d])


def content_root(data: bytes):
    with zipfile.ZipFile(io.BytesIO(data)) as z:
        return ET.fromstring(z.read("content.xml"))


def int_table(nd: Nd, names) -> dict:
    """record int() of every attribute value the model may hand to the int oracle"""
    out = {}
    def go(n):
        for k, v in n.attrs:
            if k in names:
                out[v] = py_int(v)
        for c in n.children:
            go(c)
    go(nd)
    out.setdefault("1", 1)
    return out


def py_int(v):
    try:
        return int(v)
    except ValueError:
        return None


def coq_int_table(t: dict) -> str:
    return coq_list([f"({coq_str(k)}, {coq_opt(v, coq_Z)})" for k, v in t.items()])


def odt_run(data: bytes):
    from sharepoint2text.parsing.extractors.open_office.odt_extractor import read_odt
    c = next(iter(read_odt(io.BytesIO(data))))
    body = content_root(data).find(".//{%s}body/{%s}text" % (NSMAP["office"], NSMAP["office"]))
    tabs, dims = tables_of(c)
    return nd_from_et(body), tabs, dims


def odf_extra_para(rng):
    kids = []
    for _ in range(rng.randint(0, 3)):
        k = rng.random()
        if k < 0.4:
            kids.append(E("text:span", text=rtext(rng, 0, 3), tail=rtext(rng, 0, 2)))
        elif k < 0.55:
            kids.append(E("text:s", attrs=[("text:c", rng.choice(["2", "3", "0", "x", "-1", " 2 "]))] if rng.random() < 0.7 else [], tail=rtext(rng, 0, 2)))
        elif k < 0.7:
            kids.append(E("text:tab", tail=rtext(rng, 0, 1)))
        elif k < 0.85:
            kids.append(E("text:line-break", tail=rtext(rng, 0, 1)))
        else:
            kids.append(E("office:annotation", [E("dc:creator", text="me"), E("text:p", text="note")], tail=rtext(rng, 0, 1)))
    return E("text:p", kids, text=rtext(rng, 0, 3))


def odt_extra_tree(rng):
    def table(depth):
        rows = []
        for _ in range(rng.randint(0, 3)):
            cells = []
            for _ in range(rng.randint(0, 3)):
                kids = [odf_extra_para(rng) for _ in range(rng.randint(0, 2))]
                if depth < 1 and rng.random() < 0.3:
                    kids.append(table(depth + 1))
                cells.append(E("table:table-cell", kids))
            if rng.random() < 0.15:
                cells.append(E("table:covered-table-cell"))
            rows.append(E("table:table-row", cells))
        if rows and rng.random() < 0.3:
            rows = [E("table:table-header-rows", rows[:1])] + rows[1:]
        return E("table:table", [E("table:table-column")] + rows)
    kids = []
    for _ in range(rng.randint(1, 4)):
        if rng.random() < 0.3:
            kids.append(odf_extra_para(rng))
        elif rng.random() < 0.85:
            kids.append(table(0))
        else:
            kids.append(E("text:section", [table(0)]))
    return E("office:text", kids)


# --- ODP
def odp_file(tables: list[Nd], positions=None) -> bytes:
    frames = ""
    for i, t in enumerate(tables):
        y = positions[i] if positions else i
        frames += f'<draw:frame svg:x="1cm" svg:y="{y}cm" svg:width="5cm" svg:height="2cm">{nd_xml(t)}</draw:frame>'
    return odf_file(f'<office:presentation><draw:page draw:name="s1">{frames}</draw:page></office:presentation>', "presentation")


def odp_run(data: bytes):
    from sharepoint2text.parsing.extractors.open_office.odp_extractor import read_odp
    c = next(iter(read_odp(io.BytesIO(data))))
    root = content_root(data)
    tbls = [nd_from_et(f.find("{%s}table" % NSMAP["table"])) for f in root.iter("{%s}frame" % NSMAP["draw"])]
    tabs, dims = tables_of(c)
    return tbls, tabs, dims


# --- ODS
def py_fres(v: str):
    try:
        f = float(v)
    except ValueError:
        return ("FValErr",)
    try:
        i = int(f)
    except ValueError:
        return ("FValErr",)
    except OverflowError:
        return ("FOvf",)
    if f == i:
        return ("FInt", i)
    return ("FFlt", repr(f))


def coq_fres(r):
    if r[0] == "FInt":
        return f"(FInt {coq_Z(r[1])})"
    if r[0] == "FFlt":
        return f"(FFlt {coq_str(r[1])})"
    return r[0]


def flt_table(nd: Nd) -> dict:
    out = {}
    def go(n):
        for k, v in n.attrs:
            if k == "office:value":
                out[v] = py_fres(v)
        for c in n.children:
            go(c)
    go(nd)
    return out


def coq_flt_table(t):
    return coq_list([f"({coq_str(k)}, {coq_fres(v)})" for k, v in t.items()])


# ocell = ("E",) | ("S", [paras]) | ("N", attr) | ("D", iso) | ("T", v) | ("B", bool)
def coq_ocell(c):
    k = c[0]
    if k == "E":
        return "OEmpty"
    if k == "S":
        return f"(OStr {coq_list([coq_str(p) for p in c[1]])})"
    if k == "N":
        return f"(ONum {coq_str(c[1])})"
    if k == "D":
        return f"(ODate {coq_str(c[1])})"
    if k == "T":
        return f"(OTime {coq_str(c[1])})"
    return f"(OBool {coq_bool(c[1])})"


def ocell_spec(c):
    k = c[0]
    if k == "E":
        return None
    if k == "S":
        t = "\n".join(c[1])
        return t if t else None
    if k == "N":
        if not c[1]:
            return None
        r = py_fres(c[1])
        # not a number, NaN or +-infinity: the attribute text is kept
        return r[1] if r[0] == "FInt" else (float(c[1]) if r[0] == "FFlt" else c[1])
    if k in "DT":
        return c[1] or None
    return c[1]


def ocell_eq(a, b):
    if a[0] != b[0]:
        return False
    if a[0] == "S":
        return len(a[1]) == len(b[1]) and "\0".join(a[1]) == "\0".join(b[1])
    return a[1:] == b[1:]


def ods_r_cell(c, n):
    attrs = [] if n == 1 else [("table:number-columns-repeated", str(n))]
    k = c[0]
    kids = []
    if k == "S":
        attrs += [("office:value-type", "string")]
        kids = [E("text:p", text=t) for t in c[1]]
    elif k == "N":
        attrs += [("office:value-type", "float"), ("office:value", c[1])]
    elif k == "D":
        attrs += [("office:value-type", "date"), ("office:date-value", c[1])]
    elif k == "T":
        attrs += [("office:value-type", "time"), ("office:time-value", c[1])]
    elif k == "B":
        attrs += [("office:value-type", "boolean"), ("office:boolean-value", "true" if c[1] else "false")]
    return E("table:table-cell", kids, attrs=attrs)


def rle(row):
    out = []
    for c in reversed(row):
        if out and ocell_eq(c, out[0][0]):
            out[0] = (out[0][0], out[0][1] + 1)
        else:
            out.insert(0, (c, 1))
    return out


def ods_r_sheet(g, rle_mode):
    rows = []
    for r in g:
        cells = [ods_r_cell(c, n) for c, n in rle(r)] if rle_mode else [ods_r_cell(c, 1) for c in r]
        rows.append(E("table:table-row", cells))
    return E("table:table", rows)


def ods_file(sheets: list[Nd]) -> bytes:
    return odf_file("<office:spreadsheet>" + "".join(nd_xml(s) for s in sheets) + "</office:spreadsheet>", "spreadsheet")


def ods_run(data: bytes):
    """-> (list of table trees, list of sheet data or None if the extractor raised)"""
    from sharepoint2text.parsing.extractors.open_office.ods_extractor import read_ods
    root = content_root(data)
    tbls = [nd_from_et(t) for t in root.find(".//{%s}spreadsheet" % NSMAP["office"]).findall("{%s}table" % NSMAP["table"])]
    try:
        c = next(iter(read_ods(io.BytesIO(data))))
    except Exception as e:  # noqa
        return tbls, None, None, type(e).__name__ + ": " + str(getattr(e, "__cause__", "") or e)[:80]
    tabs, dims = tables_of(c)
    return tbls, tabs, dims, None


def rocell(rng, empty_p=0.3):
    k = rng.random()
    if k < empty_p:
        return ("E",)
    if k < 0.55:
        return ("S", [rtext(rng, 0, 3) for _ in range(rng.choice([1, 1, 1, 2]))])
    if k < 0.8:
        return ("N", rng.choice(["1", "0", "-3", "2.5", "1e3", "1E+20", "5e3", "1E+020", "2.5e-1", "0.1", "007", "1_0", "abc", "nan", "1e400", "-inf", " 4 ", "",
                                 "12345678901234567890", "3.0", "-0.0"]))
    if k < 0.87:
        return ("D", rng.choice(["2024-01-02", "2024-01-02T03:04:05", ""]))
    if k < 0.93:
        return ("T", rng.choice(["PT12H30M00S", "PT0S"]))
    return ("B", rng.random() < 0.5)


def rogrid(rng, wide=False):
    r = rng.randint(1, 4)
    c = rng.randint(1, 5)
    g = []
    for _ in range(r):
        row = []
        while len(row) < c:
            cell = rocell(rng)
            run = rng.choice([1, 1, 1, 2, 3])
            row += [cell] * run
        g.append(row[:c])
    if wide:
        # a long run of equal cells in one row (the widths around the implementation's 100-cap)
        n = rng.choice([99, 100, 101, 102, 150])
        cell = rng.choice([("E",), ("E",), ("S", ["q"]), ("N", "5")])
        i = rng.randrange(len(g))
        pos = rng.randint(0, len(g[i]))
        g[i] = g[i][:pos] + [cell] * n + g[i][pos:]
        w = max(len(x) for x in g)
        g = [x + [("S", ["z"])] * (w - len(x)) for x in g]
    return g


def val_canon(v):
    """implementation value -> comparable python tuple"""
    if v is None:
        return ("VNone",)
    if isinstance(v, bool):
        return ("VBool", v)
    if isinstance(v, int):
        return ("VInt", v)
    if isinstance(v, float):
        return ("VFlt", repr(v))
    if isinstance(v, str):
        return ("VStr", v)
    return ("VOther", type(v).__name__ + ":" + repr(v))


def coq_val(v):
    c = val_canon(v)
    if c[0] == "VNone":
        return "VNone"
    if c[0] == "VBool":
        return f"(VBool {coq_bool(c[1])})"
    if c[0] == "VInt":
        return f"(VInt {coq_Z(c[1])})"
    return f"({c[0]} {coq_str(c[1])})"


def coq_vgrid(g):
    return coq_list([coq_list([coq_val(v) for v in r]) for r in g])


# ----------------------------------------------------------------------------- PPTX
def pptx_r_frame(g):
    def para(p):
        return E("a:p", [E("a:r", [E("a:t", text=t)]) for t in p])
    tbl = E("a:tbl", [E("a:tr", [E("a:tc", [E("a:txBody", [para(p) for p in c])]) for c in r]) for r in g])
    return E("p:graphicFrame", [E("a:graphic", [E("a:graphicData", [tbl], attrs=[("uri", TABLE_URI)])])])


def pptx_file(frames: list[Nd], positions=None) -> bytes:
    shapes = ""
    for i, f in enumerate(frames):
        y = positions[i] if positions else (i + 1) * 1000
        # position element inside the frame, as PowerPoint writes it (p:xfrm/a:off)
        x = nd_xml(f).replace("<p:graphicFrame>", f'<p:graphicFrame><p:xfrm><a:off x="0" y="{y}"/></p:xfrm>', 1)
        shapes += x
    slide = (f'<?xml version="1.0" encoding="UTF-8"?><p:sld{xmlns_decl()}><p:cSld><p:spTree>{shapes}</p:spTree></p:cSld></p:sld>')
    pres = (f'<?xml version="1.0" encoding="UTF-8"?><p:presentation{xmlns_decl()}><p:sldIdLst><p:sldId id="256" r:id="rId1"/>'
            f'</p:sldIdLst></p:presentation>')
    return zipbytes({"[Content_Types].xml": CT, "_rels/.rels": rels("ppt/presentation.xml"),
                     "ppt/presentation.xml": pres, "ppt/_rels/presentation.xml.rels": rels("slides/slide1.xml", "slide"),
                     "ppt/slides/slide1.xml": slide})


def pptx_run(data: bytes):
    from sharepoint2text.parsing.extractors.ms_modern.pptx_extractor import read_pptx
    c = next(iter(read_pptx(io.BytesIO(data))))
    with zipfile.ZipFile(io.BytesIO(data)) as z:
        root = ET.fromstring(z.read("ppt/slides/slide1.xml"))
    frames = []
    for f in root.iter("{%s}graphicFrame" % NSMAP["p"]):
        nd = nd_from_et(f)
        nd.children = [k for k in nd.children if k.tag != "p:xfrm"]
        nd.tail = ""
        frames.append(nd)
    tabs, dims = tables_of(c)
    return frames, tabs, dims


# ----------------------------------------------------------------------------- HTML / EPUB
# hitem = ("x", t0, [(tag, text, tail)...]) | ("ps", [paras]) | ("n", [[str]])
INLINE = ["b", "i", "span", "a", "em", "code"]
HALPHA = ["a", "b", "Q", "9", " ", "  ", "\n", "\t", "\u00e9", "&", "<", ">", "\u00a0", "\u2003", "x y", "\u4e2d"]


def hitem_src_text(c):
    if c[0] == "x":
        return c[1] + "".join(t + u for _, t, u in c[2])
    if c[0] == "ps":
        return " ".join(c[1])
    return ""


def py_norm(x: str) -> str:
    return re.sub(r"\s+", " ", x.strip())


def html_r_cell(w, c):
    if c[0] == "x":
        return E("td", [E(tg, text=t, tail=u) for tg, t, u in c[2]], text=c[1], tail=w)
    if c[0] == "ps":
        return E("td", [E("p", text=t) for t in c[1]], tail=w)
    inner = E("table", [E("tr", [E("td", text=t, tail=w) for t in r], text=w, tail=w) for r in c[1]], text=w)
    return E("td", [inner], tail=w)


def html_r_root(w, d):
    def block(b):
        if b[0] == "p":
            return E("p", text=b[1], tail=w)
        return E("table", [E("tr", [html_r_cell(w, c) for c in r], text=w, tail=w) for r in b[1]], text=w, tail=w)
    return E("root", [E("html", [E("body", [block(b) for b in d])])])


def html_src(nd: Nd) -> str:
    """serialise the html > body subtree of a rendered root"""
    def go(n):
        inner = htmlmod.escape(n.text, quote=False) + "".join(go(c) for c in n.children)
        if not inner and n.tag in ("td", "th") and _selfclose_now():
            return f"<{n.tag}/>" + htmlmod.escape(n.tail, quote=False)       # XHTML-style empty cell
        return f"<{n.tag}>" + inner + f"</{n.tag}>" + htmlmod.escape(n.tail, quote=False)
    return go(nd.children[0])


def coq_hitem(c):
    if c[0] == "x":
        return f"(HText {coq_str(c[1])} {coq_list(['(' + coq_str(a) + ', ' + coq_str(b) + ', ' + coq_str(u) + ')' for a, b, u in c[2]])})"
    if c[0] == "ps":
        return f"(HParas {coq_list([coq_str(p) for p in c[1]])})"
    return f"(HNested {coq_sgrid(c[1])})"


def coq_hdoc(d):
    return coq_list([f"(HBPara {coq_str(b[1])})" if b[0] == "p" else
                     "(HBTable " + coq_list([coq_list([coq_hitem(c) for c in r]) for r in b[1]]) + ")" for b in d])


def html_spec(d):
    return [[[py_norm(hitem_src_text(c)) for c in r] for r in b[1]] for b in d if b[0] == "t"]


def rhitem(rng, kind):
    if kind == "nested" and rng.random() < 0.3:
        return ("n", [[rtext(rng, 1, 2, "abc") for _ in range(rng.randint(1, 2))] for _ in range(rng.randint(1, 2))])
    if kind == "paras" and rng.random() < 0.3:
        return ("ps", [rtext(rng, 1, 3, "abcde") for _ in range(rng.randint(2, 3))])
    return ("x", rtext(rng, 0, 4, HALPHA), [(rng.choice(INLINE), rtext(rng, 0, 3, HALPHA), rtext(rng, 0, 3, HALPHA))
                                             for _ in range(rng.choice([0, 0, 1, 2]))])


def rhdoc(rng, kind):
    d = []
    for _ in range(rng.randint(1, 4)):
        if rng.random() < 0.3:
            d.append(("p", rtext(rng, 0, 4, HALPHA)))
        else:
            r, c = rng.randint(1, 4), rng.randint(1, 4)
            d.append(("t", [[rhitem(rng, kind) for _ in range(c if rng.random() < 0.8 else rng.randint(1, 4))] for _ in range(r)]))
    if not any(b[0] == "t" for b in d):
        d.append(("t", [[("x", "k", [])]]))
    return d


def html_run(src: str):
    from sharepoint2text.parsing.extractors import html_extractor as H
    c = next(iter(H.read_html(io.BytesIO(src.encode("utf-8")))))
    tb = H._HtmlTreeBuilder()
    tb.feed(src)
    tabs, dims = tables_of(c)
    return nd_from_htmltree(tb.get_tree()), tabs, dims


def html_extra_src(rng):
    """html outside the render grammar: th/thead/tbody, nested tables, tables in lists/headings/divs,
    script/style inside cells, stray text, unclosed inline tags."""
    def cell(depth):
        tg = rng.choice(["td", "td", "th"])
        inner = htmlmod.escape(rtext(rng, 0, 3, HALPHA), quote=False)
        k = rng.random()
        if k < 0.2 and depth < 2:
            inner += table(depth + 1)
        elif k < 0.3:
            inner += "<script>var x = '<td>no</td>';</script>" + rtext(rng, 0, 2, "ab")
        elif k < 0.4:
            inner += "<p>" + rtext(rng, 1, 2, "ab") + "</p><p>" + rtext(rng, 1, 2, "ab") + "</p>"
        elif k < 0.5:
            inner += "<br>" + rtext(rng, 0, 2, "ab") + "<img src='x'>"
        elif k < 0.55:
            inner += "<b>" + rtext(rng, 1, 2, "ab")
        elif k < 0.62:
            inner += "<noscript><img src='x'><b>no</b></noscript>" + rtext(rng, 0, 2, "ab")
        elif k < 0.68:
            inner += "<embed src='x'>" + rtext(rng, 0, 2, "ab")
        elif k < 0.72:
            inner += "<object><object>in</object>still</object>" + rtext(rng, 0, 2, "ab")
        return f"<{tg}>{inner}</{tg}>"

    def table(depth):
        rows = ["<tr>" + "".join(cell(depth) for _ in range(rng.randint(0, 3))) + "</tr>" + rng.choice(["", "\n", " x "])
                for _ in range(rng.randint(0, 3))]
        k = rng.random()
        if k < 0.3 and rows:
            body = "<thead>" + rows[0] + "</thead><tbody>" + "".join(rows[1:]) + "</tbody>"
        else:
            body = "".join(rows)
        return "<table>" + rng.choice(["", "<caption>cap</caption>"]) + body + "</table>"

    parts = []
    for _ in range(rng.randint(1, 4)):
        k = rng.random()
        if k < 0.4:
            parts.append(table(0))
        elif k < 0.55:
            parts.append("<div>" + table(0) + "</div>")
        elif k < 0.7:
            parts.append("<ul><li>" + rtext(rng, 0, 2, "ab") + table(0) + "</li></ul>")
        elif k < 0.8:
            parts.append("<h2>" + table(0) + "</h2>")
        else:
            parts.append("<p>" + htmlmod.escape(rtext(rng, 0, 3, HALPHA), quote=False) + "</p>")
    head = rng.choice(["<html><body>", "<html><head><title>t</title></head><body>", "", "<body>"])
    return head + "".join(parts) + ("</body></html>" if head.startswith("<html>") else "")


class _Rec(HTMLParser):
    def __init__(self):
        super().__init__(convert_charrefs=True)
        self.ev = []

    def handle_starttag(self, tag, attrs):
        self.ev.append(("S", tag.lower()))

    def handle_endtag(self, tag):
        self.ev.append(("E", tag.lower()))

    def handle_data(self, data):
        self.ev.append(("D", data))


def coq_events(ev):
    return coq_list([{"S": "EvStart", "E": "EvEnd", "D": "EvData"}[k] + " " + coq_str(v) for k, v in ev])


def epub_file(chapters: list[str]) -> bytes:
    container = ('<?xml version="1.0"?><container version="1.0" xmlns="urn:oasis:names:tc:opendocument:xmlns:container">'
                 '<rootfiles><rootfile full-path="OEBPS/content.opf" media-type="application/oebps-package+xml"/></rootfiles></container>')
    items = "".join(f'<item id="c{i}" href="c{i}.xhtml" media-type="application/xhtml+xml"/>' for i in range(len(chapters)))
    spine = "".join(f'<itemref idref="c{i}"/>' for i in range(len(chapters)))
    opf = ('<?xml version="1.0"?><package xmlns="http://www.idpf.org/2007/opf" version="3.0" unique-identifier="id">'
           '<metadata xmlns:dc="http://purl.org/dc/elements/1.1/"><dc:title>t</dc:title><dc:identifier id="id">x</dc:identifier>'
           f'<dc:language>en</dc:language></metadata><manifest>{items}</manifest><spine>{spine}</spine></package>')
    files = {"mimetype": "application/epub+zip", "META-INF/container.xml": container, "OEBPS/content.opf": opf}
    for i, c in enumerate(chapters):
        files[f"OEBPS/c{i}.xhtml"] = c
    return zipbytes(files)


def epub_run(chapters: list[str]):
    from sharepoint2text.parsing.extractors.epub_extractor import read_epub
    c = next(iter(read_epub(io.BytesIO(epub_file(chapters)))))
    evs = []
    for ch in chapters:
        r = _Rec()
        r.feed(ch)
        evs += r.ev
    tabs, dims = tables_of(c)
    return evs, tabs, dims


def xhtml(body: str) -> str:
    return ('<?xml version="1.0" encoding="utf-8"?><html xmlns="http://www.w3.org/1999/xhtml"><head><title>ch</title></head>'
            f'<body>{body}</body></html>')


# ----------------------------------------------------------------------------- XLSX / XLS
def coq_xcell(v):
    # the JSON-safe string the extractor substitutes: ISO for dates/times, str() for durations
    conv = (v.isoformat() if isinstance(v, (datetime.datetime, datetime.date, datetime.time))
            else str(v) if isinstance(v, datetime.timedelta) else None)
    return f"{{| xc_val := {coq_val(v)}; xc_str := {coq_str(str(v))}; xc_conv := {coq_opt(conv, coq_str)} |}}"


XVALS = ["a", "b", "", " ", "Unnamed: 3", "x y", 1, 0, -7, 2.5, 1.0, 1e20, True, False,
         datetime.datetime(2024, 1, 2, 3, 4, 5), datetime.datetime(2024, 1, 2), datetime.date(2023, 12, 31),
         datetime.time(12, 30), datetime.timedelta(hours=1, minutes=2), "#DIV/0!", "\u00a0", "Total",
         # wall-clock values that do not exist / are ambiguous in zones with daylight saving, and a fractional second
         datetime.datetime(2024, 3, 31, 2, 30), datetime.datetime(2024, 3, 10, 2, 15), datetime.datetime(2024, 10, 27, 2, 30),
         datetime.datetime(2024, 11, 3, 1, 30), datetime.datetime(2024, 6, 1, 11, 59, 59, 991000), datetime.time(23, 59, 59, 500000)]


def rxgrid(rng, mode):
    r, c = rng.randint(1, 5), rng.randint(1, 5)
    g = [[(None if rng.random() < 0.25 else rng.choice(XVALS)) for _ in range(c)] for _ in range(r)]
    if mode == "clean":
        g[0] = [rng.choice(["h", "name", "A b", "x", "h"]) + (str(i) if rng.random() < 0.7 else "") for i in range(c)]
        g[-1][rng.randrange(c)] = 5
        g[rng.randrange(r)][c - 1] = "e" if r > 1 else g[0][c - 1]
    return g


def xlsx_expected(g):
    """the grid as the property states it: every cell's value; dates as ISO strings; trailing empty rows/cols not part of the table"""
    def conv(v):
        if isinstance(v, (datetime.datetime, datetime.date, datetime.time)):
            return v.isoformat()
        if isinstance(v, datetime.timedelta):
            return str(v)       # duration cells: their string form, e.g. '1:02:00'
        return v
    def empty(v):
        return v is None or (isinstance(v, str) and v.strip() == "")
    rows = [list(r) for r in g]
    while rows and all(empty(v) for v in rows[-1]):
        rows.pop()
    if not rows:
        return []
    w = max((max((i + 1 for i, v in enumerate(r) if not empty(v)), default=0) for r in rows), default=0)
    return [[conv(v) for v in r[:w]] for r in rows]


def xlsx_run(grids):
    import openpyxl
    from sharepoint2text.parsing.extractors.ms_modern.xlsx_extractor import read_xlsx
    wb = openpyxl.Workbook()
    wb.remove(wb.active)
    for i, g in enumerate(grids):
        ws = wb.create_sheet(f"S{i}")
        for ri, row in enumerate(g, 1):
            for ci, v in enumerate(row, 1):
                if v is not None:
                    ws.cell(row=ri, column=ci, value=v)
    b = io.BytesIO()
    wb.save(b)
    data = b.getvalue()
    c = next(iter(read_xlsx(io.BytesIO(data))))
    wb2 = openpyxl.load_workbook(io.BytesIO(data), read_only=True, data_only=True)
    seen = [[list(r) for r in wb2[name].iter_rows(values_only=True)] for name in wb2.sheetnames]
    wb2.close()
    tabs, dims = tables_of(c)
    return seen, tabs, dims


class _FakeSheet:
    def __init__(self, name, grid):
        self.name, self.grid = name, grid
        self.nrows = len(grid)
        self.ncols = max((len(r) for r in grid), default=0)

    def cell(self, r, c):
        return self.grid[r][c]


class _FakeBook:
    def __init__(self, sheets, datemode=0):
        self._s = sheets
        self.datemode = datemode      # 0 = 1900 date system, 1 = 1904 (xlrd Book.datemode)

    def sheets(self):
        return self._s


def xls_cells(rng):
    import xlrd
    from xlrd.sheet import Cell
    k = rng.random()
    if k < 0.2:
        return Cell(xlrd.XL_CELL_EMPTY, "")
    if k < 0.5:
        return Cell(xlrd.XL_CELL_TEXT, rng.choice(["a", "b", "a", "", "x y", "h1", "h2", "Total"]))
    if k < 0.75:
        return Cell(xlrd.XL_CELL_NUMBER, rng.choice([1.0, 2.5, 0.0, -3.0, 1e20, 7.0]))
    if k < 0.85:
        return Cell(xlrd.XL_CELL_DATE, rng.choice([45000.0, 45000.5, 0.25, 45000.0, 36526.0, 1.0, 60.0, 61.0, 0.0]))
    if k < 0.95:
        return Cell(xlrd.XL_CELL_BOOLEAN, rng.choice([0, 1]))
    return Cell(xlrd.XL_CELL_ERROR, 7)


def xls_expected_cell(c, datemode):
    """(native value, header text) of a cell as the property states it, computed from xlrd alone:
    text and numbers as they are (whole numbers as int), dates as the ISO text of xlrd's calendar for THIS
    workbook's date system, booleans, errors as None / '#ERROR'"""
    import xlrd
    v = c.value
    if c.ctype == xlrd.XL_CELL_EMPTY:
        return None, ""
    if c.ctype == xlrd.XL_CELL_TEXT:
        return v, str(v)
    if c.ctype == xlrd.XL_CELL_NUMBER:
        return (int(v), str(int(v))) if v == int(v) else (v, str(v))
    if c.ctype == xlrd.XL_CELL_DATE:
        try:
            d = xlrd.xldate_as_tuple(v, datemode)
        except Exception:  # noqa
            return v, str(v)
        txt = f"{d[0]:04d}-{d[1]:02d}-{d[2]:02d}" + ("" if d[3:] == (0, 0, 0) else f" {d[3]:02d}:{d[4]:02d}:{d[5]:02d}")
        return txt, txt
    if c.ctype == xlrd.XL_CELL_BOOLEAN:
        return bool(v), ("True" if v else "False")
    if c.ctype == xlrd.XL_CELL_ERROR:
        return None, "#ERROR"
    return v, str(v)


def xls_run(grids, datemode=0):
    """drive the real _read_content with an xlrd Book stand-in (xlrd's BIFF parsing is an oracle).
    -> (per sheet the expected (native, header text) of every cell, tables, dims)"""
    import xlrd
    from sharepoint2text.parsing.extractors.ms_legacy import xls_extractor as X
    book = _FakeBook([_FakeSheet(f"S{i}", g) for i, g in enumerate(grids)], datemode)
    orig = xlrd.open_workbook
    xlrd.open_workbook = lambda *a, **k: book
    try:
        sheets = X._read_content(io.BytesIO(b""))
    finally:
        xlrd.open_workbook = orig
    per = [[[xls_expected_cell(c, datemode) for c in r] for r in g] for g in grids]
    return per, [s.get_table() for s in sheets], [(s.get_dim().rows, s.get_dim().columns) for s in sheets]


# ----------------------------------------------------------------------------- RTF (oracle only)
def rtf_doc(tables, sep, row_sep="\n"):
    def esc(t):
        return t.replace("\\", "\\\\").replace("{", "\\{").replace("}", "\\}")
    out = "{\\rtf1\\ansi\\deff0{\\fonttbl{\\f0 Times;}}\\pard Intro paragraph.\\par\n"
    for i, g in enumerate(tables):
        if i:
            out += sep
        for r in g:
            out += "\\trowd" + "".join(f"\\cellx{(j + 1) * 2000}" for j in range(len(r))) + "\n"
            out += "".join("\\intbl " + esc(c) + "\\cell " for c in r) + "\\row" + row_sep
    return out + "\\pard End.\\par}"


def rtf_run(src: str):
    from sharepoint2text.parsing.extractors.ms_legacy.rtf_extractor import read_rtf
    c = next(iter(read_rtf(io.BytesIO(src.encode("latin-1")))))
    return tables_of(c)


# ----------------------------------------------------------------------------- generated tables (G)
def ws_points():
    return [c for c in range(0x110000) if chr(c).isspace()]


def gen_tables(ctx):
    from sharepoint2text.parsing.extractors import html_extractor as H, epub_extractor as EP
    from sharepoint2text.parsing.extractors.ms_modern import docx_extractor as D, pptx_extractor as P
    from sharepoint2text.parsing.extractors.open_office import ods_extractor as ODS, odt_extractor as ODT, odp_extractor as ODP
    ws = ws_points()
    re_ws = [c for c in range(0x110000) if re.match(r"\s", chr(c))]
    ctx.obligation("whitespace: str.isspace set == regex \\s set (one is_ws oracle serves strip() and _RE_WS)", ws == re_ws,
                   f"{len(ws)} vs {len(re_ws)}")
    tags = [
        ("s \"w:sdt\"", D.W_SDT), ("s \"w:sdtContent\"", D.W_SDT_CONTENT), ("s \"w:customXml\"", D.W_CUSTOM_XML),
        ("W_P", D.W_P), ("W_T", D.W_T), ("W_TBL", D.W_TBL), ("W_TR", D.W_TR), ("W_TC", D.W_TC),
        ("A_GRAPHICDATA", P.A_GRAPHICDATA), ("A_TBL", P.A_TBL), ("A_TR", P.A_TR), ("A_TC", P.A_TC), ("A_TXBODY", P.A_TXBODY),
        ("A_P", P.A_P), ("A_R", P.A_R), ("A_FLD", P.A_FLD), ("A_BR", P.A_BR), ("A_T", P.A_T), ("P_GRAPHICFRAME", P.P_GRAPHICFRAME),
        ("TABLE_URI", P.TABLE_URI), ("P_SP", P.P_SP), ("P_PIC", P.P_PIC), ("P_SPPR", P.P_SPPR), ("A_XFRM", P.A_XFRM), ("P_XFRM", P.P_XFRM),
        ("A_OFF", P.A_OFF), ("P_NVSPPR", P.P_NVSPPR), ("P_NVPR", P.P_NVPR), ("P_PH", P.P_PH), ("P_SPTREE", P.P_SPTREE),
        ("DRAW_FRAME", ODP._DRAW_FRAME_TAG), ("DRAW_G", ODP._DRAW_G_TAG), ("SVG_X", ODP._ATTR_SVG_X), ("SVG_Y", ODP._ATTR_SVG_Y),
        ("TABLE_ROW", ODS._TABLE_ROW_TAG), ("TABLE_ROW", ODP._TABLE_ROW_TAG),
        ("TEXT_P", ODS._TEXT_P_TAG), ("TEXT_S", ODS._TEXT_SPACE_TAG), ("TEXT_TAB", ODS._TEXT_TAB_TAG),
        ("TEXT_LB", ODS._TEXT_LINE_BREAK_TAG), ("OFFICE_ANNOTATION", ODS._OFFICE_ANNOTATION_TAG), ("ATTR_TEXT_C", ODS._ATTR_TEXT_C),
        ("ATTR_REPEAT_ROWS", ODS._ATTR_TABLE_REPEAT_ROWS), ("ATTR_REPEAT_COLS", ODS._ATTR_TABLE_REPEAT_COLS),
        ("ATTR_VALUE_TYPE", ODS._ATTR_OFFICE_VALUE_TYPE), ("ATTR_VALUE", ODS._ATTR_OFFICE_VALUE),
        ("ATTR_DATE_VALUE", ODS._ATTR_OFFICE_DATE_VALUE), ("ATTR_TIME_VALUE", ODS._ATTR_OFFICE_TIME_VALUE),
        ("ATTR_BOOLEAN_VALUE", ODS._ATTR_OFFICE_BOOLEAN_VALUE),
        ("TABLE_TABLE", ODT._TABLE_TABLE_TAG), ("TABLE_ROW", ODT._TABLE_ROW_TAG), ("TABLE_CELL", ODT._TABLE_CELL_TAG),
        ("TEXT_P", ODT._TEXT_P_TAG), ("TEXT_P", ODP._TEXT_P_TAG),
    ]
    txt = "(* GENERATED on every check run from the live interpreter and modules of the repo under test — do not edit. *)\n"
    txt += "From Coq Require Import NArith List Bool.\nFrom S2T Require Import Lib.PyStr C13.Model.\nImport ListNotations.\nOpen Scope N_scope.\n\n"
    txt += "(* code points c with chr(c).isspace() (== those matched by regex \\s) *)\n"
    txt += "Definition py_ws_points : list N := [" + "; ".join(str(c) for c in ws) + "].\n"
    txt += "Definition py_is_ws (c : N) : bool := existsb (N.eqb c) py_ws_points.\n\n"
    txt += "(* (model constant, live module constant in prefix:local form) *)\n"
    txt += "Definition live_tags : list (str * str) := " + coq_list([f"({n}, {coq_str(short(v))})" for n, v in tags]) + ".\n\n"
    txt += "Definition live_remove_tags_html : list str := " + coq_list([coq_str(t) for t in sorted(H.REMOVE_TAGS)]) + ".\n"
    txt += "Definition live_remove_tags_epub : list str := " + coq_list([coq_str(t) for t in sorted(EP.REMOVE_TAGS)]) + ".\n"
    txt += "Definition live_void_remove_tags_epub : list str := " + coq_list([coq_str(x) for x in sorted(getattr(EP, '_VOID_REMOVE_TAGS', set()))]) + ".\n"
    wr = []
    for c in range(0x110000):
        if re.match(r"\w", chr(c)):
            if wr and wr[-1][1] == c - 1:
                wr[-1][1] = c
            else:
                wr.append([c, c])
    txt += "(* code points matched by regex \\w, as inclusive ranges *)\n"
    txt += "Definition py_word_ranges : list (N * N) := [" + "; ".join(f"({a},{b})" for a, b in wr) + "].\n"
    txt += "Definition py_is_word (c : N) : bool := existsb (fun r => (fst r <=? c) && (c <=? snd r)) py_word_ranges.\n"
    from sharepoint2text.parsing.extractors.ms_legacy import rtf_extractor as RTF
    txt += "Definition live_rtf_special_chars : list (str * N) := " + coq_list(
        [f"({coq_str(k)}, {ord(v)})" for k, v in RTF._RtfParser.SPECIAL_CHARS.items()]) + ".\n"
    txt += "Definition live_pptx_title_types : list str := " + coq_list([coq_str(x) for x in sorted(P.TITLE_TYPES)]) + ".\n"
    txt += "Definition live_pptx_body_types : list str := " + coq_list([coq_str(x) for x in sorted(P.BODY_TYPES)]) + ".\n"
    txt += "Definition live_pptx_footer_types : list str := " + coq_list([coq_str(x) for x in sorted(P.FOOTER_TYPES)]) + ".\n"
    txt += "Definition live_ods_row_wrappers : list str := " + coq_list([coq_str(short(x)) for x in sorted(ODS._TABLE_ROW_WRAPPER_TAGS)]) + ".\n"
    txt += "Definition live_odp_row_wrappers : list str := " + coq_list([coq_str(short(x)) for x in sorted(ODP._TABLE_ROW_WRAPPER_TAGS)]) + ".\n"
    txt += "Definition live_ods_skip_tags : list str := " + coq_list([coq_str(short(t)) for t in sorted(ODS._TEXT_SKIP_TAGS)]) + ".\n"
    txt += "Definition live_odt_skip_tags : list str := " + coq_list([coq_str(short(t)) for t in sorted(getattr(ODT, '_TEXT_SKIP_TAGS', set()))]) + ".\n"
    txt += "Definition live_odp_skip_tags : list str := " + coq_list([coq_str(short(t)) for t in sorted(getattr(ODP, '_TEXT_SKIP_TAGS', set()))]) + ".\n"
    ctx.gen_write("Gen/C13Tables.v", txt)


def witnesses(ctx, batch):
    """The closed witnesses of the `_refuted` theorems, rebuilt as real files and run through the
    implementation.  Coq decides that what the implementation read IS the witness and that it
    returned what the model computes; the property oracle turns each into a (known) finding."""
    T3 = "list (list (list str))"
    import xlrd
    from xlrd.sheet import Cell

    def one(name, fn, ty, term, info):
        batch(name, fn, ty).add(term, info)
        ctx.case(info, True, "witness")

    # DOCX docx_d0
    d0 = [("t", [[[("p", ["outer"]), ("t", [[[["inner"]]]])], [("p", ["x"])]]])]
    tree, tabs, _ = docx_run(docx_file(docx_r_body(d0)))
    one("w_docx", "w_docx", f"xml * {T3}", f"({coq_nd(tree)}, {coq_tables(tabs)})", ("w", "docx_d0"))
    if tabs != spec_top(d0):
        ctx.finding("docx-nested-table-flattened-text-duplicated",
                    "DOCX: a table inside a cell is returned as an extra top-level table and its text is repeated in the outer cell",
                    {"format": "docx", "doc": d0, "got": tabs, "want": spec_top(d0)})
    # ODT odt_d0
    o0 = [("t", [[[("p", ["a"])], [("p", ["b"]), ("t", [[[["n"]]]])]]])]
    tree, tabs, _ = odt_run(odf_file(nd_xml(odt_r_body(o0)), "text"))
    one("w_odt", "w_odt", f"xml * {T3}", f"({coq_nd(tree)}, {coq_tables(tabs)})", ("w", "odt_d0"))
    if tabs != spec_top(o0):
        ctx.finding("odt-nested-table-rows-merged-into-outer",
                    "ODT: rows of a table inside a cell are merged into the outer table (table.iter(row) is recursive) and the nested table is listed again",
                    {"format": "odt", "doc": o0, "got": tabs, "want": spec_top(o0)})
    # HTML nested / multi-paragraph
    h0 = [("t", [[("x", "a", []), ("n", [["n1", "n2"]])], [("x", "b", []), ("x", "c", [])]])]
    src = html_src(html_r_root("", h0))
    tree, tabs, _ = html_run(src)
    one("w_html_nested", "(w_html_nested py_is_ws)", f"xml * {T3}", f"({coq_nd(tree)}, {coq_tables(tabs)})", ("w", src))
    if tabs != html_spec(h0):
        ctx.finding("html-nested-table-rows-merged-into-outer",
                    "HTML: rows of a table inside a cell become extra rows of the outer table (_find_nodes is recursive); the nested table itself is not returned",
                    {"format": "html", "html": src, "got": tabs, "want": html_spec(h0)})
    h1 = [("t", [[("ps", ["Hello", "World"])]])]
    src = html_src(html_r_root("", h1))
    tree, tabs, _ = html_run(src)
    one("w_html_multipara", "(w_html_multipara py_is_ws)", f"xml * {T3}", f"({coq_nd(tree)}, {coq_tables(tabs)})", ("w", src))
    if tabs != html_spec(h1):
        ctx.finding("html-multi-paragraph-cell-words-glued",
                    "HTML: paragraphs inside a table cell are concatenated without a separator (<td><p>Hello</p><p>World</p></td> -> 'HelloWorld')",
                    {"format": "html", "html": src, "got": tabs, "want": html_spec(h1)})
    # EPUB nested / inline
    body = "<table><tr><td>a</td><td><table><tr><td>n</td></tr></table></td></tr><tr><td>b</td></tr></table>"
    _, tabs, _ = epub_run([xhtml(body)])
    one("w_epub_nested", "(w_epub_nested py_is_ws)", T3, coq_tables(tabs), ("w", body))
    if tabs != [[["a", ""], ["b"]]] and tabs != [[["a", "n"], ["b"]], [["n"]]]:
        ctx.finding("epub-nested-table-outer-table-lost",
                    "EPUB: a table inside a cell resets the table state; the outer table is lost and only the nested one is returned",
                    {"format": "epub", "xhtml_body": body, "got": tabs})
    body = "<table><tr><td>foo<b>bar</b></td></tr></table>"
    _, tabs, _ = epub_run([xhtml(body)])
    one("w_epub_inline", "(w_epub_inline py_is_ws)", T3, coq_tables(tabs), ("w", body))
    if tabs != [[["foobar"]]]:
        ctx.finding("epub-inline-markup-in-cell-inserts-space",
                    "EPUB: inline markup inside a cell splits the text and a space is inserted (<td>foo<b>bar</b></td> -> 'foo bar')",
                    {"format": "epub", "xhtml_body": body, "got": tabs, "want": [[["foobar"]]]})
    # ODS: A, 101 empty cells, B (as LibreOffice writes it) and A, 101 empty rows, B
    OW = "list (str * option Z) * xml * option (list (list val))"
    gw = [[("S", ["A"])] + [("E",)] * 101 + [("S", ["B"])]]
    tbls, tabs, _, err = ods_run(ods_file([ods_r_sheet(gw, True)]))
    it = int_table(tbls[0], {"table:number-columns-repeated", "table:number-rows-repeated"})
    one("w_ods_cap", "w_ods_cap", OW, f"({coq_int_table(it)}, {coq_nd(tbls[0])}, " + ("None" if tabs is None else f"(Some {coq_vgrid(tabs[0])})") + ")", ("w", "ods gw"))
    want = [[ocell_spec(c) for c in gw[0]]]
    if tabs is None or tabs[0] != want:
        ctx.finding("ods-empty-run-over-100-collapsed",
                    "ODS: more than 100 repeated empty cells are collapsed to one, shifting every later cell of the row to the left",
                    {"format": "ods", "grid": "A, 101 x empty, B (number-columns-repeated=101)", "got_width": None if tabs is None else len(tabs[0][0]), "want_width": 103})
    xw = E("table:table", [E("table:table-row", [ods_r_cell(("S", ["A"]), 1)]),
                           E("table:table-row", [ods_r_cell(("E",), 1)], attrs=[("table:number-rows-repeated", "101")]),
                           E("table:table-row", [ods_r_cell(("S", ["B"]), 1)])])
    tbls, tabs, _, err = ods_run(ods_file([xw]))
    it = int_table(tbls[0], {"table:number-columns-repeated", "table:number-rows-repeated"})
    one("w_ods_rows", "w_ods_rows", OW, f"({coq_int_table(it)}, {coq_nd(tbls[0])}, " + ("None" if tabs is None else f"(Some {coq_vgrid(tabs[0])})") + ")", ("w", "ods rows"))
    if tabs is None or len(tabs[0]) != 103:
        ctx.finding("ods-empty-row-repeat-over-100-collapsed",
                    "ODS: more than 100 repeated empty rows are collapsed to one row, moving every later row up",
                    {"format": "ods", "sheet_xml": nd_xml(xw), "rows_got": None if tabs is None else len(tabs[0]), "rows_want": 103})
    # XLSX header-row witnesses
    XT = "list (list xcell) * list (list val)"
    xw_ = {"xw_empty_header": ([["a", None, "c"], ["1", "2", "3"]], "xlsx-empty-header-cell-becomes-unnamed",
                               "XLSX: an empty cell in the first row is returned as the invented text 'Unnamed: i'"),
           "xw_title_row": ([["Title", None], ["1", "2"]], "xlsx-first-row-with-single-value-dropped",
                            "XLSX: a first row with exactly one non-empty cell (width > 1) is dropped from the table (_is_table_name_row)"),
           "xw_int_header": ([["a", 5], ["1", "2"]], "xlsx-first-row-values-stringified",
                             "XLSX: typed values in the first row are returned as str(value) (numbers, booleans; dates as 'YYYY-MM-DD HH:MM:SS' instead of ISO)"),
           "xw_date_header": ([["d", datetime.datetime(2024, 1, 2)], ["1", "2"]], "xlsx-first-row-values-stringified",
                              "XLSX: typed values in the first row are returned as str(value) (numbers, booleans; dates as 'YYYY-MM-DD HH:MM:SS' instead of ISO)")}
    for wname, (g, key, what) in xw_.items():
        seen, tabs, _ = xlsx_run([g])
        one("w_" + wname, f"(w_xlsx py_is_ws {wname})", XT,
            f"({coq_list([coq_list([coq_xcell(v) for v in r]) for r in seen[0]])}, {coq_vgrid(tabs[0])})", ("w", wname))
        want = xlsx_expected(seen[0])
        if [[val_canon(v) for v in r] for r in tabs[0]] != [[val_canon(v) for v in r] for r in want]:
            ctx.finding(key, what, {"format": "xlsx", "grid": repr(g), "got": repr(tabs[0]), "want": repr(want)})
    # XLS witnesses
    LT = "list (list lcell) * list (list val) * (nat * nat)"
    lw = {"lw_dup": ([[Cell(xlrd.XL_CELL_TEXT, "a"), Cell(xlrd.XL_CELL_TEXT, "a")], [Cell(xlrd.XL_CELL_NUMBER, 1.0), Cell(xlrd.XL_CELL_NUMBER, 2.0)]],
                     "xls-duplicate-header-text-collapses-columns",
                     "XLS: columns whose first-row texts are equal collapse into one (rows are dicts keyed by header text); the last value wins"),
          "lw_header_only": ([[Cell(xlrd.XL_CELL_TEXT, "a"), Cell(xlrd.XL_CELL_TEXT, "b")]],
                             "xls-header-only-sheet-returns-empty-table",
                             "XLS: a sheet with a single row yields get_table() == [] (rows are stored as dicts of the rows below the header)")}
    for wname, (g, key, what) in lw.items():
        per, tabs, dims = xls_run([g])
        pg, t, dm = per[0], tabs[0], dims[0]
        one("w_" + wname, f"(w_xls {wname})", LT,
            "(" + coq_list([coq_list([f"{{| lc_native := {coq_val(nv)}; lc_header := {coq_str(hs)} |}}" for nv, hs in row]) for row in pg])
            + f", {coq_vgrid(t)}, ({dm[0]}%nat, {dm[1]}%nat))", ("w", wname))
        want = [[hs for _, hs in pg[0]]] + [[nv for nv, _ in row] for row in pg[1:]]
        if [[val_canon(v) for v in row] for row in t] != [[val_canon(v) for v in row] for row in want]:
            ctx.finding(key, what, {"format": "xls", "grid": repr(pg), "got": repr(t), "want": repr(want)})
    # ODS: non-finite number, cell comment
    inf = ods_r_sheet([[("N", "1e400"), ("S", ["x"])]], False)
    tbls, tabs, _, err = ods_run(ods_file([inf]))
    if tabs is None:
        ctx.finding("ods-non-finite-number-aborts-extraction",
                    f"ODS: read_ods fails for the whole file on a generated sheet ({err}); a non-finite office:value (1e400, inf) must be kept as text",
                    {"format": "ods", "sheet_xml": nd_xml(inf), "error": err})
    # RTF: two tables separated by an empty paragraph
    gs = [[["a", "b"]], [["c", "d"]]]
    tabs, _ = rtf_run(rtf_doc(gs, "\\pard\\par\n"))
    ctx.case(("w", "rtf adjacent"), True, "witness")
    if tabs != gs:
        ctx.finding("rtf-adjacent-tables-merged",
                    "RTF: two tables separated by a short paragraph (< 100 source characters / <= 20 text characters) are returned as one table",
                    {"format": "rtf", "grids": gs, "separator": "\\pard\\par", "got": tabs, "want": gs})


RAGGED = [
    [["item", "qty", "price"], ["nut", "7", "1.20"], ["total"]],          # widest row is not the lexicographic maximum
    [["z"], ["a", "b", "c", "d"]],
    [["b", "b"], ["a", "a", "a"], ["c"]],
    [["x", "y"], [], ["zz"]],
    [[]],
    [],
    [["same", "same"], ["same", "same", ""]],
]


def fixed_cases(ctx, B, dim_cases):
    """deterministic cases for get_dim on ragged data, all-empty tables and ODS exponent numbers"""
    from sharepoint2text.parsing.extractors import data_types as DT
    T3 = "list (list (list str))"
    # get_dim of every list-backed table type, directly on ragged data (also non-string rows for the sheet types)
    mixed = [[None, 3, "a"], [2.5], ["z", None, None, 1]]
    for cls in (DT.TableData, DT.XlsxSheet, DT.OdsSheet, DT.OdtTable, DT.RtfTable):
        for data in RAGGED + ([mixed] if cls in (DT.XlsxSheet, DT.OdsSheet, DT.TableData) else []):
            want = (len(data), max((len(r) for r in data), default=0))
            try:
                obj = cls(data=[list(r) for r in data])
                dm = obj.get_dim()
                got = (dm.rows, dm.columns)
                same = obj.get_table() == data
            except Exception as e:  # noqa
                got, same = type(e).__name__, True
            ctx.case(("dim", cls.__name__, repr(data)), True, "dim:ragged")
            if got != want or not same:
                ctx.finding(f"{cls.__name__}-get_dim-not-shape",
                            f"{cls.__name__}(data={data!r}): get_dim() gives {got}, the shape of get_table() is {want}",
                            {"class": cls.__name__, "data": repr(data), "got": repr(got), "want": want})
            elif all(isinstance(c, str) for r in data for c in r):
                dim_cases.insert(0, (data, got))
    # the ragged example through real files (HTML keeps ragged rows as they are)
    rag = RAGGED[0]
    src = "<html><body><table>" + "".join("<tr>" + "".join(f"<td>{c}</td>" for c in r) + "</tr>" for r in rag) + "</table></body></html>"
    tree, tabs, dims = html_run(src)
    B["htmltree"].add(f"({coq_nd(tree)}, {coq_tables(tabs)})", ("fixed", src))
    ctx.case(("fixed", src), True, "fixed")
    if tabs != [rag] or dims != [(3, 3)]:
        ctx.finding("html-ragged-table-dim", f"HTML ragged table: got {tabs!r} dims {dims!r}, want {[rag]!r} dims [(3, 3)]",
                    {"format": "html", "html": src, "got": tabs, "dims": dims})
    # a blank 2x3 table between two filled tables must be returned, in place (all formats with list-of-str tables)
    blank = [[[[]], [[]], [[]]], [[[]], [[]], [[]]]]            # fgrid: 2x3 cells, one empty paragraph each
    filled1, filled2 = [[[["a"]], [["b"]]]], [[[["c"]]]]
    gs = [filled1, blank, filled2]
    want = [[["a", "b"]], [["", "", ""], ["", "", ""]], [["c"]]]
    frames, tabs, dims = pptx_run(pptx_file([pptx_r_frame(g) for g in gs]))
    ctx.case(("fixed", "pptx-blank"), True, "fixed")
    if tabs != want or dims != [(1, 2), (2, 3), (1, 1)]:
        ctx.finding("pptx-blank-table-lost", f"PPTX: an all-empty 2x3 table between two filled tables is not returned in place: got {tabs!r} dims {dims!r}",
                    {"format": "pptx", "grids": gs, "got": tabs, "dims": dims, "want": want})
    if len(tabs) == 3:
        for g, f, r in zip(gs, frames, tabs):
            B["pptx"].add(f"({coq_fgrid(g)}, {coq_nd(f)}, (Some {coq_sgrid(r)}))", ("fixed", "pptx-blank"))
    d = [("t", [[[("p", p) for p in c] for c in r] for r in g]) for g in gs]
    tree, tabs, dims = docx_run(docx_file(docx_r_body(d)))
    B["docx"].add(f"({coq_doc(d)}, {coq_nd(tree)}, {coq_tables(tabs)})", ("fixed", "docx-blank"))
    ctx.case(("fixed", "docx-blank"), True, "fixed")
    if tabs != want:
        ctx.finding("docx-blank-table-lost", f"DOCX: an all-empty 2x3 table between two filled tables is not returned in place: got {tabs!r}",
                    {"format": "docx", "doc": d, "got": tabs, "want": want})
    tree, tabs, dims = odt_run(odf_file(nd_xml(odt_r_body(d)), "text"))
    B["odt"].add(f"({coq_doc(d)}, {coq_nd(tree)}, {coq_tables(tabs)})", ("fixed", "odt-blank"))
    ctx.case(("fixed", "odt-blank"), True, "fixed")
    if tabs != want:
        ctx.finding("odt-blank-table-lost", f"ODT: an all-empty 2x3 table between two filled tables is not returned in place: got {tabs!r}",
                    {"format": "odt", "doc": d, "got": tabs, "want": want})
    tbls, tabs, dims = odp_run(odp_file([odf_r_ftable(g) for g in gs]))
    ctx.case(("fixed", "odp-blank"), True, "fixed")
    if tabs != want:
        ctx.finding("odp-blank-table-lost", f"ODP: an all-empty 2x3 table between two filled tables is not returned in place: got {tabs!r}",
                    {"format": "odp", "grids": gs, "got": tabs, "want": want})
    hd = [("t", [[("x", "a", []), ("x", "b", [])]]), ("t", [[("x", "", [])] * 3] * 2), ("t", [[("x", "c", [])]])]
    src = html_src(html_r_root("", hd))
    tree, tabs, dims = html_run(src)
    B["html"].add(f"({coq_str('')}, {coq_hdoc(hd)}, {coq_nd(tree)}, {coq_tables(tabs)})", ("fixed", src))
    ctx.case(("fixed", src), True, "fixed")
    if tabs != want:
        ctx.finding("html-blank-table-lost", f"HTML: an all-empty 2x3 table between two filled tables is not returned in place: got {tabs!r}",
                    {"format": "html", "html": src, "got": tabs, "want": want})
    body = "".join("<table>" + "".join("<tr>" + "".join(f"<td>{c}</td>" for c in r) + "</tr>" for r in g) + "</table>" for g in want)
    evs, tabs, dims = epub_run([xhtml(body)])
    B["epub"].add(f"({coq_events(evs)}, {coq_tables(tabs)})", ("fixed", body))
    ctx.case(("fixed", body), True, "fixed")
    if tabs != want:
        ctx.finding("epub-blank-table-lost", f"EPUB: an all-empty 2x3 table between two filled tables is not returned in place: got {tabs!r}",
                    {"format": "epub", "xhtml_body": body, "got": tabs, "want": want})
    edge_cases(ctx, B)
    wrapper_cases(ctx, B)
    # ODS: numbers in exponent form without a dot stay numeric
    g = [[("N", "5e3"), ("N", "1E+020"), ("N", "7"), ("N", "2.50"), ("N", "2.5e-1"), ("N", "-4E2")]]
    wantv = [[5000, 10 ** 20, 7, 2.5, 0.25, -400]]
    for rle_mode in (False, True):
        sheet = ods_r_sheet(g, rle_mode)
        tbls, tabs, dims, err = ods_run(ods_file([sheet]))
        it, ft = int_table(tbls[0], {"table:number-columns-repeated", "table:number-rows-repeated", "text:c"}), flt_table(tbls[0])
        res = "None" if tabs is None else f"(Some {coq_vgrid(tabs[0])})"
        B["odsrle" if rle_mode else "odsplain"].add(
            f"({coq_int_table(it)}, {coq_flt_table(ft)}, {coq_list([coq_list([coq_ocell(c) for c in r]) for r in g])}, {coq_nd(tbls[0])}, {res})",
            ("fixed", "ods-exponent"))
        ctx.case(("fixed", "ods-exponent", rle_mode), True, "fixed")
        got = None if tabs is None else [[val_canon(v) for v in r] for r in tabs[0]]
        if got != [[val_canon(v) for v in r] for r in wantv]:
            ctx.finding("ods-exponent-number-not-numeric",
                        f"ODS: office:value in exponent form ('5e3', '1E+020', ...) must stay numeric: got {None if tabs is None else tabs[0]!r} want {wantv!r}",
                        {"format": "ods", "values": [c[1] for c in g[0]], "got": repr(None if tabs is None else tabs[0]), "want": repr(wantv)})


def edge_cases(ctx, B):
    """EDGE_GRIDS (empty cells in first/middle/last column, empty first and last row) through every format, with
    every serialisation of an empty element; RTF with every continuation after \\row and tight empty cells."""
    import itertools
    from html.parser import HTMLParser as HP
    from sharepoint2text.parsing.extractors import html_extractor as H, epub_extractor as EP
    T3 = "list (list (list str))"
    # tokenizer-level fact the event/tree models rest on: <x/> is replayed as start;end
    for cls in (EP._XhtmlTextExtractor, H._HtmlTreeBuilder):
        same = cls.handle_startendtag is HP.handle_startendtag
        ctx.obligation(f"startend=start;end: {cls.__name__} does not override HTMLParser.handle_startendtag", same,
                       "handle_startendtag is overridden: XHTML empty-element syntax (<td/>) no longer goes through handle_starttag + handle_endtag")
    for gi, g in enumerate(EDGE_GRIDS):
        for mode, empty in itertools.product(SC_MODES[:2], ([[]], [])):
            set_selfclose(mode)
            fg = [[[[c]] if c else [list(p) for p in empty] for c in r] for r in g]
            d = [("p", ["before"]), ("t", [[[("p", p) for p in c] for c in r] for r in fg]), ("p", ["after"])]
            tag = f"edge{gi}:{mode}:{'p' if empty else 'nop'}"
            tree, tabs, _ = docx_run(docx_file(docx_r_body(d)))
            B["docx"].add(f"({coq_doc(d)}, {coq_nd(tree)}, {coq_tables(tabs)})", ("edge", "docx", tag))
            if tabs != [g]:
                ctx.finding("docx-edge-grid-mismatch", f"DOCX [{tag}]: grid with empty border cells / rows: got {tabs!r} want {[g]!r}",
                            {"format": "docx", "grid": g, "serialisation": tag, "got": tabs})
            tree, tabs, _ = odt_run(odf_file(nd_xml(odt_r_body(d)), "text"))
            B["odt"].add(f"({coq_doc(d)}, {coq_nd(tree)}, {coq_tables(tabs)})", ("edge", "odt", tag))
            if tabs != [g]:
                ctx.finding("odt-edge-grid-mismatch", f"ODT [{tag}]: grid with empty border cells / rows: got {tabs!r} want {[g]!r}",
                            {"format": "odt", "grid": g, "serialisation": tag, "got": tabs})
            tbls, tabs, _ = odp_run(odp_file([odf_r_ftable(fg)]))
            if len(tabs) == 1:
                B["odp"].add(f"({coq_fgrid(fg)}, {coq_nd(tbls[0])}, {coq_sgrid(tabs[0])})", ("edge", "odp", tag))
            if tabs != [g]:
                ctx.finding("odp-edge-grid-mismatch", f"ODP [{tag}]: grid with empty border cells / rows: got {tabs!r} want {[g]!r}",
                            {"format": "odp", "grid": g, "serialisation": tag, "got": tabs})
            frames, tabs, _ = pptx_run(pptx_file([pptx_r_frame(fg)]))
            if len(tabs) == 1:
                B["pptx"].add(f"({coq_fgrid(fg)}, {coq_nd(frames[0])}, (Some {coq_sgrid(tabs[0])}))", ("edge", "pptx", tag))
            if tabs != [g]:
                ctx.finding("pptx-edge-grid-mismatch", f"PPTX [{tag}]: grid with empty border cells / rows: got {tabs!r} want {[g]!r}",
                            {"format": "pptx", "grid": g, "serialisation": tag, "got": tabs})
            ctx.case(("edge", tag), True, "edge")
        # ODS: string cells; trailing empty rows / columns are outside the used range
        for mode, rle_mode in itertools.product(SC_MODES[:2], (False, True)):
            set_selfclose(mode)
            og = [[("S", [c]) if c else ("E",) for c in r] for r in g]
            tbls, tabs, _, err = ods_run(ods_file([ods_r_sheet(og, rle_mode)]))
            it, ft = int_table(tbls[0], {"table:number-columns-repeated", "table:number-rows-repeated", "text:c"}), flt_table(tbls[0])
            res = "None" if tabs is None else f"(Some {coq_vgrid(tabs[0])})"
            B["odsrle" if rle_mode else "odsplain"].add(
                f"({coq_int_table(it)}, {coq_flt_table(ft)}, {coq_list([coq_list([coq_ocell(c) for c in r]) for r in og])}, {coq_nd(tbls[0])}, {res})",
                ("edge", "ods", gi, mode))
            spec = [[c or None for c in r] for r in g]
            while spec and all(v is None for v in spec[-1]):
                spec.pop()
            w = max((max((j + 1 for j, v in enumerate(r) if v is not None), default=0) for r in spec), default=0)
            spec = [(r + [None] * w)[:w] for r in spec]
            ctx.case(("edge", "ods", gi, mode, rle_mode), True, "edge")
            if tabs is None or tabs[0] != spec:
                ctx.finding("ods-edge-grid-mismatch", f"ODS [edge{gi}:{mode}:rle={rle_mode}]: got {None if tabs is None else tabs[0]!r} want {spec!r}",
                            {"format": "ods", "grid": g, "got": repr(None if tabs is None else tabs[0]), "want": repr(spec)})
        set_selfclose("never")
        # HTML / EPUB: <td/>, <td></td>, <td> </td>, <td />
        for ev in ("<{t}/>", "<{t}></{t}>", "<{t}> </{t}>", "<{t} />"):
            for tg in ("td", "th"):
                rows = "".join("<tr>" + "".join((ev.format(t=tg) if c == "" else f"<{tg}>{c}</{tg}>") for c in r) + "</tr>" for r in g)
                body = "<p>before</p><table>" + rows + "</table><p>after</p>"
                src = "<html><body>" + body + "</body></html>"
                tree, tabs, _ = html_run(src)
                B["htmltree"].add(f"({coq_nd(tree)}, {coq_tables(tabs)})", ("edge", src))
                if tabs != [g]:
                    ctx.finding("html-edge-grid-mismatch", f"HTML: empty cells written as {ev.format(t=tg)}: got {tabs!r} want {[g]!r}",
                                {"format": "html", "html": src, "got": tabs, "want": [g]})
                evs, tabs, _ = epub_run([xhtml(body)])
                B["epub"].add(f"({coq_events(evs)}, {coq_tables(tabs)})", ("edge", body))
                if tabs != [g]:
                    ctx.finding("epub-edge-grid-mismatch", f"EPUB: empty cells written as {ev.format(t=tg)}: got {tabs!r} want {[g]!r}",
                                {"format": "epub", "xhtml_body": body, "got": tabs, "want": [g]})
                ctx.case(("edge", src), True, "edge")
        # RTF: what follows \\row, and empty cells as bare \\cell
        for tight, sep in itertools.product((False, True), ("", " ", "\n", "}{", "\\pard")):
            text = "{\\rtf1\\ansi " + "".join("\\trowd" + "".join(("" if (tight and c == "") else " " + c) + "\\cell" for c in r) + "\\row" + sep for r in g) + "}"
            tabs, dims = rtf_impl_text(text)
            ctx.case(("edge", "rtf", text), True, "edge")
            if tabs is None:
                ctx.finding("rtf-extraction-raised", f"RTF: read_rtf raised on a generated document: {dims}", {"format": "rtf", "rtf": text})
                continue
            B["rtfgen"].add(f"({coq_bool(tight)}, {coq_str(sep)}, {coq_sgrid(g)}, {coq_str(text)}, {coq_tables(tabs)})", ("edge", text))
            if tabs != [g]:
                ctx.finding("rtf-edge-grid-mismatch", f"RTF: rows ending in \\row{sep!r} (tight empty cells={tight}): got {tabs!r} want {[g]!r}",
                            {"format": "rtf", "rtf": text, "got": tabs, "want": [g]})
        # the same in \\cellx / \\intbl syntax, rows glued in different ways
        for row_sep in ("", " ", "\n", "\\pard", "\\pard\\plain "):
            text = rtf_doc([g], "", row_sep=row_sep)
            tabs, dims = rtf_impl_text(text)
            if tabs is None:
                continue
            B["rtftext"].add(f"({coq_str(text)}, {coq_tables(tabs)})", ("edge", text))
            ctx.case(("edge", "rtfcellx", text), True, "edge")
            if tabs != [g]:
                ctx.finding("rtf-edge-grid-mismatch", f"RTF (\\cellx syntax): rows ending in \\row{row_sep!r}: got {tabs!r} want {[g]!r}",
                            {"format": "rtf", "rtf": text, "got": tabs, "want": [g]})
    # first \\trowd at offset 0 of a group, rows glued
    text = "{\\rtf1{\\trowd a\\cell\\row\\trowd b\\cell\\row}}"
    tabs, dims = rtf_impl_text(text)
    if tabs is not None:
        B["rtftext"].add(f"({coq_str(text)}, {coq_tables(tabs)})", ("edge", text))
        if tabs != [[["a"], ["b"]]]:
            ctx.finding("rtf-edge-grid-mismatch", f"RTF: group starting with \\trowd, glued rows: got {tabs!r} want [[['a'], ['b']]]",
                        {"format": "rtf", "rtf": text, "got": tabs})


def rtf_impl_text(text):
    from sharepoint2text.parsing.extractors.ms_legacy import rtf_extractor as RTF
    try:
        return tables_of(next(iter(RTF.read_rtf(io.BytesIO(text.encode("utf-8"))))))
    except Exception as e:  # noqa
        return None, repr(e)


# ----------------------------------------------------------------------------- decks (ODP / PPTX): frame order
ODP_POS = ["1cm", "1cm", "2cm", "10mm", "0.5in", None, None, "-1cm", "abc", "0cm", "3.5cm", "28.35pt", " 2 cm ", "2CM", "0.79in",
           "20.0mm", "6pc", "96px", "96", "1.", "3e1cm", "0.01cm", "0.1mm", "12.7mm", "1.27cm", "36pt"]
PPTX_POS = [(0, 0), (0, 0), (914400, 0), (914400, 914400), (0, 914400), None, None, (1, 2), (457200, 100)]


def odp_deck_file(slides) -> bytes:
    """slides: list of item lists; item = (x, y, kind, payload) with kind in table / text / empty,
    or ("g", [items]) for a draw:g group (nesting allowed)"""
    def item_xml(it):
        if it[0] == "g":
            return "<draw:g>" + "".join(item_xml(k) for k in it[1]) + "</draw:g>"
        x, y, kind, payload = it
        a = "".join(f' svg:{k}="{v}"' for k, v in (("x", x), ("y", y)) if v is not None)
        body = nd_xml(payload) if kind == "table" else ("<draw:text-box><text:p>" + xesc(payload) + "</text:p></draw:text-box>" if kind == "text" else "")
        return f'<draw:frame{a} svg:width="5cm" svg:height="2cm">{body}</draw:frame>'
    pages = ""
    for si, items in enumerate(slides):
        pages += f'<draw:page draw:name="s{si}">' + "".join(item_xml(it) for it in items) + '<presentation:notes><draw:frame><draw:text-box><text:p>n</text:p></draw:text-box></draw:frame></presentation:notes></draw:page>'
    return odf_file(f"<office:presentation>{pages}</office:presentation>", "presentation")


def flat_frames(items):
    for it in items:
        if it[0] == "g":
            yield from flat_frames(it[1])
        else:
            yield it


def ranks(keys):
    """order-preserving ranks of (y, x) pairs of comparable numbers"""
    ys = sorted({k[0] for k in keys})
    xs = sorted({k[1] for k in keys})
    return [(ys.index(k[0]), xs.index(k[1])) for k in keys]


def coq_deck(slides):
    return coq_list([coq_list([f"({y}%nat, {x}%nat, {coq_opt(t, coq_nd)})" for y, x, t in sl]) for sl in slides])


def odp_deck_run(data: bytes):
    """-> (pages as parsed, every draw:frame annotated with the ranks of its position, tables or None, dims, error)"""
    from sharepoint2text.parsing.extractors.open_office import odp_extractor as ODP
    root = content_root(data)
    pages = list(root.iter("{%s}page" % NSMAP["draw"]))
    frames = [f for pg in pages for f in pg.iter("{%s}frame" % NSMAP["draw"])]
    keys = [(ODP._parse_odf_length_to_px(f.get("{%s}y" % NSMAP["svg"])), ODP._parse_odf_length_to_px(f.get("{%s}x" % NSMAP["svg"]))) for f in frames]
    for f, (ry, rx) in zip(frames, ranks(keys)):
        f.set("rank:y", str(ry))
        f.set("rank:x", str(rx))
    nds = [nd_from_et(pg) for pg in pages]
    try:
        c = next(iter(ODP.read_odp(io.BytesIO(data))))
        tabs, dims = tables_of(c)
        return nds, tabs, dims, None
    except Exception as e:  # noqa
        return nds, None, None, type(e).__name__ + ": " + str(getattr(e, "__cause__", None) or e)[:120]


def pptx_deck_file(slides) -> bytes:
    """slides: list of item lists; item = (pos or None, kind, payload, placeholder or None) with kind in table / text / ph,
    or ("g", [items]) for a p:grpSp group (nesting allowed); pos = (x, y) of any printable values"""
    def ph_xml(ph):
        if ph is None:
            return "<p:nvPr/>"
        a = (f' type="{ph[0]}"' if ph[0] else "") + (f' idx="{ph[1]}"' if ph[1] is not None else "")
        return f"<p:nvPr><p:ph{a}/></p:nvPr>"
    def item_xml(it, si):
        if it[0] == "g":
            return ('<p:grpSp><p:nvGrpSpPr><p:cNvPr id="9" name="g"/><p:cNvGrpSpPr/><p:nvPr/></p:nvGrpSpPr><p:grpSpPr/>'
                    + "".join(item_xml(k, si) for k in it[1]) + "</p:grpSp>")
        pos, kind, payload, ph = it
        if kind == "table":
            x = nd_xml(payload)
            head = f'<p:nvGraphicFramePr><p:cNvPr id="4" name="t"/><p:cNvGraphicFramePr/>{ph_xml(ph)}</p:nvGraphicFramePr>' if ph is not None else ""
            if pos is not None:
                head += f'<p:xfrm><a:off x="{pos[0]}" y="{pos[1]}"/></p:xfrm>'
            return x.replace("<p:graphicFrame>", "<p:graphicFrame>" + head, 1)
        off = f'<a:xfrm><a:off x="{pos[0]}" y="{pos[1]}"/></a:xfrm>' if pos is not None else ""
        return (f'<p:sp><p:nvSpPr><p:cNvPr id="{si}" name="t"/><p:cNvSpPr/>{ph_xml(ph)}</p:nvSpPr><p:spPr>{off}</p:spPr>'
                f'<p:txBody><a:p><a:r><a:t>{xesc(str(payload))}</a:t></a:r></a:p></p:txBody></p:sp>')
    files = {"[Content_Types].xml": CT, "_rels/.rels": rels("ppt/presentation.xml")}
    ids, prels = "", ""
    for si, items in enumerate(slides, 1):
        body = "".join(item_xml(it, si) for it in items)
        files[f"ppt/slides/slide{si}.xml"] = f'<?xml version="1.0" encoding="UTF-8"?><p:sld{xmlns_decl()}><p:cSld><p:spTree>{body}</p:spTree></p:cSld></p:sld>'
        ids += f'<p:sldId id="{255 + si}" r:id="rId{si}"/>'
        prels += (f'<Relationship Id="rId{si}" Type="http://schemas.openxmlformats.org/officeDocument/2006/relationships/slide" '
                  f'Target="slides/slide{si}.xml"/>')
    files["ppt/presentation.xml"] = f'<?xml version="1.0" encoding="UTF-8"?><p:presentation{xmlns_decl()}><p:sldIdLst>{ids}</p:sldIdLst></p:presentation>'
    files["ppt/_rels/presentation.xml.rels"] = ('<?xml version="1.0"?><Relationships xmlns="http://schemas.openxmlformats.org/package/2006/relationships">'
                                                + prels + "</Relationships>")
    return zipbytes(files)


def pptx_deck_run(data: bytes, nslides: int):
    """-> (p:spTree trees as parsed, int() table of every attribute value, [(shape, real position)], tables, dims, error)"""
    from sharepoint2text.parsing.extractors.ms_modern import pptx_extractor as P
    trees, ints, poscases = [], {"0": 0}, []
    with zipfile.ZipFile(io.BytesIO(data)) as z:
        for si in range(1, nslides + 1):
            root = ET.fromstring(z.read(f"ppt/slides/slide{si}.xml"))
            tree = next(root.iter(P.P_SPTREE))
            for e in tree.iter():
                for k, v in e.attrib.items():
                    if k in ("x", "y", "idx"):
                        ints[v] = py_int(v)
                if e.tag in (P.P_SP, P.P_PIC, P.P_GRAPHICFRAME):
                    poscases.append((nd_from_et(e), P._get_shape_position(e)))
            trees.append(nd_from_et(tree))
    for nd, _ in poscases:
        nd.tail = ""
    try:
        c = next(iter(P.read_pptx(io.BytesIO(data))))
        tabs, dims = tables_of(c)
        return trees, ints, poscases, tabs, dims, None
    except Exception as e:  # noqa
        return trees, ints, poscases, None, None, type(e).__name__ + ": " + str(getattr(e, "__cause__", None) or e)[:120]


def float_rec(f: float) -> str:
    """a CPython float as exact m * 2^e (None = 0.0)"""
    import math
    if f == 0:
        return "None"
    m, e = math.frexp(f)
    return f"(Some ({coq_Z(int(m * (1 << 53)))}, {coq_Z(e - 53)}))"


def odf_px_witness(ctx, B):
    """Coq: C13_odf_px_equal_lengths_equal_keys_refuted — replayed on the real code as a deck"""
    set_selfclose("never")
    ga, gb = [[[["A"]]]], [[[["B"]]]]
    slides = [[("1cm", "0.1mm", "table", odf_r_ftable(ga)), ("1cm", "0.01cm", "table", odf_r_ftable(gb))]]
    pages, tabs, dims, err = odp_deck_run(odp_deck_file(slides))
    B["odpdeck"].add(f"({coq_list([coq_nd(pg) for pg in pages])}, " + ("None" if tabs is None else f"(Some {coq_tables(tabs)})") + ")", ("odfpx-witness",))
    ctx.case(("odfpx-witness",), True, "witness")
    if tabs != [[["A"]], [["B"]]]:
        ctx.finding("odp-equal-position-different-units-reordered",
                    "ODP: two frames at the same place written in different units (svg:y 0.1mm and 0.01cm) get different float sort keys, so they are reordered instead of keeping document order",
                    {"format": "odp", "frames": [("1cm", "0.1mm", "A"), ("1cm", "0.01cm", "B")], "got": tabs, "want": [[["A"]], [["B"]]]})


def odf_px_cases(ctx, batch):
    """the regex language of _ODF_LENGTH_RE x the unit table, exhaustively over a small grammar, plus garbage"""
    from sharepoint2text.parsing.extractors.open_office.odp_extractor import _parse_odf_length_to_px as px
    import itertools
    b = batch("odfpx", "(corr_odf_px py_is_ws)", "str * option (Z * Z)")
    nums = ["0", "1", "2", "7", "10", "25", "100", "0.1", "0.01", "0.5", "1.27", "2.54", "25.4", "3.333", "12.7", "999.999", "0072", "1.50", "28.35", "123456.789"]
    units = ["", "cm", "mm", "in", "pt", "pc", "px", "CM", "Mm", "IN", "em", "q", "cmm"]
    pads = [("", "", ""), (" ", "", ""), ("", " ", ""), ("", "", " "), ("\t", " ", "\n"), ("\u00a0", "", "\u2003")]
    vals = [a + n + m_ + u + z for n, u, (a, m_, z) in itertools.product(nums, units, pads)]
    vals += ["", " ", "-1cm", "+1cm", "1.", ".5", "1..2", "1.2.3cm", "1e3", "1e3cm", "cm", "1 c m", "1cm2", "١cm", "1,5cm", "0x10", "inf", "nan", "1_0cm", "１cm"]
    for v in vals:
        f = px(v)
        if f != f or f in (float("inf"), float("-inf")):
            continue
        if any(ord(c) > 127 and c.isdigit() for c in v):
            ctx.count("odfpx:non-ascii-digit-skipped")      # stated assumption of the scanner
            continue
        b.add(f"({coq_str(v)}, {float_rec(f)})", ("odfpx", v))
        ctx.case(("odfpx", v), f != 0.0, "odfpx")


def deck_cases(ctx, batch, n):
    """several slides, frames of different kinds, positions equal / missing / unparseable / descending"""
    rng = ctx.rng
    DT = "list (list (nat * nat * option xml)) * option (list (list (list str)))"
    b_od = batch("odpdeck", "(corr_odp_deck_f py_is_ws)", "list xml * option (list (list (list str)))")
    b_od_rank = batch("odpdeckrank", "corr_odp_deck", "list xml * option (list (list (list str)))")
    b_pd = batch("pptxdeck", "(corr_pptx_slides py_is_ws)", "list (str * option Z) * list xml * option (list (list (list str)))")
    b_pp = batch("pptxpos", "corr_pptx_pos", "list (str * option Z) * xml * (Z * Z)")
    set_selfclose("never")
    def small():
        return [[[[rtext(rng, 1, 2, "abcXY")]] for _ in range(rng.randint(1, 2))] for _ in range(rng.randint(1, 2))]
    for i in range(n):
        mode = ["random", "same", "missing", "descending", "sorted"][i % 5]
        # ---- ODP (frames directly on the page and inside draw:g groups, nested)
        slides, src = [], []
        for si in range(rng.randint(1, 3)):
            frames = []
            for fi in range(rng.randint(1, 5)):
                if mode == "random":
                    x, y = rng.choice(ODP_POS), rng.choice(ODP_POS)
                elif mode == "same":
                    x, y = "2cm", "3cm"
                elif mode == "missing":
                    x, y = rng.choice([None, "-1cm", "abc"]), rng.choice([None, "-2cm", ""])
                elif mode == "descending":
                    x, y = "1cm", f"{9 - fi}cm"
                else:
                    x, y = "1cm", f"{fi + 1}cm"
                kind = rng.choice(["table", "table", "text", "empty"])
                g = small()
                frames.append((x, y, kind, odf_r_ftable(g) if kind == "table" else "txt"))
                if kind == "table":
                    src.append((si, fi, [["\n".join(para_text(p) for p in c) for c in r] for r in g]))
            # wrap runs of consecutive frames into groups (document order is kept)
            items, k = [], 0
            while k < len(frames):
                ln = rng.randint(1, 3)
                run = list(frames[k:k + ln])
                depth = rng.choice([0, 0, 1, 1, 2])
                for _ in range(depth):
                    run = [("g", run)]
                items += run
                k += ln
            slides.append(items)
        data = odp_deck_file(slides)
        pages, tabs, dims, err = odp_deck_run(data)
        term = f"({coq_list([coq_nd(pg) for pg in pages])}, " + ("None" if tabs is None else f"(Some {coq_tables(tabs)})") + ")"
        b_od.add(term, ("odpdeck", mode, repr(slides)[:300]))
        if i % 4 == 0:
            b_od_rank.add(term, ("odpdeckrank", mode, repr(slides)[:300]))
        def shape(items):
            return [("g", shape(it[1])) if it[0] == "g" else (it[0], it[1], it[2]) for it in items]
        desc = [shape(sl) for sl in slides]
        ctx.case(("odpdeck", repr(desc), repr(src)), bool(tabs), "odp:deck-" + mode)
        if tabs is None:
            ctx.finding("odp-deck-extraction-raised", f"ODP: read_odp fails for the whole deck ({err}) on frames (x, y, kind) per slide {desc!r}; every table of the deck is lost",
                        {"format": "odp", "slides": desc, "error": err, "tables": [s_[2] for s_ in src]})
        else:
            if sorted(map(repr, tabs)) != sorted(repr(s_[2]) for s_ in src):
                ctx.finding("odp-deck-tables-lost-or-invented", f"ODP deck: tables {tabs!r} are not the source tables {[s_[2] for s_ in src]!r} (frames, g = draw:g group: {desc!r})",
                            {"format": "odp", "slides": desc, "got": tabs, "want": [s_[2] for s_ in src]})
            elif mode in ("same", "missing", "sorted") and tabs != [s_[2] for s_ in src]:
                ctx.finding("odp-deck-tables-out-of-source-order", f"ODP deck ({mode} positions): tables {tabs!r} are not in source order {[s_[2] for s_ in src]!r}",
                            {"format": "odp", "slides": desc, "got": tabs, "want": [s_[2] for s_ in src]})
        # ---- PPTX (shapes directly in the tree and inside nested p:grpSp groups; placeholders; odd offsets)
        slides, src = [], []
        for si in range(rng.randint(1, 3)):
            shapes = []
            for fi in range(rng.randint(1, 5)):
                if mode == "random":
                    pos = rng.choice(PPTX_POS + [("abc", 0), ("", 5), (-5, -7), (" 7 ", 1), ("1_0", 2)])
                elif mode == "same":
                    pos = (914400, 914400)
                elif mode == "missing":
                    pos = None
                elif mode == "descending":
                    pos = (0, (9 - fi) * 100000)
                else:
                    pos = (0, (fi + 1) * 100000)
                kind = rng.choice(["table", "table", "text", "ph"])
                g = small()
                ph = rng.choice([None, None, ("title", None), ("body", "1"), ("", "3"), ("tbl", "x"), ("ftr", None), ("sldNum", "12"), ("dt", None)])
                shapes.append((pos, kind, pptx_r_frame(g) if kind == "table" else "txt", ph))
                if kind == "table":
                    src.append((si, fi, [["\n".join(para_text(p) for p in c).strip() for c in r] for r in g]))
            items, k = [], 0
            while k < len(shapes):
                ln = rng.randint(1, 3)
                run = list(shapes[k:k + ln])
                for _ in range(rng.choice([0, 0, 1, 2])):
                    run = [("g", run)]
                items += run
                k += ln
            slides.append(items)
        data = pptx_deck_file(slides)
        trees, it, poscases, tabs, dims, err = pptx_deck_run(data, len(slides))
        b_pd.add(f"({coq_int_table(it)}, {coq_list([coq_nd(x) for x in trees])}, " + ("None" if tabs is None else f"(Some {coq_tables(tabs)})") + ")", ("pptxdeck", mode))
        for nd, k_ in poscases[:6]:
            b_pp.add(f"({coq_int_table(it)}, {coq_nd(nd)}, ({coq_Z(k_[0])}, {coq_Z(k_[1])}))", ("pptxpos", nd_xml(nd)[:300]))
        def shape(items):
            return [("g", shape(it_[1])) if it_[0] == "g" else (it_[0], it_[1], it_[3]) for it_ in items]
        desc = [shape(sl) for sl in slides]
        ctx.case(("pptxdeck", repr(desc), repr(src)), bool(tabs), "pptx:deck-" + mode)
        if tabs is None:
            ctx.finding("pptx-deck-extraction-raised", f"PPTX: read_pptx fails for the whole deck ({err}) on shapes (position, kind, placeholder; g = p:grpSp) per slide {desc!r}",
                        {"format": "pptx", "slides": desc, "error": err})
        else:
            if sorted(map(repr, tabs)) != sorted(repr(s_[2]) for s_ in src):
                ctx.finding("pptx-deck-tables-lost-or-invented", f"PPTX deck: tables {tabs!r} are not the source tables {[s_[2] for s_ in src]!r} (shapes, g = p:grpSp: {desc!r})",
                            {"format": "pptx", "slides": desc, "got": tabs, "want": [s_[2] for s_ in src]})
            elif mode in ("same", "missing", "sorted") and all(s_[3] is None for sl in slides for s_ in flat_frames(sl)) and tabs != [s_[2] for s_ in src]:
                ctx.finding("pptx-deck-tables-out-of-source-order", f"PPTX deck ({mode} positions): tables {tabs!r} are not in source order {[s_[2] for s_ in src]!r}",
                            {"format": "pptx", "slides": desc, "got": tabs, "want": [s_[2] for s_ in src]})

def wrapper_cases(ctx, B):
    """rows wrapped the way ODF allows: table:table-header-rows (repeat heading rows / rows to repeat),
    table:table-rows, table:table-row-group (outline groups, possibly nested) — ODT, ODP and ODS"""
    set_selfclose("never")
    grids = [EDGE_GRIDS[0], [["h1", "h2"], ["a", "b"], ["c", "d"]], [["only"]], [["x", "y", "z"], ["1", "2", "3"]]]
    def trow(r, ods):
        if ods:
            return E("table:table-row", [ods_r_cell(("S", [c]) if c else ("E",), 1) for c in r])
        return E("table:table-row", [E("table:table-cell", [E("text:p", text=c)]) for c in r])
    def layouts(rows):
        n = len(rows)
        yield "header-rows", [E("table:table-header-rows", rows[:1])] + rows[1:]
        yield "header-rows-all", [E("table:table-header-rows", rows)]
        yield "table-rows", [E("table:table-rows", rows)]
        yield "row-group", rows[:1] + [E("table:table-row-group", rows[1:])] if n > 1 else [E("table:table-row-group", rows)]
        yield "nested-row-group", rows[:1] + [E("table:table-row-group", rows[1:2] + [E("table:table-row-group", rows[2:])])] if n > 2 else [E("table:table-row-group", [E("table:table-row-group", rows)])]
        yield "header+rows", [E("table:table-header-rows", rows[:1]), E("table:table-rows", rows[1:])] if n > 1 else [E("table:table-header-rows", rows)]
    for g in grids:
        for ods in (False, True):
            for name, kids in layouts([trow(r, ods) for r in g]):
                tb = E("table:table", [E("table:table-column")] + kids)
                ctx.case(("wrap", name, ods, repr(g)), True, "wrap")
                if not ods:
                    tree, tabs, _ = odt_run(odf_file(nd_xml(E("office:text", [E("text:p", text="before"), tb, E("text:p", text="after")])), "text"))
                    B["odttree"].add(f"({coq_int_table(int_table(tree, {'text:c'}))}, {coq_nd(tree)}, {coq_tables(tabs)})", ("wrap", "odt", name))
                    if tabs != [g]:
                        ctx.finding("odt-wrapped-rows-lost", f"ODT: table rows inside {name} are not all returned: got {tabs!r} want {[g]!r}",
                                    {"format": "odt", "table_xml": nd_xml(tb), "got": tabs, "want": [g]})
                    tbls, tabs, _ = odp_run(odp_file([tb]))
                    if len(tabs) == 1:
                        B["odptree"].add(f"({coq_int_table(int_table(tbls[0], {'text:c'}))}, {coq_nd(tbls[0])}, {coq_sgrid(tabs[0])})", ("wrap", "odp", name))
                    if tabs != [g]:
                        ctx.finding("odp-rows-in-table-rows-or-row-group-dropped", f"ODP: table rows inside {name} are not all returned: got {tabs!r} want {[g]!r}",
                                    {"format": "odp", "table_xml": nd_xml(tb), "got": tabs, "want": [g]})
                else:
                    tbls, tabs, _, err = ods_run(ods_file([tb]))
                    it, ft = int_table(tbls[0], {"table:number-columns-repeated", "table:number-rows-repeated", "text:c"}), flt_table(tbls[0])
                    B["odstree"].add(f"({coq_int_table(it)}, {coq_flt_table(ft)}, {coq_nd(tbls[0])}, " + ("None" if tabs is None else f"(Some {coq_vgrid(tabs[0])})") + ")",
                                     ("wrap", "ods", name))
                    spec = [[c or None for c in r] for r in g]
                    while spec and all(v is None for v in spec[-1]):
                        spec.pop()
                    w = max((max((j + 1 for j, v in enumerate(r) if v is not None), default=0) for r in spec), default=0)
                    spec = [(r + [None] * w)[:w] for r in spec]
                    if tabs is None or tabs[0] != spec:
                        ctx.finding("ods-rows-in-header-rows-or-row-group-dropped",
                                    f"ODS: sheet rows inside {name} are not returned: got {None if tabs is None else tabs[0]!r} want {spec!r}",
                                    {"format": "ods", "sheet_xml": nd_xml(tb), "got": repr(None if tabs is None else tabs[0]), "want": repr(spec)})


def env_cases(ctx):
    """a representative sample of generated files per format for common.env_sweep: (format, payload)"""
    rng = ctx.rng
    set_selfclose("never")
    out = []
    k = ctx.n(12, 40)
    for i in range(k):
        d = rdoc(rng, nested=(i % 4 == 3))
        out.append(("docx", docx_file(docx_r_body(d))))
        out.append(("odt", odf_file(nd_xml(odt_r_body(d)), "text")))
        gs = [rfgrid(rng) for _ in range(rng.randint(1, 2))]
        out.append(("odp", odp_file([odf_r_ftable(g) for g in gs])))
        out.append(("pptx", pptx_file([pptx_r_frame(g) for g in gs])))
        out.append(("ods", ods_file([ods_r_sheet(rogrid(rng), i % 2 == 1) for _ in range(rng.randint(1, 2))])))
        out.append(("html", ("<!DOCTYPE html>" + html_src(html_r_root("\n", rhdoc(rng, "simple")))).encode("utf-8")))
        body = "".join("<table>" + "".join("<tr>" + "".join("<td>" + htmlmod.escape(rtext(rng, 0, 3, HALPHA), quote=False) + "</td>" for _ in range(3)) + "</tr>"
                                           for _ in range(2)) + "</table>" for _ in range(2))
        out.append(("epub", epub_file([xhtml(body)])))
        out.append(("rtf", rtf_doc([[[rtext(rng, 1, 3, "abcXYZ") for _ in range(3)] for _ in range(2)] for _ in range(2)],
                                   "\\pard " + "long separating paragraph " * 6 + "\\par\n").encode("utf-8")))
    # spreadsheets with date-times (also wall-clock values inside daylight-saving gaps) and other typed values
    import openpyxl
    for i in range(k):
        wb = openpyxl.Workbook()
        wb.remove(wb.active)
        for si in range(rng.randint(1, 2)):
            ws = wb.create_sheet(f"S{si}")
            g = rxgrid(rng, "clean" if i % 2 == 0 else "any")
            if i % 3 == 0:
                g.append([datetime.datetime(2024, 3, 31, 2, 30), datetime.datetime(2024, 3, 10, 2, 15), datetime.datetime(2024, 11, 3, 1, 30)][:len(g[0])])
            for ri, row in enumerate(g, 1):
                for ci, v in enumerate(row, 1):
                    if v is not None:
                        ws.cell(row=ri, column=ci, value=v)
        b = io.BytesIO()
        wb.save(b)
        out.append(("xlsx", b.getvalue()))
    return out


def env_result(case):
    """canonical, comparable result of the implementation on an env_cases item"""
    fmt, data = case
    from sharepoint2text.parsing.extractors.ms_modern.docx_extractor import read_docx
    from sharepoint2text.parsing.extractors.ms_modern.pptx_extractor import read_pptx
    from sharepoint2text.parsing.extractors.ms_modern.xlsx_extractor import read_xlsx
    from sharepoint2text.parsing.extractors.open_office.odt_extractor import read_odt
    from sharepoint2text.parsing.extractors.open_office.odp_extractor import read_odp
    from sharepoint2text.parsing.extractors.open_office.ods_extractor import read_ods
    from sharepoint2text.parsing.extractors.html_extractor import read_html
    from sharepoint2text.parsing.extractors.epub_extractor import read_epub
    from sharepoint2text.parsing.extractors.ms_legacy.rtf_extractor import read_rtf
    reader = {"docx": read_docx, "pptx": read_pptx, "xlsx": read_xlsx, "odt": read_odt, "odp": read_odp, "ods": read_ods,
              "html": read_html, "epub": read_epub, "rtf": read_rtf}[fmt]
    c = next(iter(reader(io.BytesIO(data))))
    tabs, dims = tables_of(c)
    return repr(([[[val_canon(v) for v in r] for r in t] for t in tabs], dims))


def table_type_inventory(ctx):
    """fail-closed: the classes with get_table()/get_dim() in data_types.py are exactly the modelled ones, and the
    list-backed ones all compute get_dim the way TableData does (same AST)"""
    import ast
    import inspect
    import textwrap
    from sharepoint2text.parsing.extractors import data_types as DT
    have = sorted(n for n, c in vars(DT).items() if inspect.isclass(c) and c.__module__ == DT.__name__
                  and "get_table" in vars(c) and n != "TableInterface")
    modelled = ["OdsSheet", "OdtTable", "RtfTable", "TableData", "XlsSheet", "XlsxSheet"]
    ctx.obligation("inventory: table types of data_types.py are the modelled ones", have == modelled, f"found {have}, modelled {modelled}")
    def norm(fn):
        tree = ast.parse(textwrap.dedent(inspect.getsource(fn)))
        f = tree.body[0]
        body = [s for s in f.body if not (isinstance(s, ast.Expr) and isinstance(getattr(s, "value", None), ast.Constant))]
        return ast.dump(ast.Module(body=body, type_ignores=[]))
    ref_dim, ref_tab = norm(DT.TableData.get_dim), norm(DT.TableData.get_table)
    bad = [n for n in ("OdsSheet", "OdtTable", "RtfTable", "XlsxSheet") if n in have
           and (norm(getattr(DT, n).get_dim) != ref_dim or norm(getattr(DT, n).get_table) != ref_tab)]
    ctx.obligation("inventory: list-backed table types share TableData's get_table/get_dim bodies (data_get_table / data_get_dim)", not bad,
                   f"differs from TableData: {bad}")
    # HTML: self.tables is appended only by _process_node, and _process_node is reached only from extract()/itself
    # (the model walks the body once; any other caller would add tables a second time)
    from sharepoint2text.parsing.extractors import html_extractor as H
    htree = ast.parse(inspect.getsource(H._HtmlTextExtractor).lstrip())
    appenders, callers = set(), set()
    for fn in [m for m in htree.body[0].body if isinstance(m, ast.FunctionDef)]:
        for node in ast.walk(fn):
            if isinstance(node, ast.Call) and isinstance(node.func, ast.Attribute):
                f = node.func
                if f.attr in ("append", "extend", "insert") and isinstance(f.value, ast.Attribute) and f.value.attr == "tables":
                    appenders.add(fn.name)
                if f.attr == "_process_node":
                    callers.add(fn.name)
            if isinstance(node, (ast.Assign, ast.AugAssign)):
                tg = node.targets if isinstance(node, ast.Assign) else [node.target]
                if any(isinstance(x, ast.Attribute) and x.attr == "tables" for x in tg) and fn.name != "__init__":
                    appenders.add(fn.name + "(assign)")
    ctx.obligation("inventory: html self.tables is written only by _process_node, which only extract()/_process_node call",
                   appenders == {"_process_node"} and callers <= {"_process_node", "extract"},
                   f"writers of self.tables: {sorted(appenders)}; callers of _process_node: {sorted(callers)}")
    # the Content classes that yield tables do so from the modelled types only
    src = inspect.getsource(DT)
    tree = ast.parse(src)
    odd = []
    for cls in [n for n in tree.body if isinstance(n, ast.ClassDef)]:
        for fn in [m for m in cls.body if isinstance(m, ast.FunctionDef) and m.name == "iterate_tables"]:
            for node in ast.walk(fn):
                if isinstance(node, ast.Call) and isinstance(node.func, ast.Name) and node.func.id[:1].isupper() and node.func.id not in modelled:
                    odd.append(f"{cls.name}.iterate_tables constructs {node.func.id}")
    ctx.obligation("inventory: iterate_tables builds only modelled table types", not odd, "; ".join(odd))


# ----------------------------------------------------------------------------- the check
SC_MODES = ["never", "always", "random"]
PRE = ("From Coq Require Import ZArith List Bool.\nFrom S2T Require Import Lib.PyStr C13.Model C13.Corr C13.ProofsHtml "
       "C13.ProofsSheets C13.ProofsOds C13.ProofsTree C13.Witness Gen.C13Tables.\n"
       "Import ListNotations.\nOpen Scope N_scope.\n")


class Batch:
    def __init__(self, name, fn, ty):
        self.name, self.fn, self.ty, self.cases, self.info = name, fn, ty, [], []

    def add(self, term, info):
        self.cases.append(term)
        self.info.append(info)


def check_dims(ctx, fmt, tabs, dims, dim_cases):
    for t, dm in zip(tabs, dims):
        want = (len(t), max((len(r) for r in t), default=0))
        if dm != want:
            ctx.finding(f"{fmt}-get_dim-not-shape", f"{fmt}: get_dim() {dm} is not the shape {want} of get_table()",
                        {"format": fmt, "table": t, "dim": dm})
        if all(isinstance(c, str) for r in t for c in r) and len(dim_cases) < 4000:
            dim_cases.append((t, dm))


def run(ctx):
    import logging
    logging.disable(logging.CRITICAL)
    rng = ctx.rng
    ctx.rule = ("structured cases = abstract grids (1..4 x 1..4(5), empty cells, multi-paragraph/multi-run cells, ragged rows, "
                "adjacent tables, typed values, run-length-encoded repeats around the 100 cap) rendered to real files per format; "
                "extra cases = trees/HTML outside the render grammar (nested tables, content controls, header rows, spans, "
                "annotations, script in cells); non-trivial = the implementation returned at least one non-empty table")
    ctx.trusted += [
        "G-dump: chr(c).isspace() set, tag/attribute constants of docx/pptx/ods/odt/odp extractors (prefix:local form), REMOVE_TAGS",
        "oracles (parameters of the model, recorded per case): is_ws, int(), float() classification, ElementTree parsing, "
        "html.parser tokenisation (+ _HtmlTreeBuilder tree for HTML), openpyxl iter_rows, xlrd cells (+ _get_cell_value(s))",
        "hand-written model of the table walkers (C13/Model.v), tied by the differential runs below",
        "harness writers (zip + XML templates, openpyxl for xlsx, strings for html/epub/rtf) and the Python mirrors of the "
        "Coq render functions — Coq re-checks `parsed tree = render doc` for every structured case",
        "XLS: _read_content is driven with an xlrd Book stand-in (no OLE2 writer), workbooks of both date systems (1900/1904) with "
        "recurring serials in one process; the expected native/header values of every cell are computed from xlrd alone "
        "(xls_expected_cell), not from the extractor's own cell functions",
        "process history: only what the run itself produces (many files per format in one process, both XLS date systems, repeated "
        "header texts / sheets); there is no fresh-interpreter replay of the sample in another order",
        "slide order: ODP _parse_odf_length_to_px is modelled bit-exactly in IEEE-754 binary64 (Coq SpecFloat; float(decimal) = correctly "
        "rounded digits/10^k, assumed < 2^53 digits, <= 22 decimals, ASCII digits) and tied by an exhaustive small-grammar correspondence; "
        "PPTX _get_shape_position is modelled over the tree with int() as oracle; bounded float theorems state their bound (d/100 unit, d <= 3000)",
        "DOCX table_anchor_paragraph_indices are modelled (docx_tables_anchored) and tied by the docxanchor correspondence; "
        "outside the model: PPTX/ODP text/picture handling of the same loops, group-relative offsets "
        "(a:chOff) which the extractor itself ignores, openpyxl/xlrd/ElementTree/html.parser parsing (third-party), PDF table heuristics (excluded by the property)",
        "RTF: regexes modelled as hand-written matchers (re_sub/re_find_all/re_split + one matcher per pattern), tied by "
        "document-, _strip_rtf_simple- and _extract_table_cells-level correspondences; assumes ASCII digits after \\u / control "
        "words and no code point that case-folds into ASCII or changes length under str.lower() (U+0130, U+0131, U+017F, U+212A); "
        "regex \\w set dumped as ranges (py_is_word)",
    ]
    ctx.assumptions += ["CPython 3.12 str/regex whitespace; int(str(n)) = n for the repeat counts the renderer writes"]
    gen_tables(ctx)
    table_type_inventory(ctx)

    ok1, _ = ctx.prove("C13/Props.v", timeout=400, deps=["C13/ProofsHtml.vo", "C13/ProofsOds.vo", "C13/ProofsSheets.vo", "C13/ProofsTree.vo", "C13/ProofsRtf.vo", "C13/ProofsOrder.vo", "C13/ProofsRows.vo", "C13/ProofsPos.vo", "C13/ProofsPptx.vo", "C13/ProofsAnchor.vo"],
                       expected=["C13_get_dim_is_shape", "C13_get_dim_rect", "C13_xls_get_dim_is_shape",
                                 "C13_docx_tables_flat", "C13_docx_adjacent", "C13_docx_tables_preorder", "C13_docx_toplevel_refuted", "C13_docx_table_wrapped_eq", "C13_docx_row_cells_wrapped", "C13_docx_tables_body_wrapped", "C13_docx_tables_direct_lost_wrapped",
                                 "C13_pptx_table_roundtrip", "C13_odt_tables_flat", "C13_odt_nested_refuted", "C13_odp_table_flat", "C13_odp_cell_comment_skipped",
                                 "C13_html_tables_roundtrip", "C13_html_adjacent", "C13_html_nested_refuted", "C13_html_multipara_refuted",
                                 "C13_epub_tables_roundtrip", "C13_epub_nested_refuted",
                                 "C13_ods_plain_roundtrip", "C13_ods_rle_roundtrip", "C13_ods_repeat_cap_refuted",
                                 "C13_xlsx_sheet_partial", "C13_xlsx_sheet_exact", "C13_xlsx_body_rows_in_place", "C13_xlsx_header_cell_kept", "C13_xlsx_header_cell_blank_renamed",
                                 "C13_docx_anchored_tables_are_tables", "C13_docx_anchors_nonneg_monotone", "C13_docx_anchors_render",
                                 "C13_xlsx_empty_header_refuted", "C13_xlsx_title_row_refuted",
                                 "C13_xlsx_typed_header_refuted", "C13_xlsx_date_header_refuted", "C13_xlsx_typed_values",
                                 "C13_ods_cell_comment_skipped", "C13_ods_nonfinite_kept_as_text",
                                 "C13_table_rows_through_wrappers", "C13_ods_sheet_wrapped", "C13_odp_table_wrapped", "C13_slide_frames_groups",
                                 "C13_odf_px_strictly_monotone_bounded", "C13_odf_px_equal_lengths_equal_keys_refuted", "C13_odf_px_cross_unit_order_partial",
                                 "C13_pptx_position_explicit", "C13_pptx_position_missing", "C13_pptx_table_at", "C13_pptx_slide_shapes_groups",
                                 "C13_pptx_slide_tables_perm", "C13_stable_sort_le_sorted_id",
                                 "C13_deck_tables_perm", "C13_deck_tables_source_order", "C13_slide_tables_same_position",
                                 "C13_rtf_tables_single", "C13_rtf_tables_single_gen", "C13_rtf_pad_rows_id", "C13_rtf_tables_long_separator", "C13_rtf_adjacent_tables_merged_refuted", "C13_rtf_get_dim",
                                 "C13_xls_sheet_partial", "C13_xls_sheets_independent", "C13_xls_duplicate_header_refuted",
                                 "C13_xls_header_only_refuted"])
    ctx.prove("C13/Inst.v", timeout=300, deps=["Gen/C13Tables.vo", "C13/Corr.vo", "C13/Witness.vo"], expected=["C13_live_tags_match"])
    ctx.prove("C13/InstRemove.v", timeout=300, deps=["Gen/C13Tables.vo"], expected=["C13_remove_tags_match", "C13_void_remove_tags_match"])
    ctx.prove("C13/InstSkip.v", timeout=300, deps=["Gen/C13Tables.vo"], expected=["C13_odf_skip_tags_match", "C13_span_not_skipped"])
    ctx.prove("C13/InstWs.v", timeout=300, deps=["Gen/C13Tables.vo"], expected=["C13_ws_ascii_agrees"])
    ctx.prove("C13/InstSets.v", timeout=300, deps=["Gen/C13Tables.vo"], expected=["C13_pptx_placeholder_types_match", "C13_row_wrappers_match"])
    ctx.prove("C13/InstRtf.v", timeout=300, deps=["Gen/C13Tables.vo", "C13/ProofsRtf.vo"], expected=["C13_rtf_special_chars_match", "C13_rtf_oracle_facts", "C13_rtf_tables_single_live", "C13_rtf_tables_single_gen_live"])

    n = ctx.n(60, 450)
    B = {}
    def batch(name, fn, ty):
        B[name] = Batch(name, fn, ty)
        return B[name]
    dim_cases = []
    T3 = "list (list (list str))"

    # ---------------- DOCX
    b_docx = batch("docx", "corr_docx", f"doc * xml * {T3}")
    b_docx_t = batch("docxtree", "corr_docx_tree", f"xml * {T3}")
    batch("docxanchor", "corr_docx_anchor", f"xml * {T3} * list Z")
    for i in range(n):
        nested = i % 4 == 3
        set_selfclose(SC_MODES[i % 3], rng)
        d = rdoc(rng, nested, ragged=(i % 5 == 0))
        tree, tabs, dims = docx_run(docx_file(docx_r_body(d)))
        check_dims(ctx, "docx", tabs, dims, dim_cases)
        b_docx.add(f"({coq_doc(d)}, {coq_nd(tree)}, {coq_tables(tabs)})", ("docx", d))
        docx_anchor_check(ctx, B, tree, tabs, d)
        ctx.case(("docx", d), any(tabs), "docx:nested" if nested else "docx:flat")
        want = spec_top(d)
        if tabs != want:
            if nested and tabs == spec_preorder(d):
                ctx.finding("docx-nested-table-flattened-text-duplicated",
                            "DOCX: a table inside a cell is returned as an extra top-level table and its text is repeated in the outer cell",
                            {"format": "docx", "doc": d, "got": tabs, "want": want})
            else:
                ctx.finding("docx-table-grid-mismatch", f"DOCX: iterate_tables() differs from the source grids: got {tabs!r} want {want!r}",
                            {"format": "docx", "doc": d, "got": tabs, "want": want})
    for i in range(n):
        body = docx_extra_tree(rng)
        tree, tabs, dims = docx_run(docx_file(body))
        check_dims(ctx, "docx", tabs, dims, dim_cases)
        b_docx_t.add(f"({coq_nd(tree)}, {coq_tables(tabs)})", ("docxtree", nd_xml(body)))
        docx_anchor_check(ctx, B, tree, tabs)
        ctx.case(("docxtree", nd_xml(body)), any(tabs), "docx:extra")
    # the structured documents again, with tables / rows / cells (and paragraphs) put inside content controls or w:customXml
    def docx_wrap(nd, depth=0):
        kind = rng.choice(["sdt", "sdt", "cx", "sdt2"])
        if kind == "cx":
            return E("w:customXml", [E("w:customXmlPr"), nd], attrs=[("w:element", "x")])
        inner = E("w:sdtContent", [nd if kind == "sdt" else E("w:customXml", [nd])])
        return E("w:sdt", [E("w:sdtPr", [E("w:alias")]), inner])
    def docx_wrap_some(parent, tags, p):
        out = []
        for c in parent.children:
            if c.tag == "w:tbl":
                for tr in c.children:
                    if tr.tag == "w:tr":
                        tr.children = [docx_wrap(tc) if (tc.tag == "w:tc" and rng.random() < p) else tc for tc in tr.children]
                c.children = [docx_wrap(tr) if (tr.tag == "w:tr" and rng.random() < p) else tr for tr in c.children]
            out.append(docx_wrap(c) if (c.tag in tags and rng.random() < p) else c)
        # sometimes several consecutive blocks share one wrapper
        if len(out) > 1 and rng.random() < 0.4:
            k = rng.randrange(len(out) - 1)
            out[k:k + 2] = [E("w:sdt", [E("w:sdtPr"), E("w:sdtContent", out[k:k + 2])])]
        parent.children = out
    set_selfclose("never")
    for i in range(n // 2):
        d = rdoc(rng, False, ragged=(i % 5 == 0))
        body = docx_r_body(d)
        docx_wrap_some(body, ("w:tbl", "w:p"), 0.5)
        tree, tabs, dims = docx_run(docx_file(body))
        check_dims(ctx, "docx", tabs, dims, dim_cases)
        b_docx_t.add(f"({coq_nd(tree)}, {coq_tables(tabs)})", ("docxwrap", nd_xml(body)))
        docx_anchor_check(ctx, B, tree, tabs)
        ctx.case(("docxwrap", nd_xml(body)), any(tabs), "docx:wrapped")
        if tabs != spec_top(d):
            ctx.finding("docx-wrapped-table-content-lost", f"DOCX: tables / rows / cells inside w:sdt or w:customXml are not all returned: got {tabs!r} want {spec_top(d)!r}",
                        {"format": "docx", "body_xml": nd_xml(body), "got": tabs, "want": spec_top(d)})
    # content-control wrapped table (block-level w:sdt), as Word writes it for repeating sections / building blocks
    sdt_body = E("w:body", [E("w:sdt", [E("w:sdtContent", [docx_r_ftable([[[["in sdt"]]]])])]), docx_r_para(["after"])])
    tree, tabs, dims = docx_run(docx_file(sdt_body))
    b_docx_t.add(f"({coq_nd(tree)}, {coq_tables(tabs)})", ("docxtree", "sdt"))
    if tabs != [[["in sdt"]]]:
        ctx.finding("docx-table-in-block-sdt-lost", "DOCX: a table wrapped in a block-level content control (w:sdt) is not returned",
                    {"format": "docx", "body_xml": nd_xml(sdt_body), "got": tabs, "want": [[["in sdt"]]]})
    sdt_row = E("w:body", [E("w:tbl", [E("w:tr", [E("w:tc", [docx_r_para(["h"])])]),
                                       E("w:sdt", [E("w:sdtContent", [E("w:tr", [E("w:tc", [docx_r_para(["row in sdt"])])])])])])])
    tree, tabs, dims = docx_run(docx_file(sdt_row))
    b_docx_t.add(f"({coq_nd(tree)}, {coq_tables(tabs)})", ("docxtree", "sdt-row"))
    if tabs != [[["h"], ["row in sdt"]]]:
        ctx.finding("docx-row-in-sdt-lost", "DOCX: a table row wrapped in a content control (w:sdt, repeating section) is dropped",
                    {"format": "docx", "body_xml": nd_xml(sdt_row), "got": tabs, "want": [[["h"], ["row in sdt"]]]})

    # ---------------- ODT
    b_odt = batch("odt", "corr_odt", f"doc * xml * {T3}")
    b_odt_t = batch("odttree", "corr_odt_tree", f"list (str * option Z) * xml * {T3}")
    for i in range(n):
        nested = i % 4 == 3
        set_selfclose(SC_MODES[i % 3], rng)
        d = rdoc(rng, nested, ragged=(i % 5 == 0))
        tree, tabs, dims = odt_run(odf_file(nd_xml(odt_r_body(d)), "text"))
        check_dims(ctx, "odt", tabs, dims, dim_cases)
        b_odt.add(f"({coq_doc(d)}, {coq_nd(tree)}, {coq_tables(tabs)})", ("odt", d))
        ctx.case(("odt", d), any(tabs), "odt:nested" if nested else "odt:flat")
        want = spec_top(d)
        if tabs != want:
            if nested:
                ctx.finding("odt-nested-table-rows-merged-into-outer",
                            "ODT: rows of a table inside a cell are merged into the outer table (table.iter(row) is recursive) and the nested table is listed again",
                            {"format": "odt", "doc": d, "got": tabs, "want": want})
            else:
                ctx.finding("odt-table-grid-mismatch", f"ODT: iterate_tables() differs from the source grids: got {tabs!r} want {want!r}",
                            {"format": "odt", "doc": d, "got": tabs, "want": want})
    for i in range(n):
        body = odt_extra_tree(rng)
        tree, tabs, dims = odt_run(odf_file(nd_xml(body), "text"))
        it = int_table(tree, {"text:c"})
        b_odt_t.add(f"({coq_int_table(it)}, {coq_nd(tree)}, {coq_tables(tabs)})", ("odttree", nd_xml(body)))
        ctx.case(("odttree", nd_xml(body)), any(tabs), "odt:extra")

    # ---------------- ODP
    b_odp = batch("odp", "corr_odp", "fgrid * xml * list (list str)")
    for i in range(n // 2):
        set_selfclose(SC_MODES[i % 3], rng)
        gs = [force_empties(rfgrid(rng, ragged=(i % 5 == 0)), rng, lambda: [[]] if rng.random() < 0.5 else []) for _ in range(rng.randint(1, 3))]
        tbls, tabs, dims = odp_run(odp_file([odf_r_ftable(g) for g in gs]))
        check_dims(ctx, "odp", tabs, dims, dim_cases)
        want = [[["\n".join(para_text(p) for p in c) for c in r] for r in g] for g in gs]
        ctx.case(("odp", gs), any(tabs), "odp")
        if tabs != want:
            ctx.finding("odp-table-grid-mismatch", f"ODP: iterate_tables() differs from the source grids: got {tabs!r} want {want!r}",
                        {"format": "odp", "grids": gs, "got": tabs, "want": want})
        if len(tabs) == len(gs):
            for g, t, r in zip(gs, tbls, tabs):
                b_odp.add(f"({coq_fgrid(g)}, {coq_nd(t)}, {coq_sgrid(r)})", ("odp", g))

    # ODP tables outside the render grammar: comments in cells, spans, header rows
    b_odp_t = batch("odptree", "corr_odp_tree", "list (str * option Z) * xml * list (list str)")
    set_selfclose("never")
    for i in range(n // 3):
        rows = []
        for _ in range(rng.randint(1, 3)):
            cells = []
            for _ in range(rng.randint(1, 3)):
                kids = []
                if rng.random() < 0.4:
                    kids.append(E("office:annotation", [E("dc:creator", text="me"), E("text:p", text="note " + rtext(rng, 0, 2, "ab"))]))
                kids += [odf_extra_para(rng) for _ in range(rng.randint(0, 2))]
                cells.append(E("table:table-cell", kids))
            rows.append(E("table:table-row", cells))
        if len(rows) > 1 and rng.random() < 0.4:
            rows = [E("table:table-header-rows", rows[:1])] + rows[1:]
        tb = E("table:table", [E("table:table-column")] + rows)
        tbls, tabs, dims = odp_run(odp_file([tb]))
        ctx.case(("odptree", nd_xml(tb)), any(tabs), "odp:extra")
        if len(tabs) == 1:
            b_odp_t.add(f"({coq_int_table(int_table(tbls[0], {'text:c'}))}, {coq_nd(tbls[0])}, {coq_sgrid(tabs[0])})", ("odptree", nd_xml(tb)))
        if any("note" in c for tt in tabs for r in tt for c in r):
            ctx.finding("odp-cell-comment-text-in-cell-value", "ODP: the text of a comment (office:annotation) inside a table cell appears in the cell text",
                        {"format": "odp", "table_xml": nd_xml(tb), "got": tabs})

    # ---------------- PPTX
    b_pptx = batch("pptx", "(corr_pptx py_is_ws)", "fgrid * xml * option (list (list str))")
    for i in range(n // 2):
        set_selfclose(SC_MODES[i % 3], rng)
        gs = [force_empties(rfgrid(rng, ragged=(i % 5 == 0)), rng, lambda: [[]] if rng.random() < 0.5 else []) for _ in range(rng.randint(1, 3))]
        frames, tabs, dims = pptx_run(pptx_file([pptx_r_frame(g) for g in gs]))
        check_dims(ctx, "pptx", tabs, dims, dim_cases)
        want = [[["\n".join(para_text(p) for p in c).strip() for c in r] for r in g] for g in gs]
        ctx.case(("pptx", gs), any(tabs), "pptx")
        if tabs != want:
            ctx.finding("pptx-table-grid-mismatch", f"PPTX: iterate_tables() differs from the source grids (cells stripped): got {tabs!r} want {want!r}",
                        {"format": "pptx", "grids": gs, "got": tabs, "want": want})
        if len(tabs) == len(gs):
            for g, f, r in zip(gs, frames, tabs):
                b_pptx.add(f"({coq_fgrid(g)}, {coq_nd(f)}, (Some {coq_sgrid(r)}))", ("pptx", g))

    # ---------------- ODS
    OT = "list (str * option Z) * list (str * fres) * list (list ocell) * xml * option (list (list val))"
    b_ods_p = batch("odsplain", "(corr_ods false)", OT)
    b_ods_r = batch("odsrle", "(corr_ods true)", OT)
    for i in range(2 * n):
        rle_mode = i % 2 == 1
        wide = rle_mode and i % 6 == 1
        set_selfclose(SC_MODES[(i // 2) % 3], rng)
        g = rogrid(rng, wide=wide)
        if not wide and rng.random() < 0.5:
            force_empties(g, rng, lambda: ("E",))
        sheet = ods_r_sheet(g, rle_mode)
        tbls, tabs, dims, err = ods_run(ods_file([sheet]))
        it, ft = int_table(tbls[0], {"table:number-columns-repeated", "table:number-rows-repeated", "text:c"}), flt_table(tbls[0])
        res = "None" if tabs is None else f"(Some {coq_vgrid(tabs[0])})"
        (b_ods_r if rle_mode else b_ods_p).add(
            f"({coq_int_table(it)}, {coq_flt_table(ft)}, {coq_list([coq_list([coq_ocell(c) for c in r]) for r in g])}, {coq_nd(tbls[0])}, {res})",
            ("ods", g))
        ctx.case(("ods", rle_mode, g), bool(tabs and tabs[0]), "ods:rle-wide" if wide else ("ods:rle" if rle_mode else "ods:plain"))
        if tabs is None:
            ctx.finding("ods-non-finite-number-aborts-extraction",
                        f"ODS: read_ods fails for the whole file on a generated sheet ({err}); a non-finite office:value (1e400, inf) must be kept as text",
                        {"format": "ods", "grid": g, "error": err})
            continue
        check_dims(ctx, "ods", tabs, dims, dim_cases)
        spec = [[ocell_spec(c) for c in r] for r in g]
        # trailing empty rows / columns are outside the used range
        while spec and all(v is None for v in spec[-1]):
            spec.pop()
        w = max((max((j + 1 for j, v in enumerate(r) if v is not None), default=0) for r in spec), default=0)
        spec = [(r + [None] * w)[:w] for r in spec]
        got = [[val_canon(v) for v in r] for r in tabs[0]]
        if got != [[val_canon(v) for v in r] for r in spec]:
            long_empty = any(n_ > 100 and ocell_spec(c) is None for r in g for c, n_ in rle(r))
            if rle_mode and long_empty:
                ctx.finding("ods-empty-run-over-100-collapsed",
                            "ODS: more than 100 repeated empty cells are collapsed to one, shifting every later cell of the row to the left",
                            {"format": "ods", "grid": g, "got": tabs[0], "want": spec})
            else:
                ctx.finding("ods-sheet-grid-mismatch", f"ODS: sheet data differs from the source grid: got {tabs[0]!r} want {spec!r}",
                            {"format": "ods", "grid": g, "rle": rle_mode, "got": tabs[0], "want": spec})
    # several sheets in one file, the later ones repeating the first (second occurrence of the same content)
    set_selfclose("never")
    for i in range(n // 6):
        gs = [rogrid(rng)]
        for _ in range(rng.randint(1, 2)):
            gs.append([list(r) for r in gs[0]] if rng.random() < 0.6 else rogrid(rng))
        tbls, tabs, dims, err = ods_run(ods_file([ods_r_sheet(g, i % 2 == 1) for g in gs]))
        ctx.case(("ods-multi", repr(gs)), bool(tabs), "ods:multi-sheet")
        if tabs is None or len(tabs) != len(gs):
            ctx.finding("ods-sheet-count-mismatch", f"ODS: {len(gs)} sheets in, {None if tabs is None else len(tabs)} tables out ({err})", {"format": "ods", "grids": repr(gs)})
            continue
        for si, (g, tb, got) in enumerate(zip(gs, tbls, tabs)):
            it, ft = int_table(tb, {"table:number-columns-repeated", "table:number-rows-repeated", "text:c"}), flt_table(tb)
            (b_ods_r if i % 2 == 1 else b_ods_p).add(
                f"({coq_int_table(it)}, {coq_flt_table(ft)}, {coq_list([coq_list([coq_ocell(c) for c in r]) for r in g])}, {coq_nd(tb)}, (Some {coq_vgrid(got)}))",
                ("ods-multi", si))
            spec = [[ocell_spec(c) for c in r] for r in g]
            while spec and all(v is None for v in spec[-1]):
                spec.pop()
            w = max((max((j + 1 for j, v in enumerate(r) if v is not None), default=0) for r in spec), default=0)
            spec = [(r + [None] * w)[:w] for r in spec]
            if [[val_canon(v) for v in r] for r in got] != [[val_canon(v) for v in r] for r in spec]:
                ctx.finding("ods-sheet-grid-mismatch", f"ODS: sheet {si + 1} of {len(gs)} differs from its source grid: got {got!r} want {spec!r}",
                            {"format": "ods", "sheet_index": si, "grids": repr(gs), "got": repr(got), "want": repr(spec)})
    # hand-made sheets: row repeats, annotations, spans, covered cells
    b_ods_t = batch("odstree", "corr_ods_tree", "list (str * option Z) * list (str * fres) * xml * option (list (list val))")
    def scell(t, rep=None, extra=None):
        a = [("table:number-columns-repeated", rep)] if rep else []
        return E("table:table-cell", ([E("text:p", text=t)] if t is not None else []) + (extra or []),
                 attrs=a + ([("office:value-type", "string")] if t is not None else []))
    specials = []
    for rr in ["2", "100", "101", "102", "0", "x"]:
        specials.append(("row-repeat-" + rr, E("table:table", [
            E("table:table-row", [scell("A")]),
            E("table:table-row", [scell(None)], attrs=[("table:number-rows-repeated", rr)]),
            E("table:table-row", [scell("B")])]), rr))
    specials.append(("annotation", E("table:table", [E("table:table-row", [
        scell("value", extra=[E("office:annotation", [E("dc:creator", text="me"), E("text:p", text="a comment")])]), scell("x")])]), None))
    specials.append(("span", E("table:table", [E("table:table-row", [
        E("table:table-cell", [E("text:p", [E("text:span", text="bold", tail=" tail"), E("text:s", attrs=[("text:c", "3")]), E("text:tab"),
                                               E("text:line-break", tail="end")], text="pre ")], attrs=[("office:value-type", "string")])])]), None))
    for i in range(n // 2):
        rows = []
        for _ in range(rng.randint(1, 4)):
            cells = []
            for _ in range(rng.randint(0, 4)):
                c = rocell(rng)
                nd = ods_r_cell(c, 1)
                if rng.random() < 0.4:
                    nd.attrs.insert(0, ("table:number-columns-repeated", rng.choice(["2", "3", "99", "100", "101", "0", "1", "-2", "x", "1000"])))
                if c[0] == "S" and rng.random() < 0.3:
                    nd.children = [odf_extra_para(rng) for _ in range(rng.randint(1, 2))]
                cells.append(nd)
            ra = [("table:number-rows-repeated", rng.choice(["2", "3", "100", "101", "150"]))] if rng.random() < 0.3 else []
            rows.append(E("table:table-row", cells, attrs=ra))
        specials.append(("rand", E("table:table", rows), None))
    for name, sheet, par in specials:
        tbls, tabs, dims, err = ods_run(ods_file([sheet]))
        it, ft = int_table(tbls[0], {"table:number-columns-repeated", "table:number-rows-repeated", "text:c"}), flt_table(tbls[0])
        res = "None" if tabs is None else f"(Some {coq_vgrid(tabs[0])})"
        b_ods_t.add(f"({coq_int_table(it)}, {coq_flt_table(ft)}, {coq_nd(tbls[0])}, {res})", ("odstree", name, nd_xml(sheet)))
        ctx.case(("odstree", nd_xml(sheet)), bool(tabs and tabs[0]), "ods:extra")
        if name.startswith("row-repeat-") and par.isdigit() and int(par) >= 1 and tabs is not None:
            want_rows = 2 + int(par)
            if len(tabs[0]) != want_rows:
                ctx.finding("ods-empty-row-repeat-over-100-collapsed",
                            "ODS: more than 100 repeated empty rows are collapsed to one row, moving every later row up",
                            {"format": "ods", "sheet_xml": nd_xml(sheet), "rows_got": len(tabs[0]), "rows_want": want_rows})
        if name == "annotation" and tabs is not None and tabs[0] != [["value", "x"]]:
            ctx.finding("ods-cell-comment-text-in-cell-value",
                        "ODS: the text of a cell comment (office:annotation) is prepended to the cell's value (cell.iter(text:p) descends into the annotation)",
                        {"format": "ods", "sheet_xml": nd_xml(sheet), "got": tabs[0], "want": [["value", "x"]]})

    # ---------------- HTML
    b_html = batch("html", "(corr_html py_is_ws)", f"str * list hblock * xml * {T3}")
    b_html_t = batch("htmltree", "(corr_html_tree py_is_ws)", f"xml * {T3}")
    for i in range(n):
        kind = ["simple", "simple", "nested", "paras"][i % 4]
        set_selfclose(SC_MODES[i % 3], rng)
        d = rhdoc(rng, kind)
        for b in d:
            if b[0] == "t" and kind == "simple" and rng.random() < 0.6:
                force_empties(b[1], rng, lambda: ("x", "", []))
        w = rng.choice(["", "\n", "\n  ", " "])
        root = html_r_root(w, d)
        src = "<!DOCTYPE html>" + html_src(root)
        tree, tabs, dims = html_run(src)
        check_dims(ctx, "html", tabs, dims, dim_cases)
        b_html.add(f"({coq_str(w)}, {coq_hdoc(d)}, {coq_nd(tree)}, {coq_tables(tabs)})", ("html", d, src))
        ctx.case(("html", src), any(tabs), "html:" + kind)
        want = html_spec(d)
        if tabs != want:
            feats = {c[0] for b in d if b[0] == "t" for r in b[1] for c in r}
            if "n" in feats:
                ctx.finding("html-nested-table-rows-merged-into-outer",
                            "HTML: rows of a table inside a cell become extra rows of the outer table (_find_nodes is recursive); the nested table itself is not returned",
                            {"format": "html", "html": src, "got": tabs, "want": want})
            elif "ps" in feats:
                ctx.finding("html-multi-paragraph-cell-words-glued",
                            "HTML: paragraphs inside a table cell are concatenated without a separator (<td><p>Hello</p><p>World</p></td> -> 'HelloWorld')",
                            {"format": "html", "html": src, "got": tabs, "want": want})
            else:
                ctx.finding("html-table-grid-mismatch", f"HTML: iterate_tables() differs from the source grids: got {tabs!r} want {want!r}",
                            {"format": "html", "html": src, "got": tabs, "want": want})
    for i in range(n // 2):
        # header rows: the same simple grids with <th> cells in the first row of every table (and a thead/tbody split)
        d = rhdoc(rng, "simple")
        parts = []
        for b in d:
            if b[0] == "p":
                parts.append("<p>" + htmlmod.escape(b[1], quote=False) + "</p>")
                continue
            rows = []
            for ri, r in enumerate(b[1]):
                tg = "th" if ri == 0 else "td"
                rows.append("<tr>" + "".join(f"<{tg}>" + htmlmod.escape(c[1], quote=False) + "".join(
                    f"<{a}>" + htmlmod.escape(x, quote=False) + f"</{a}>" + htmlmod.escape(u, quote=False) for a, x, u in c[2]) + f"</{tg}>" for c in r) + "</tr>")
            parts.append("<table><thead>" + rows[0] + "</thead><tbody>" + "".join(rows[1:]) + "</tbody></table>" if i % 2 else "<table>" + "".join(rows) + "</table>")
        src = "<html><body>" + "".join(parts) + "</body></html>"
        tree, tabs, dims = html_run(src)
        b_html_t.add(f"({coq_nd(tree)}, {coq_tables(tabs)})", ("htmlth", src))
        ctx.case(("htmlth", src), any(tabs), "html:th")
        if tabs != html_spec(d):
            ctx.finding("html-table-grid-mismatch", f"HTML: iterate_tables() differs from the source grids (th header row): got {tabs!r} want {html_spec(d)!r}",
                        {"format": "html", "html": src, "got": tabs, "want": html_spec(d)})
    CONTAINERS = [('<a href="https://example.org/x">', "</a>"), ('<a href="#t"><span>', "</span></a>"), ("<span>", "</span>"), ("<b><i>", "</i></b>"),
                  ("<blockquote>", "</blockquote>"), ("<section><article>", "</article></section>"), ("<form>", "</form>"), ("<label>", "</label>"),
                  ("<details><summary>s</summary>", "</details>"), ('<div><a href="y">', "</a></div>"), ("<center>", "</center>"), ("<p>", "</p>")]
    for i in range(n // 2):
        # simple grids, every table wrapped in a link or another container element (HTML5 block links, cards)
        d = rhdoc(rng, "simple")
        parts = []
        for b in d:
            if b[0] == "p":
                parts.append("<p>" + htmlmod.escape(b[1], quote=False) + "</p>")
                continue
            rows = "".join("<tr>" + "".join("<td>" + htmlmod.escape(c[1], quote=False) + "".join(
                f"<{a}>" + htmlmod.escape(x, quote=False) + f"</{a}>" + htmlmod.escape(u, quote=False) for a, x, u in c[2]) + "</td>" for c in r) + "</tr>" for r in b[1])
            o, cl = CONTAINERS[(i + len(parts)) % len(CONTAINERS)]
            parts.append(o + "<table>" + rows + "</table>" + cl)
        src = "<html><body>" + "".join(parts) + "</body></html>"
        tree, tabs, dims = html_run(src)
        b_html_t.add(f"({coq_nd(tree)}, {coq_tables(tabs)})", ("htmlwrap", src))
        ctx.case(("htmlwrap", src), any(tabs), "html:in-container")
        if tabs != html_spec(d):
            ctx.finding("html-table-in-container-mismatch", f"HTML: tables inside links / inline / block containers: got {tabs!r} want {html_spec(d)!r}",
                        {"format": "html", "html": src, "got": tabs, "want": html_spec(d)})
    for i in range(n):
        src = html_extra_src(rng)
        tree, tabs, dims = html_run(src)
        check_dims(ctx, "html", tabs, dims, dim_cases)
        b_html_t.add(f"({coq_nd(tree)}, {coq_tables(tabs)})", ("htmltree", src))
        ctx.case(("htmltree", src), any(tabs), "html:extra")

    # ---------------- EPUB
    set_selfclose("never")
    b_epub = batch("epub", "(corr_epub py_is_ws)", f"list event * {T3}")
    for i in range(n):
        kind = ["simple", "simple", "nested", "inline"][i % 4]
        if kind == "simple":
            gs = [force_empties([[rtext(rng, 0, 4, HALPHA) for _ in range(rng.randint(1, 4))] for _ in range(rng.randint(1, 4))], rng, lambda: "")
                  for _ in range(rng.randint(1, 3))]
            def ecell(c, tg):
                if c == "":
                    return rng.choice([f"<{tg}/>", f"<{tg}></{tg}>", f"<{tg}> </{tg}>", f"<{tg} />"])
                return f"<{tg}>" + htmlmod.escape(c, quote=False) + f"</{tg}>"
            body = "".join("<p>x</p><table>" + "".join("<tr>" + "".join(ecell(c, "th" if (ri == 0 and i % 8 == 0) else "td") for c in r) + "</tr>"
                                                           for ri, r in enumerate(g)) + "</table>" for g in gs)
            want = [[[" ".join(c.split()) for c in r] for r in g] for g in gs]
        elif kind == "nested":
            body = "<table><tr><td>a</td><td><table><tr><td>n</td></tr></table></td></tr><tr><td>b</td><td>c</td></tr></table>"
            want = [[["a", ""], ["b", "c"]]]
        else:
            w1, w2 = rtext(rng, 1, 3, "abc"), rtext(rng, 1, 3, "abc")
            body = f"<table><tr><td>{w1}<b>{w2}</b></td></tr></table>"
            want = [[[w1 + w2]]]
        evs, tabs, dims = epub_run([xhtml(body)])
        check_dims(ctx, "epub", tabs, dims, dim_cases)
        b_epub.add(f"({coq_events(evs)}, {coq_tables(tabs)})", ("epub", body))
        ctx.case(("epub", body), any(tabs), "epub:" + kind)
        if tabs != want:
            if kind == "nested":
                ctx.finding("epub-nested-table-outer-table-lost",
                            "EPUB: a table inside a cell resets the table state; the outer table is lost and only the nested one is returned",
                            {"format": "epub", "xhtml_body": body, "got": tabs, "want": want})
            elif kind == "inline":
                ctx.finding("epub-inline-markup-in-cell-inserts-space",
                            "EPUB: inline markup inside a cell splits the text and a space is inserted (<td>foo<b>bar</b></td> -> 'foo bar')",
                            {"format": "epub", "xhtml_body": body, "got": tabs, "want": want})
            else:
                ctx.finding("epub-table-grid-mismatch", f"EPUB: iterate_tables() differs from the source grids: got {tabs!r} want {want!r}",
                            {"format": "epub", "xhtml_body": body, "got": tabs, "want": want})
    for i in range(n // 2):
        body = html_extra_src(rng).replace("<html>", "").replace("</html>", "").replace("<body>", "").replace("</body>", "")
        body = re.sub(r"<head>.*?</head>", "", body)
        evs, tabs, dims = epub_run([xhtml(body), xhtml("<table><tr><td>second chapter</td></tr></table>")])
        b_epub.add(f"({coq_events(evs)}, {coq_tables(tabs)})", ("epub", body))
        ctx.case(("epub-extra", body), any(tabs), "epub:extra")

    # ---------------- XLSX
    b_xlsx = batch("xlsx", "(corr_xlsx py_is_ws)", "list (list xcell) * list (list val)")
    for i in range(n // 2):
        mode = "clean" if i % 2 == 0 else "any"
        grids = [rxgrid(rng, mode) for _ in range(rng.randint(1, 3))]
        seen, tabs, dims = xlsx_run(grids)
        check_dims(ctx, "xlsx", tabs, dims, dim_cases)
        for g, sg, t in zip(grids, seen, tabs):
            b_xlsx.add(f"({coq_list([coq_list([coq_xcell(v) for v in r]) for r in sg])}, {coq_vgrid(t)})", ("xlsx", g))
            ctx.case(("xlsx", repr(g)), bool(t), "xlsx:" + mode)
            want = xlsx_expected(sg)   # the grid as openpyxl read it back (xlsx has no date-only cell type)
            if [[val_canon(v) for v in r] for r in t] != [[val_canon(v) for v in r] for r in want]:
                wc = [[val_canon(v) for v in r] for r in want]
                gc = [[val_canon(v) for v in r] for r in t]
                if len(gc) == len(wc) - 1 and gc == wc[1:]:
                    key, what = "xlsx-first-row-with-single-value-dropped", "XLSX: a first row with exactly one non-empty cell (width > 1) is dropped from the table (_is_table_name_row)"
                elif len(gc) == len(wc) and gc[1:] == wc[1:]:
                    first_w, first_g = wc[0], gc[0]
                    if any(a[0] == "VNone" or (a[0] == "VStr" and not a[1].strip()) for a in first_w):
                        key, what = "xlsx-empty-header-cell-becomes-unnamed", "XLSX: an empty cell in the first row is returned as the invented text 'Unnamed: i'"
                    else:
                        key, what = "xlsx-first-row-values-stringified", "XLSX: typed values in the first row are returned as str(value) (numbers, booleans; dates as 'YYYY-MM-DD HH:MM:SS' instead of ISO)"
                else:
                    key, what = "xlsx-sheet-grid-mismatch", f"XLSX: sheet data differs from the source grid: got {t!r} want {want!r}"
                ctx.finding(key, what, {"format": "xlsx", "grid": repr(g), "got": repr(t), "want": repr(want)})

    # ---------------- XLS
    b_xls = batch("xls", "corr_xls", "list (list lcell) * list (list val) * (nat * nat)")
    import xlrd
    from xlrd.sheet import Cell
    b_xls_wb = batch("xlswb", "corr_xls_wb", "list (list (list lcell)) * list (list (list val))")
    for i in range(n // 2):
        # a workbook of 1-3 sheets; later sheets often repeat the header texts of the first (one sheet per month/region)
        wb = []
        for si in range(rng.choice([1, 2, 2, 3])):
            r, c = rng.randint(1, 4), rng.randint(1, 4)
            g = [[xls_cells(rng) for _ in range(c)] for _ in range(r)]
            if i % 2 == 0:
                g[0] = [Cell(xlrd.XL_CELL_TEXT, f"h{j}") for j in range(c)]
            elif si > 0 and rng.random() < 0.6:
                g[0] = [Cell(wb[0][0][j].ctype, wb[0][0][j].value) if j < len(wb[0][0]) else xls_cells(rng) for j in range(c)]
            wb.append(g)
        dm_ = rng.choice([0, 0, 1])          # the workbook's date system (1900 / 1904); serials recur across workbooks
        per, tabs, dims = xls_run(wb, dm_)
        b_xls_wb.add("(" + coq_list([coq_list([coq_list([f"{{| lc_native := {coq_val(nv)}; lc_header := {coq_str(hs)} |}}" for nv, hs in row]) for row in pg]) for pg in per])
                     + ", " + coq_list([coq_vgrid(t) for t in tabs]) + ")", ("xlswb", repr(per)))
        for si, (pg, t, dm) in enumerate(zip(per, tabs, dims)):
            b_xls.add("(" + coq_list([coq_list([f"{{| lc_native := {coq_val(nv)}; lc_header := {coq_str(hs)} |}}" for nv, hs in row]) for row in pg])
                      + f", {coq_vgrid(t)}, ({dm[0]}%nat, {dm[1]}%nat))", ("xls", si, repr(per)))
            ctx.case(("xls", si, repr(per)), bool(t), "xls:sheet%d" % min(si, 2))
            want = [[hs for _, hs in pg[0]]] + [[nv for nv, _ in row] for row in pg[1:]]
            if [[val_canon(v) for v in row] for row in t] != [[val_canon(v) for v in row] for row in want]:
                heads = [hs for _, hs in pg[0]]
                if len(pg) == 1:
                    ctx.finding("xls-header-only-sheet-returns-empty-table", "XLS: a sheet with a single row yields get_table() == [] (rows are stored as dicts of the rows below the header)",
                                {"format": "xls", "grid": repr(pg), "got": repr(t), "want": repr(want)})
                elif len(set(heads)) != len(heads):
                    ctx.finding("xls-duplicate-header-text-collapses-columns", "XLS: columns whose first-row texts are equal collapse into one (rows are dicts keyed by header text); the last value wins",
                                {"format": "xls", "grid": repr(pg), "got": repr(t), "want": repr(want)})
                else:
                    ctx.finding("xls-sheet-grid-mismatch", f"XLS: sheet {si + 1} of {len(wb)} (date system {1900 + 4 * dm_}, workbook #{i + 1} of this process) differs from its source grid: got {t!r} want {want!r} (all sheets: {[[hs for _, hs in q[0]] for q in per]!r})",
                                {"format": "xls", "sheet_index": si, "datemode": dm_, "workbook": repr(per), "got": repr(t), "want": repr(want)})
            if (dm[0], dm[1]) != (len(t), max((len(x) for x in t), default=0)):
                ctx.finding("xls-get_dim-not-shape", f"XLS: get_dim() {dm} is not the shape of get_table()", {"format": "xls", "grid": repr(pg)})
        if len(tabs) != len(wb):
            ctx.finding("xls-sheet-count-mismatch", f"XLS: {len(wb)} sheets in, {len(tabs)} tables out", {"format": "xls", "workbook": repr(per)})

    # ---------------- RTF
    from sharepoint2text.parsing.extractors.ms_legacy import rtf_extractor as RTF
    T3r = "list (list (list str))"
    b_rtf = batch("rtf", "(corr_rtf py_is_ws py_is_word)", f"list rblock * str * {T3r}")
    b_rtf_t = batch("rtftext", "(corr_rtf_text py_is_ws py_is_word)", f"str * {T3r}")
    b_rtf_s = batch("rtfstrip", "(corr_rtf_strip py_is_ws)", "str * str")
    batch("rtfgen", "(corr_rtf_gen py_is_ws py_is_word)", f"bool * str * list (list str) * str * {T3r}")
    b_rtf_c = batch("rtfcells", "(corr_rtf_cells py_is_ws py_is_word)", "str * list str")
    RW = ["a", "b", "Z", "9", "x y", "caf\u00e9", "\u4e2d", "Total", "q-1", "7.5", "ab cd ef"]
    def rplain(lo=1, hi=3):
        return " ".join(rng.choice(RW) for _ in range(rng.randint(lo, hi)))
    def coq_rdoc(d):
        return coq_list([f"(RPara {coq_str(b[1])})" if b[0] == "p" else f"(RTable {coq_sgrid(b[1])})" for b in d])
    def rtf_render(d):
        out = "{\\rtf1\\ansi "
        for b in d:
            if b[0] == "p":
                out += "\\pard " + b[1] + "\\par\n"
            else:
                for r in b[1]:
                    out += "\\trowd" + "".join(" " + c + "\\cell" for c in r) + "\\row\n"
        return out + "}"
    def rtf_impl(text):
        try:
            return tables_of(next(iter(RTF.read_rtf(io.BytesIO(text.encode("utf-8"))))))
        except Exception as e:  # noqa
            return None, repr(e)
    rtf_fixed = [[("t", [["a", "b"]]), ("p", "Table 2"), ("t", [["c", "d"]])],      # Coq: rtf_adjacent_witness
                 [("t", [["a"]]), ("t", [["c"]])],                                   # rtf_adjacent_direct_witness
                 [("p", "Intro"), ("t", [["a b", "c"], ["d", "e"]]), ("p", "End")],  # rtf_single_witness
                 [("t", [["a", "b"]]), ("p", "a" * 95), ("t", [["c", "d"]])]]         # rtf_long_separator_witness
    for i in range(n + len(rtf_fixed)):
        d = []
        if i >= n:
            d = rtf_fixed[i - n]
        elif rng.random() < 0.7:
            d.append(("p", rplain()))
        nt = rng.randint(1, 3) if i < n else 0
        for k in range(nt):
            d.append(("t", [[rplain(1, 2) if rng.random() < 0.9 else "" for _ in range(rng.randint(1, 4) if i % 5 == 0 else 3)]
                            for _ in range(rng.randint(1, 3))]))
            if k < nt - 1:
                sepk = rng.random()
                if sepk < 0.4:
                    d.append(("p", " ".join(rng.choice(RW) for _ in range(40))))      # long separating paragraph
                elif sepk < 0.7:
                    d.append(("p", rplain()))                                           # short one
        if i < n and rng.random() < 0.5:
            d.append(("p", rplain()))
        text = rtf_render(d)
        tabs, dims = rtf_impl(text)
        if tabs is None:
            ctx.finding("rtf-extraction-raised", f"RTF: read_rtf raised on a generated document: {dims}", {"format": "rtf", "rtf": text})
            continue
        check_dims(ctx, "rtf", tabs, dims, dim_cases)
        b_rtf.add(f"({coq_rdoc(d)}, {coq_str(text)}, {coq_tables(tabs)})", ("rtf", text))
        ctx.case(("rtf", text), any(tabs), "rtf")
        want = []
        for b in d:
            if b[0] == "t":
                w = max(len(r) for r in b[1])
                want.append([r + [""] * (w - len(r)) for r in b[1]])
        if tabs != want:
            def unpad(r):
                r = list(r)
                while r and r[-1] == "":
                    r.pop()
                return r
            if len(tabs) < len(want) and [unpad(r) for tb in tabs for r in tb] == [unpad(r) for tb in want for r in tb]:
                ctx.finding("rtf-adjacent-tables-merged",
                            "RTF: two tables separated by a short paragraph (< 100 source characters / <= 20 text characters) are returned as one table",
                            {"format": "rtf", "rtf": text, "got": tabs, "want": want})
            else:
                ctx.finding("rtf-table-grid-mismatch", f"RTF: iterate_tables() differs from the source grids: got {tabs!r} want {want!r}",
                            {"format": "rtf", "rtf": text, "got": tabs, "want": want})
    # the same kind of grids in the syntax word processors write (\\cellxN definitions, \\intbl), long separators: oracle + text-level model
    for i in range(n // 3):
        gs = [[[rplain(1, 2) for _ in range(rng.randint(1, 4))] for _ in range(rng.randint(1, 3))] for _ in range(rng.randint(1, 2))]
        text = rtf_doc(gs, "\\pard " + "A long separating paragraph between the tables, well over one hundred characters in the source text. " * 2 + "\\par\n",
                       row_sep=rng.choice(["\n", "", " ", "\\pard"]))
        tabs, dims = rtf_impl(text)
        if tabs is None:
            ctx.finding("rtf-extraction-raised", f"RTF: read_rtf raised on a generated document: {dims}", {"format": "rtf", "rtf": text})
            continue
        b_rtf_t.add(f"({coq_str(text)}, {coq_tables(tabs)})", ("rtfcellx", text))
        ctx.case(("rtfcellx", text), any(tabs), "rtf:cellx")
        want = [[r + [""] * (max(len(x) for x in g) - len(r)) for r in g] for g in gs]
        if tabs != want:
            ctx.finding("rtf-table-grid-mismatch", f"RTF (\\cellx syntax): iterate_tables() differs from the source grids: got {tabs!r} want {want!r}",
                        {"format": "rtf", "rtf": text, "got": tabs, "want": want})
    # RTF outside the render grammar: real-world row syntax, groups, escapes, word-boundary traps
    TOK = ["\\trowd", "\\trowd\\trgaph108", "\\cellx2000", "\\cellx4000 ", "\\intbl ", "\\cell", "\\cell ", "\\cell\n", "\\row", "\\row\n",
           "\\pard", "\\pard ", "\\par", "\\par ", "\\par\n", "\\plain ", "{\\b bold}", "{\\i\\fs24 it}", "{\\*\\bkmkstart x}", "{\\pict 00ff}",
           "{\\object{\\nested x}y}", "\\'e9", "\\'41", "\\'zz", "\\u8364?", "\\u8364 ", "\\u-10179?\\u-8704?", "\\u55357?\\u56832?", "\\u56832?",
           "\\u70000?", "\\~", "\\~ ", "\\-", "\\_", "\\tab ", "\\tab", "\\line ", "\\emdash ", "\\bullet\\tab ", "\\lquote x\\rquote ",
           "\\rows", "\\cells", "\\rowx", "\\trowd1", "\\row1 ", "\\fs-20 ", "\\li720-", " ", "  ", "\t", "\n", "\n\n\n\n", "{", "}", "word", "A", "z9",
           "0123456789abcdef" * 4, "0123456789ABCDEF" * 3, "caf\u00e9", "\u4e2d", "\\page ", "\\sect\\sectd ", "x" * 60, "lorem ipsum dolor " * 4]
    for i in range(n):
        body = "".join(rng.choice(TOK) for _ in range(rng.randint(3, 40)))
        if i % 3 == 0:
            # realistic rows with \cellx definitions and \intbl, random separators
            body = ""
            for k in range(rng.randint(1, 3)):
                for _ in range(rng.randint(1, 3)):
                    nc = rng.randint(1, 3)
                    body += "\\trowd" + "".join(f"\\cellx{(j + 1) * 2000}" for j in range(nc)) + "\n"
                    body += "".join("\\intbl " + rng.choice(TOK[20:45] + RW) + "\\cell " for _ in range(nc)) + "\\row\n"
                body += rng.choice(["", "\\pard\\par\n", "\\pard " + "filler text " * rng.randint(1, 12) + "\\par\n"])
        text = "{\\rtf1\\ansi\\deff0 " + body + "}"
        tabs, dims = rtf_impl(text)
        if tabs is None:
            ctx.count("rtf:extra-raised")
            continue
        check_dims(ctx, "rtf", tabs, dims, dim_cases)
        b_rtf_t.add(f"({coq_str(text)}, {coq_tables(tabs)})", ("rtftext", text))
        ctx.case(("rtftext", text), any(tabs), "rtf:extra")
        parser = RTF._RtfParser(b"")
        frag = "".join(rng.choice(TOK) for _ in range(rng.randint(1, 12)))
        b_rtf_s.add(f"({coq_str(frag)}, {coq_str(parser._strip_rtf_simple(frag))})", ("rtfstrip", frag))
        b_rtf_c.add(f"({coq_str(frag)}, {coq_list([coq_str(c) for c in parser._extract_table_cells(frag)])})", ("rtfcells", frag))

    # ---------------- witnesses of the refuted statements, on the real code
    witnesses(ctx, lambda name, fn, ty: B[name] if name in B else batch(name, fn, ty))

    # ---------------- decks: order of frames / shapes; position parsers
    deck_cases(ctx, batch, n // 2)
    odf_px_cases(ctx, batch)
    odf_px_witness(ctx, B)

    # ---------------- fixed cases
    fixed_cases(ctx, B, dim_cases)

    # ---------------- the result must not depend on logging level, thread, time zone or cwd
    import common
    ecases = env_cases(ctx)
    for fmt in sorted({c[0] for c in ecases}):
        common.env_sweep(ctx, "tables:" + fmt, env_result, [c for c in ecases if c[0] == fmt],
                         variants=tuple(common.ENV_VARIANTS) + ("tz-berlin",), describe=lambda c: f"{c[0]} file of {len(c[1])} bytes")
    # XLS: the stand-in workbook path (no file): same sweep on the sheet grids
    def xls_env(case):
        return repr(xls_run(case, len(case) % 2)[1:])
    xls_wbs = [[[[xls_cells(rng) for _ in range(3)] for _ in range(3)] for _ in range(rng.randint(1, 2))] for _ in range(ctx.n(10, 30))]
    common.env_sweep(ctx, "tables:xls", xls_env, xls_wbs, describe=lambda c: f"xls workbook of {len(c)} sheets")

    # ---------------- get_dim and whitespace glue
    b_dim = batch("dim", "corr_dim", "list (list str) * (nat * nat)")
    for t, dm in dim_cases[: ctx.n(400, 3000)]:
        b_dim.add(f"({coq_sgrid(t)}, ({dm[0]}%nat, {dm[1]}%nat))", ("dim", t))
    b_norm = batch("norm", "(corr_norm py_is_ws)", "str * str * str")
    for i in range(ctx.n(300, 3000)):
        x = rtext(rng, 0, 8, HALPHA + ["\x0b", "\x0c", "\x1c", "\x85", "\u2028", "\u3000", "\u200b", "\ufeff"])
        b_norm.add(f"({coq_str(x)}, {coq_str(x.strip())}, {coq_str(py_norm(x))})", ("norm", x))

    # ---------------- let Coq compare
    total = 0
    from concurrent.futures import ThreadPoolExecutor
    todo = [(name, b) for name, b in B.items() if b.cases]
    ctx.extra["t_impl_s"] = round(__import__("time").time() - ctx.t0, 1)
    with ThreadPoolExecutor(max_workers=8) as ex:
        results = list(ex.map(lambda nb: coq_eval_shards(ctx, nb[0], PRE, nb[1].fn, nb[1].cases, shard=150, ty=nb[1].ty), todo))
    for (name, b), (ok, failing, log) in zip(todo, results):
        total += len(b.cases)
        ctx.traces += len(b.cases)
        ctx.disagreements += len(failing)
        first = repr(b.info[failing[0]])[:600] if failing else ""
        ctx.obligation(f"correspondence:{name} model==implementation ({len(b.cases)} cases)", ok and not failing,
                       (f"{len(failing)} disagreements, first: {first} " + log)[:1500])
        if failing:
            ctx.extra.setdefault("corr_disagreements", {})[name] = [repr(b.info[i])[:400] for i in failing[:5]]
    ctx.extra["corr_cases"] = total


META = {
    "technique": "Coq proof over executable models of the table walkers (ElementTree/HTML tree/event/grid level) + "
                 "kernel-decided obligations over constants dumped from the live modules + vm_compute differential "
                 "correspondence through real files",
    "design_ref": "DESIGN.md §5 C13",
    "level_text": "Kernel-checked theorems: get_dim is the shape of get_table for every table type; for DOCX, ODT, ODP, PPTX, "
                  "HTML, EPUB, ODS (plain and run-length-encoded), XLSX, XLS and RTF the modelled walker applied to the rendering "
                  "of arbitrary source grids returns exactly those grids (all sizes, ragged rows, adjacent tables, order), "
                  "under the narrowest hypotheses that exclude the refuted cases; refutation witnesses (nested tables, "
                  "multi-paragraph HTML cells, ODS >100 empty repeats, XLSX header row, XLS duplicate headers) are proved in "
                  "Coq and replayed on the implementation. Models are tied to the code by generating real files per format.",
    "level_note": "Trusted: Coq kernel+VM; XML/HTML/openpyxl/xlrd parsing, int(), float(), whitespace set as oracles; the "
                  "hand-written models (validated differentially); harness writers. Position parsing is modelled (ODP floats bit-exactly, PPTX ints); "
                  "third-party parsers (ElementTree, html.parser, openpyxl, xlrd) and int()/float()/whitespace sets stay oracles; "
                  "non-table shape handling is not modelled; PDF table heuristics are out of reach (layout heuristics over pypdf text "
                  "positions, documented as heuristic and excluded by the property's format list).",
}
