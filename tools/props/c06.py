"""C06 — extraction is a deterministic, side-effect-free function of its input; observers are idempotent.

X: ast inventories regenerated on every run into coq/Gen/C06Sites.v
     * every set/frozenset construction in sharepoint2text/parsing with the way it is consumed
       (member / len / sorted / any-all / none / ORDERED), obligation: every site is neutral;
     * nondeterminism sources (id(, time., random, secrets, uuid, os.listdir/walk/scandir, hash(, now()) with
       their sink (log / identity key / encrypt-only / RESULT);
     * methods called on the caller's input stream (parameter `file_like` and its aliases): read-only;
     * attribute stores / in-place list mutation through `self` or a parameter inside observer methods of
       data_types.py (the sharing inventory behind the heap model).
D: * OdtContent.iterate_units (real method, objects built in memory) against the Coq heap model (vm_compute);
   * observer sequences interleaved with to_json() on generated objects and on every fixture result;
   * every fixture AND every generated input extracted twice in-process, in fresh processes and under >= 8
     PYTHONHASHSEED values (subprocess workers), per-JSON-path digests compared; input getvalue() before/after.
     Generated inputs (gen_documents, seeded): EPUB/DOCX/ODT/HTML with repeated metadata / style / relationship
     elements and a CRC-corrupted image member; fixtures with their first image member made unreadable; fixtures
     with junk bytes before / after (BOM, blank line, leftover HTTP header, trailer);
   * observer sequences also call every image / table accessor (get_bytes, ...) and run on in-memory content
     objects holding error-placeholder images (payload None);
   * type-directed in-memory instances of EVERY content dataclass (all / none / all-but-<field> for every field name
     of the class closure / random fills): every observer and accessor twice, deep snapshot of the object before/after;
   * workers extract all inputs in one pass and again in reverse order (A, B, ..., B, A): hidden cross-call state;
     generated inputs include OMML formulas with malformed radicals (DOCX, PPTX) and packages with two members whose
     names differ only in case.
   * process HISTORY: every input is also extracted in a fresh process that only touches inputs of the same extension
     (isolated-history workers, one per extension) and compared with its extraction after all other formats;
     generated ODT carry pictures of 14 kinds typed through the host MIME registry; generated PDFs (own minimal writer)
     carry image XObjects over colour-space form x caption form x object generation (0, 1, 7, 65534, random).
   * targeted history pairs B -> A for formats whose extractors share a module that holds state (lru_cache, `global`,
     mutated module-level containers, self-mutating module-level instances: ast inventory `stateful_modules`);
   * host MIME database: every input again under an emptied and under a hostile mimetypes database;
   * every result scanned for address-like tokens ("at 0x...", "<... object at", IndirectObject(n, g, id));
   * generated PDFs also vary /Filter (name, array, indirect reference); PdfImage.color_space is compared with the Coq
     model of the stripping pattern applied to str() of the raw pypdf value (correspondence).
   * environment: common.env_sweep (DEBUG logging, worker thread, TZ New York / Tokyo, other cwd) over every well-formed
     generated document and up to 3 small fixtures per extension;
   * generated mbox (Date header present / absent / unparsable / named zone), eml with text attachments, ZIP / TAR /
     TAR.GZ with 2..14 members of decreasing cost, plain-text files at the size boundaries 2^16, 2^20, 2^22 and at every
     size-like integer constant of the extractor modules +-1 (ast), one mail with such an attachment;
   * worker: a closed input buffer counts as modified; the first worker extracts a second time from the SAME buffer;
     observer sequences call EmailContent.iterate_supported_attachments; a to_json() that starts raising is a change.
   X nondeterminism sources now include local-time calls (astimezone without tzinfo=, localtime, mktime, fromtimestamp
     without tz) and completion-order consumption (as_completed, imap_unordered, wait); pools are SOrderKept only if the
     function uses none of them.  X input stream: owning wrappers (TextIOWrapper, BufferedReader ... not detach()ed) and
     `with file_like:` count as non-read-only.
   X stringification sites (str()/repr()/format()/f-string/% of a non-primitive operand outside log / raise / lookup
     contexts): stripped / exception / reviewed / OBJECT (fails closed); the stripping pattern constants must equal the
     modelled pattern.  X reads of the process-global MIME database outside router.py are findings.
   X process-global writes: setter-like calls / stores / in-place mutations on standard-library modules (obligation:
     none; theorem C06_history_independent), third-party monkey patches and `global` statements are listed only.
   X observer stores: every method/property of every class of data_types.py (initialisers, setters excepted), with a
     fail-closed alias analysis (names that may alias an object reachable from self; fresh containers of such).
"""
from __future__ import annotations

import ast
import hashlib
import io
import json
import os
import subprocess
import sys
from pathlib import Path

if __name__ != "__main__":
    from common import REPO, coq_str, coq_list, coq_opt, coq_Z, coq_bool, coq_eval_shards

PKG = "sharepoint2text/parsing"
OBSERVERS = ("get_full_text", "iterate_units", "iterate_images", "iterate_tables", "get_metadata", "to_json")
PY_SPACE = [9, 10, 11, 12, 13, 28, 29, 30, 31, 32, 133, 160, 5760, 8192, 8193, 8194, 8195, 8196, 8197, 8198, 8199,
            8200, 8201, 8202, 8232, 8233, 8239, 8287, 12288]

# =========================================================================================== X: inventories
ORDER = ["UNone", "UMember", "ULen", "UAnyAll", "USorted", "UOrdered"]  # worst last
SET_RESULT_METHODS = {"union", "intersection", "difference", "symmetric_difference", "copy"}
SET_TEST_METHODS = {"issubset", "issuperset", "isdisjoint", "__contains__"}
SET_MUT_METHODS = {"add", "update", "discard", "remove", "clear", "difference_update", "intersection_update",
                   "symmetric_difference_update"}


class Pkg:
    """All modules of sharepoint2text/parsing parsed once, with parent links."""

    def __init__(self, root: Path):
        self.mods = {}
        for p in sorted((root / PKG).rglob("*.py")):
            rel = str(p.relative_to(root))
            if "/tests/" in rel:
                continue
            tree = ast.parse(p.read_text(encoding="utf-8"))
            for n in ast.walk(tree):
                for ch in ast.iter_child_nodes(n):
                    ch._parent = n
            tree._parent = None
            self.mods[rel] = tree
        self.funcs = {}  # name -> [(rel, FunctionDef)]
        for rel, tree in self.mods.items():
            for n in ast.walk(tree):
                if isinstance(n, (ast.FunctionDef, ast.AsyncFunctionDef)):
                    self.funcs.setdefault(n.name, []).append((rel, n))

    @staticmethod
    def enclosing(n, kinds):
        n = getattr(n, "_parent", None)
        while n is not None and not isinstance(n, kinds):
            n = getattr(n, "_parent", None)
        return n

    def func_name(self, n):
        f = self.enclosing(n, (ast.FunctionDef, ast.AsyncFunctionDef))
        c = self.enclosing(n, ast.ClassDef)
        if f is None:
            return (c.name + ".<class>") if c else "<module>"
        return (c.name + "." if c else "") + f.name


def worst(uses):
    return max(uses, key=ORDER.index) if uses else "UNone"


class SetUses:
    """Classify how a set-valued expression is consumed.  Fail-closed: anything not understood is UOrdered."""

    def __init__(self, pkg: Pkg):
        self.pkg = pkg
        self.trace = []
        self.visiting = set()

    def note(self, n, what):
        self.trace.append(f"{what}@{getattr(n, 'lineno', '?')}")

    def name_loads(self, scope, name, skip=None):
        out = []
        for n in ast.walk(scope):
            if isinstance(n, ast.Name) and n.id == name and isinstance(n.ctx, ast.Load) and n is not skip:
                out.append(n)
        return out

    def attr_loads(self, scope, attr):
        return [n for n in ast.walk(scope) if isinstance(n, ast.Attribute) and n.attr == attr
                and isinstance(n.ctx, ast.Load)]

    def binding_uses(self, target, rel, depth):
        """The set is bound to `target`; classify every later load."""
        uses = []
        if isinstance(target, ast.Name):
            fn = self.pkg.enclosing(target, (ast.FunctionDef, ast.AsyncFunctionDef))
            if fn is not None:
                for ld in self.name_loads(fn, target.id):
                    uses.append(self.expr_use(ld, rel, depth))
            else:
                # module-level (or class-level) constant: every load of that identifier in the package
                for r2, tree in self.pkg.mods.items():
                    for ld in self.name_loads(tree, target.id):
                        uses.append(self.expr_use(ld, r2, depth))
                    for ld in self.attr_loads(tree, target.id):
                        uses.append(self.expr_use(ld, r2, depth))
        elif isinstance(target, ast.Attribute) and isinstance(target.value, ast.Name) and target.value.id in ("self", "cls"):
            cls = self.pkg.enclosing(target, ast.ClassDef)
            scope = cls if cls is not None else self.pkg.mods[rel]
            for ld in self.attr_loads(scope, target.attr):
                uses.append(self.expr_use(ld, rel, depth))
        else:
            self.note(target, "bound-to-unknown-target")
            uses.append("UOrdered")
        return worst(uses)

    def returned_uses(self, node, rel, depth):
        """The set is returned from the enclosing function / property: follow the callers."""
        fn = self.pkg.enclosing(node, (ast.FunctionDef, ast.AsyncFunctionDef))
        if fn is None or depth <= 0:
            self.note(node, "return-unresolved")
            return "UOrdered"
        is_prop = any(isinstance(d, ast.Name) and d.id in ("property", "cached_property") for d in fn.decorator_list)
        uses = []
        for r2, tree in self.pkg.mods.items():
            for n in ast.walk(tree):
                if is_prop:
                    if isinstance(n, ast.Attribute) and n.attr == fn.name and isinstance(n.ctx, ast.Load):
                        uses.append(self.expr_use(n, r2, depth - 1))
                elif isinstance(n, ast.Call):
                    f = n.func
                    if (isinstance(f, ast.Name) and f.id == fn.name) or (isinstance(f, ast.Attribute) and f.attr == fn.name):
                        uses.append(self.expr_use(n, r2, depth - 1))
        return worst(uses)

    def param_uses(self, call, node, rel, depth):
        """The set is an argument of `call`: resolve the callee inside the package and follow the parameter."""
        f = call.func
        fname = f.id if isinstance(f, ast.Name) else f.attr if isinstance(f, ast.Attribute) else None
        cands = self.pkg.funcs.get(fname or "", [])
        same = [c for c in cands if c[0] == rel]
        if len(same) == 1:
            cands = same
        if len(cands) != 1 or depth <= 0:
            self.note(call, f"arg-of-unresolved:{fname}")
            return "UOrdered"
        r2, fn = cands[0]
        params = [a.arg for a in fn.args.posonlyargs + fn.args.args]
        pname = None
        for kw in call.keywords:
            if kw.value is node:
                pname = kw.arg
        if pname is None and node in call.args:
            i = call.args.index(node)
            if params and params[0] in ("self", "cls") and isinstance(f, ast.Attribute):
                i += 1
            pname = params[i] if i < len(params) else None
        if pname is None or pname not in params + [a.arg for a in fn.args.kwonlyargs]:
            self.note(call, f"arg-position-unresolved:{fname}")
            return "UOrdered"
        key = (r2, fn.name, fn.lineno, pname)
        if key in self.visiting:          # recursive call passing the parameter on: nothing new
            return "UNone"
        self.visiting.add(key)
        try:
            return worst([self.expr_use(ld, r2, depth - 1) for ld in self.name_loads(fn, pname)])
        finally:
            self.visiting.discard(key)

    @staticmethod
    def ancestors(n):
        n = getattr(n, "_parent", None)
        while n is not None:
            yield n
            n = getattr(n, "_parent", None)

    def dict_of_sets(self, call, rel, depth):
        """d.get(k, <set>) / d.setdefault(k, <set>): the set is (or stands in for) a value of dict d."""
        uses = [self.expr_use(call, rel, depth)]
        d = call.func.value
        fn = self.pkg.enclosing(call, (ast.FunctionDef, ast.AsyncFunctionDef))
        if call.func.attr == "setdefault":
            if not isinstance(d, ast.Name) or fn is None:
                self.note(call, "setdefault-on-unknown-dict")
                return "UOrdered"
            for ld in self.name_loads(fn, d.id):
                q = getattr(ld, "_parent", None)
                if isinstance(q, ast.Attribute) and q.attr in ("get", "setdefault", "pop") and isinstance(getattr(q, "_parent", None), ast.Call):
                    if q._parent is not call:
                        uses.append(self.expr_use(q._parent, rel, depth))
                elif isinstance(q, ast.Subscript) and q.value is ld:
                    uses.append(self.expr_use(q, rel, depth) if isinstance(q.ctx, ast.Load) else "UNone")
                elif isinstance(q, ast.Compare):
                    uses.append("UMember")
                else:
                    self.note(ld, "dict-of-sets-escapes")
                    uses.append("UOrdered")
        return worst(uses)

    def for_body_use(self, loop, rel, depth):
        """`for x in S: ...` is order-insensitive when the body is an existential test
        (`if c: return <const>`) or only fills a dict keyed by x that is consumed as **kwargs."""
        var = loop.target.id if isinstance(loop.target, ast.Name) else None
        fn = self.pkg.enclosing(loop, (ast.FunctionDef, ast.AsyncFunctionDef))
        if var is None or fn is None or loop.orelse:
            return "UOrdered"
        stmts = list(loop.body)
        flat = []
        for st in stmts:
            if isinstance(st, ast.If) and not st.orelse:
                flat.extend(st.body)
            else:
                flat.append(st)
        if flat and all(isinstance(st, ast.Return) and isinstance(st.value, ast.Constant) for st in flat) \
                and len({st.value.value for st in flat}) == 1:
            return "UAnyAll"
        dicts = set()
        for st in flat:
            if isinstance(st, ast.Assign) and len(st.targets) == 1 and isinstance(st.targets[0], ast.Subscript) \
                    and isinstance(st.targets[0].value, ast.Name) and isinstance(st.targets[0].slice, ast.Name) \
                    and st.targets[0].slice.id == var:
                dicts.add(st.targets[0].value.id)
            elif isinstance(st, ast.Assign) and len(st.targets) == 1 and isinstance(st.targets[0], ast.Name) and all(
                    any(a is loop for a in self.ancestors(ld)) for ld in self.name_loads(fn, st.targets[0].id)):
                continue                  # per-iteration temporary, not read outside the loop
            else:
                return "UOrdered"
        for dn in dicts:
            for ld in self.name_loads(fn, dn):
                q = getattr(ld, "_parent", None)
                if isinstance(q, ast.Subscript) and isinstance(q.ctx, ast.Store):
                    continue
                if isinstance(q, ast.keyword) and q.arg is None:      # f(**d): keyword order is irrelevant
                    continue
                return "UOrdered"
        return "UMember" if dicts else "UOrdered"

    def expr_use(self, node, rel, depth=4):
        """Use of the set-valued expression `node`, looking at its parent."""
        p = getattr(node, "_parent", None)
        if p is None:
            return "UOrdered"
        if isinstance(p, ast.Expr):
            return "UNone"
        if isinstance(p, ast.Compare):
            if node in p.comparators and all(isinstance(o, (ast.In, ast.NotIn)) for o in p.ops):
                return "UMember"
            if all(isinstance(o, (ast.Eq, ast.NotEq, ast.LtE, ast.GtE, ast.Lt, ast.Gt, ast.Is, ast.IsNot)) for o in p.ops):
                return "UAnyAll"
            self.note(p, "compare")
            return "UOrdered"
        if isinstance(p, ast.BinOp) and isinstance(p.op, (ast.BitOr, ast.BitAnd, ast.Sub, ast.BitXor)):
            return self.expr_use(p, rel, depth)
        if isinstance(p, (ast.BoolOp, ast.IfExp)):
            if isinstance(p, ast.IfExp) and p.test is node:
                return "ULen"
            u = self.expr_use(p, rel, depth)
            return u
        if isinstance(p, ast.UnaryOp) and isinstance(p.op, ast.Not):
            return "ULen"
        if isinstance(p, (ast.If, ast.While, ast.Assert)) and p.test is node:
            return "ULen"
        if isinstance(p, ast.Attribute) and p.value is node:
            call = getattr(p, "_parent", None)
            if isinstance(call, ast.Call) and call.func is p:
                if p.attr in SET_MUT_METHODS:
                    return "UNone"
                if p.attr in SET_TEST_METHODS:
                    return "UMember"
                if p.attr in SET_RESULT_METHODS:
                    return self.expr_use(call, rel, depth)
            self.note(p, f"method:{p.attr}")
            return "UOrdered"
        if isinstance(p, ast.Call):
            f = p.func
            if f is node:
                return "UNone"            # x.namelist(...) is a call of something else, not the set-valued property
            if isinstance(f, ast.Attribute) and f.attr in ("get", "setdefault") and len(p.args) == 2 and p.args[1] is node:
                return self.dict_of_sets(p, rel, depth)
            if isinstance(f, ast.Name) and (node in p.args):
                if f.id in ("len", "bool"):
                    return "ULen"
                if f.id == "sorted":
                    if any(k.arg == "key" for k in p.keywords):
                        # a key need not be injective: elements with equal keys keep the set's iteration order
                        self.note(p, "sorted(set, key=...)")
                        return "UOrdered"
                    return "USorted"
                if f.id in ("any", "all", "min", "max"):
                    return "UAnyAll"
                if f.id in ("set", "frozenset"):
                    return self.expr_use(p, rel, depth)
                if f.id in ("list", "tuple", "enumerate", "iter", "next", "zip", "map", "filter", "reversed", "sum",
                            "dict", "str", "repr"):
                    self.note(p, f"{f.id}(set)")
                    return "UOrdered"
            if isinstance(f, ast.Attribute) and node in p.args:
                if f.attr in SET_MUT_METHODS | SET_TEST_METHODS:
                    return "UMember"      # other_set.update(S) / T.issubset(S): order of S irrelevant
                if f.attr in SET_RESULT_METHODS:
                    return self.expr_use(p, rel, depth)
                if f.attr in ("join", "extend", "append", "writelines"):
                    self.note(p, f".{f.attr}(set)")
                    return "UOrdered"
            return self.param_uses(p, node, rel, depth)
        if isinstance(p, ast.keyword):
            call = getattr(p, "_parent", None)
            if isinstance(call, ast.Call):
                return self.param_uses(call, node, rel, depth)
            return "UOrdered"
        if isinstance(p, ast.Assign) and p.value is node:
            return worst([self.binding_uses(t, rel, depth) for t in p.targets])
        if isinstance(p, ast.AnnAssign) and p.value is node:
            return self.binding_uses(p.target, rel, depth)
        if isinstance(p, ast.AugAssign) and p.value is node:
            return "UMember"              # T |= S
        if isinstance(p, ast.AugAssign) and p.target is node:
            return "UNone"
        if isinstance(p, ast.Return):
            return self.returned_uses(p, rel, depth)
        if isinstance(p, ast.comprehension) and p.iter is node:
            comp = getattr(p, "_parent", None)
            if isinstance(comp, ast.SetComp):
                return self.expr_use(comp, rel, depth)
            if isinstance(comp, ast.GeneratorExp):
                outer = getattr(comp, "_parent", None)
                if isinstance(outer, ast.Call) and isinstance(outer.func, ast.Name):
                    if outer.func.id in ("any", "all", "min", "max"):
                        return "UAnyAll"
                    if outer.func.id in ("set", "frozenset"):
                        return self.expr_use(outer, rel, depth)
                    if outer.func.id == "sorted":
                        return "USorted"
            self.note(p, "comprehension-over-set")
            return "UOrdered"
        if isinstance(p, ast.For) and p.iter is node:
            u = self.for_body_use(p, rel, depth)
            if u == "UOrdered":
                self.note(p, "for-over-set")
            return u
        if isinstance(p, ast.arguments):
            # default value of a parameter: follow the parameter inside its function
            fn = getattr(p, "_parent", None)
            allp = p.posonlyargs + p.args
            defaults = dict(zip([a.arg for a in allp[len(allp) - len(p.defaults):]], p.defaults))
            defaults.update({a.arg: d for a, d in zip(p.kwonlyargs, p.kw_defaults) if d is not None})
            for nme, d in defaults.items():
                if d is node:
                    return worst([self.expr_use(ld, rel, depth - 1) for ld in self.name_loads(fn, nme)])
        self.note(p, f"parent:{type(p).__name__}")
        return "UOrdered"


def is_set_ctor(n):
    if isinstance(n, (ast.Set, ast.SetComp)):
        return True
    return isinstance(n, ast.Call) and isinstance(n.func, ast.Name) and n.func.id in ("set", "frozenset")


def inventory_sets(pkg: Pkg):
    sites = []
    for rel, tree in pkg.mods.items():
        for n in ast.walk(tree):
            if not is_set_ctor(n):
                continue
            # skip a constructor that merely wraps another one (frozenset({..})): the outer one is the site
            p = getattr(n, "_parent", None)
            if isinstance(p, ast.Call) and is_set_ctor(p) and n in p.args:
                continue
            su = SetUses(pkg)
            use = su.expr_use(n, rel)
            sites.append({"file": rel, "func": pkg.func_name(n), "line": n.lineno, "use": use,
                          "src": ast.unparse(n)[:70], "trace": su.trace[:6]})
    return sites


ND_MODULES = {"time", "random", "secrets", "uuid"}
ND_OS = {"listdir", "walk", "scandir", "getpid", "urandom", "environ", "getenv"}
ND_DT = {"now", "utcnow", "today"}


LOCAL_TIME_CALLS = {"astimezone", "localtime", "mktime", "fromtimestamp", "tzset", "ctime", "asctime"}
UNORDERED_CALLS = {"as_completed", "imap_unordered", "wait"}
POOL_CALLS = {"ThreadPoolExecutor", "ProcessPoolExecutor", "Pool", "ThreadPool", "Thread", "Process", "gather", "create_task", "TaskGroup"}
OWNING_WRAPPERS = {"TextIOWrapper", "BufferedReader", "BufferedRandom", "BufferedWriter", "BufferedRWPair", "StreamReader",
                   "StreamReaderWriter", "closing"}


def inventory_nondet(pkg: Pkg):
    out = []
    for rel, tree in pkg.mods.items():
        for n in ast.walk(tree):
            kind = None
            if isinstance(n, ast.Call) and isinstance(n.func, ast.Name) and n.func.id in ("id", "hash"):
                kind = n.func.id + "()"
                expr = n
            elif isinstance(n, ast.Attribute) and isinstance(n.value, ast.Name) and isinstance(n.ctx, ast.Load):
                if n.value.id in ND_MODULES:
                    kind = f"{n.value.id}.{n.attr}"
                elif n.value.id == "os" and n.attr in ND_OS:
                    kind = f"os.{n.attr}"
                elif n.attr in ND_DT and n.value.id in ("datetime", "date"):
                    kind = f"{n.value.id}.{n.attr}"
                elif n.value.id == "glob" or n.attr in ("iterdir", "glob", "rglob"):
                    kind = f"{n.value.id}.{n.attr}"
                expr = getattr(n, "_parent", None) if kind else None
                if kind and not (isinstance(expr, ast.Call) and expr.func is n):
                    expr = n
            if kind is None and isinstance(n, ast.Call):
                f = n.func
                nm = f.attr if isinstance(f, ast.Attribute) else f.id if isinstance(f, ast.Name) else ""
                fn = pkg.enclosing(n, (ast.FunctionDef, ast.AsyncFunctionDef))
                if nm in LOCAL_TIME_CALLS:
                    # local wall-clock / host time zone: x.astimezone(..) is fine only right after .replace(tzinfo=..)
                    aware = nm == "astimezone" and isinstance(f, ast.Attribute) and isinstance(f.value, ast.Call) \
                        and isinstance(f.value.func, ast.Attribute) and f.value.func.attr == "replace" \
                        and any(k.arg == "tzinfo" for k in f.value.keywords)
                    tzarg = nm == "fromtimestamp" and (len(n.args) > 1 or any(k.arg == "tz" for k in n.keywords))
                    if not (aware or tzarg):
                        out.append({"file": rel, "func": pkg.func_name(n), "line": n.lineno, "kind": f"local-time:{nm}()",
                                    "sink": "SLog" if in_logger_call(n) else "SResult"})
                    continue
                if nm in UNORDERED_CALLS:
                    out.append({"file": rel, "func": pkg.func_name(n), "line": n.lineno, "kind": f"completion-order:{nm}()", "sink": "SResult"})
                    continue
                if nm in POOL_CALLS:
                    scope = fn if fn is not None else tree
                    unordered = any(isinstance(c, ast.Call) and (getattr(c.func, "attr", None) or getattr(c.func, "id", "")) in UNORDERED_CALLS
                                    for c in ast.walk(scope))
                    out.append({"file": rel, "func": pkg.func_name(n), "line": n.lineno, "kind": f"concurrency:{nm}",
                                "sink": "SResult" if unordered else "SOrderKept"})
                    continue
            if kind is None:
                continue
            out.append({"file": rel, "func": pkg.func_name(n), "line": n.lineno, "kind": kind,
                        "sink": nd_sink(pkg, expr, kind, 3)})
    return out


def in_logger_call(n):
    while n is not None:
        if isinstance(n, ast.Call) and isinstance(n.func, ast.Attribute) and isinstance(n.func.value, ast.Name) \
                and n.func.value.id in ("logger", "logging", "log"):
            return True
        if isinstance(n, ast.stmt):
            return False
        n = getattr(n, "_parent", None)
    return False


def nd_sink(pkg, expr, kind, depth):
    fn = pkg.enclosing(expr, (ast.FunctionDef, ast.AsyncFunctionDef))
    if kind.startswith("secrets.") or kind.startswith("random.") or kind == "os.urandom":
        name = fn.name.lower() if fn is not None else ""
        if "encrypt" in name and "decrypt" not in name:
            return "SEncryptOnly"
        return "SResult"
    if in_logger_call(expr):
        return "SLog"
    p = getattr(expr, "_parent", None)
    # pure arithmetic / tuple wrapping keeps the taint: look at the wrapping expression
    while isinstance(p, (ast.BinOp, ast.Tuple, ast.FormattedValue, ast.JoinedStr)):
        expr, p = p, getattr(p, "_parent", None)
        if in_logger_call(expr):
            return "SLog"
    if kind == "id()":
        if isinstance(p, ast.Call) and isinstance(p.func, ast.Attribute) and p.func.attr in ("add", "discard") and expr in p.args:
            return "SIdentityKey"
        if isinstance(p, ast.Compare) and p.left is expr and all(isinstance(o, (ast.In, ast.NotIn)) for o in p.ops):
            return "SIdentityKey"
        if isinstance(p, ast.Subscript) and p.slice is expr:
            return "SIdentityKey"
    if isinstance(p, ast.Assign) and len(p.targets) == 1 and isinstance(p.targets[0], ast.Name) and fn is not None and depth > 0:
        nm = p.targets[0].id
        sinks = []
        for ld in ast.walk(fn):
            if isinstance(ld, ast.Name) and ld.id == nm and isinstance(ld.ctx, ast.Load):
                sinks.append(nd_sink(pkg, ld, kind, depth - 1))
        if sinks and all(x == "SLog" for x in sinks):
            return "SLog"
        if sinks and kind == "id()" and all(x == "SIdentityKey" for x in sinks):
            return "SIdentityKey"
    return "SResult"


STREAM_PARAMS = {"file_like"}


def inventory_stream(pkg: Pkg):
    """Method calls on the caller's input object (parameter `file_like` and plain aliases of it)."""
    out, modes = [], []
    for rel, tree in pkg.mods.items():
        for fn in ast.walk(tree):
            if not isinstance(fn, (ast.FunctionDef, ast.AsyncFunctionDef)):
                continue
            params = {a.arg for a in fn.args.posonlyargs + fn.args.args + fn.args.kwonlyargs}
            names = set(params & STREAM_PARAMS)
            if not names:
                continue
            for n in ast.walk(fn):   # plain aliases  x = file_like
                if isinstance(n, ast.Assign) and isinstance(n.value, ast.Name) and n.value.id in names:
                    for t in n.targets:
                        if isinstance(t, ast.Name):
                            names.add(t.id)
            for n in ast.walk(fn):
                if isinstance(n, ast.Attribute) and isinstance(n.value, ast.Name) and n.value.id in names:
                    meth = n.attr
                    call = getattr(n, "_parent", None)
                    outer = getattr(call, "_parent", None)
                    if meth == "getbuffer" and isinstance(call, ast.Call) and isinstance(outer, ast.Attribute) and outer.attr == "nbytes":
                        meth = "getbuffer().nbytes"       # size only; the writable view is dropped at once
                    out.append({"file": rel, "func": pkg.func_name(n), "line": n.lineno, "method": meth})
                if isinstance(n, ast.withitem) and isinstance(n.context_expr, ast.Name) and n.context_expr.id in names:
                    out.append({"file": rel, "func": pkg.func_name(n.context_expr), "line": n.context_expr.lineno, "method": "with:__exit__ closes"})
                if isinstance(n, ast.Call):
                    f = n.func
                    fname = f.attr if isinstance(f, ast.Attribute) else f.id if isinstance(f, ast.Name) else ""
                    if fname in OWNING_WRAPPERS and any(isinstance(a, ast.Name) and a.id in names for a in list(n.args) + [k.value for k in n.keywords]):
                        # the wrapper closes the wrapped object when it is closed or collected, unless detach()ed
                        par = getattr(n, "_parent", None)
                        bound = par.targets[0].id if isinstance(par, ast.Assign) and isinstance(par.targets[0], ast.Name) else None
                        detached = bound is not None and any(
                            isinstance(c, ast.Call) and isinstance(c.func, ast.Attribute) and c.func.attr == "detach"
                            and isinstance(c.func.value, ast.Name) and c.func.value.id == bound for c in ast.walk(fn))
                        if not detached:
                            out.append({"file": rel, "func": pkg.func_name(n), "line": n.lineno, "method": f"wrapped-by:{fname} (not detached)"})
                    if fname in ("ZipFile", "open", "TarFile") and any(isinstance(a, ast.Name) and a.id in names for a in n.args):
                        mode = None
                        if len(n.args) > 1 and isinstance(n.args[1], ast.Constant):
                            mode = n.args[1].value
                        for kw in n.keywords:
                            if kw.arg == "mode" and isinstance(kw.value, ast.Constant):
                                mode = kw.value.value
                            elif kw.arg == "mode":
                                mode = "?"
                        modes.append({"file": rel, "func": pkg.func_name(n), "line": n.lineno, "callee": fname,
                                      "mode": "r" if mode is None else str(mode)})
    return out, modes


MUTATORS = ("append", "extend", "insert", "pop", "remove", "clear", "sort", "reverse", "update", "setdefault",
            "popitem", "write", "truncate", "add", "discard", "appendleft", "writelines")
FRESH_WRAPPERS = ("list", "tuple", "reversed", "enumerate", "iter", "sorted", "zip", "set", "frozenset", "dict")
INITIALISERS = ("__init__", "__post_init__", "populate_from_path")


def inventory_observer_writes(pkg: Pkg):
    """Writes through `self` in ANY method / property of ANY class of data_types.py (initialisers and property setters
    excepted): attribute / item stores, augmented assignments and in-place container mutations whose target may alias an
    object reachable from self.  Simple fail-closed alias analysis:
      obj   = names that may denote an object reachable from self (self, x = self.a.b, x = self.a[i], x = y for y in obj,
              loop variables over such objects, over tuples/lists of them, or over fresh containers of them)
      fresh = names bound to a NEW container holding such objects (list(self.a), sorted(...), comprehensions)
    Mutating a fresh container itself is fine; everything reached through it is not."""
    rel = f"{PKG}/extractors/data_types.py"
    tree = pkg.mods[rel]
    out = []

    def is_setter(fn):
        return any(isinstance(d, ast.Attribute) and d.attr in ("setter", "deleter") for d in fn.decorator_list)

    for cls in [n for n in ast.walk(tree) if isinstance(n, ast.ClassDef)]:
        for fn in [n for n in cls.body if isinstance(n, (ast.FunctionDef, ast.AsyncFunctionDef))]:
            if fn.name in INITIALISERS or is_setter(fn) or not fn.args.args or fn.args.args[0].arg != "self":
                continue
            obj, fresh = {"self"}, set()

            def classify(e):
                """'obj' if e may denote an object reachable from self, 'fresh' if a new container of such, else None"""
                if isinstance(e, ast.Name):
                    return "obj" if e.id in obj else "fresh" if e.id in fresh else None
                if isinstance(e, (ast.Attribute, ast.Subscript)):
                    base = classify(e.value)
                    return "obj" if base in ("obj", "fresh") else None
                if isinstance(e, ast.Starred):
                    return classify(e.value)
                if isinstance(e, (ast.Tuple, ast.List, ast.Set)):
                    return "fresh" if any(classify(x) for x in e.elts) else None
                if isinstance(e, (ast.ListComp, ast.SetComp, ast.GeneratorExp)):
                    return "fresh" if classify(e.elt) else None      # (comprehension variables are bound below)
                if isinstance(e, ast.IfExp):
                    ks = {classify(e.body), classify(e.orelse)}
                    return "obj" if "obj" in ks else "fresh" if "fresh" in ks else None
                if isinstance(e, ast.BoolOp):
                    ks = {classify(v) for v in e.values}
                    return "obj" if "obj" in ks else "fresh" if "fresh" in ks else None
                if isinstance(e, ast.NamedExpr):
                    return classify(e.value)
                if isinstance(e, ast.Call):
                    f = e.func
                    if isinstance(f, ast.Name) and f.id in FRESH_WRAPPERS and e.args:
                        return "fresh" if any(classify(x) for x in e.args) else None
                    if isinstance(f, ast.Name) and f.id == "next" and e.args:
                        return "obj" if any(classify(x) for x in e.args) else None
                    if isinstance(f, ast.Attribute) and f.attr in ("get", "values", "items", "keys", "copy", "setdefault", "pop") \
                            and classify(f.value):
                        return "obj" if f.attr in ("get", "setdefault", "pop") else "fresh"
                    return None          # any other call result is taken to be a new object
                return None

            def bind(tgt, kind):
                changed = False
                stack = [tgt]
                while stack:
                    t = stack.pop()
                    if isinstance(t, (ast.Tuple, ast.List)):
                        stack.extend(t.elts)
                    elif isinstance(t, ast.Starred):
                        stack.append(t.value)
                    elif isinstance(t, ast.Name):
                        dest = obj if kind == "obj" else fresh
                        if t.id not in dest:
                            dest.add(t.id)
                            changed = True
                return changed

            changed = True
            while changed:
                changed = False
                for n in ast.walk(fn):
                    if isinstance(n, (ast.For, ast.comprehension)):
                        if classify(n.iter):          # elements of an obj / fresh container are objects
                            changed |= bind(n.target, "obj")
                    elif isinstance(n, ast.Assign):
                        k = classify(n.value)
                        if k:
                            for t in n.targets:
                                changed |= bind(t, k)
                    elif isinstance(n, ast.AnnAssign) and n.value is not None:
                        k = classify(n.value)
                        if k:
                            changed |= bind(n.target, k)
                    elif isinstance(n, ast.NamedExpr):
                        k = classify(n.value)
                        if k:
                            changed |= bind(n.target, k)
                    elif isinstance(n, ast.withitem) and n.optional_vars is not None and classify(n.context_expr):
                        changed |= bind(n.optional_vars, "obj")

            def touches_shared(e):
                """e is the object being written to / mutated"""
                if isinstance(e, ast.Name):
                    return e.id in obj              # a fresh container itself may be mutated
                return classify(e) == "obj"

            def record(n, what):
                out.append({"cls": cls.name, "method": fn.name, "line": n.lineno, "what": what})

            for n in ast.walk(fn):
                tgts = []
                if isinstance(n, ast.Assign):
                    tgts = n.targets
                elif isinstance(n, ast.AnnAssign) and n.value is not None:
                    tgts = [n.target]
                elif isinstance(n, ast.AugAssign):
                    tgts = [n.target]
                    if isinstance(n.target, ast.Name) and n.target.id in obj and not isinstance(n.value, ast.Constant):
                        record(n, ast.unparse(n)[:60])      # x += ys on a name that may alias self.<list>: in-place
                elif isinstance(n, ast.Delete):
                    tgts = n.targets
                for t in tgts:
                    for y in ast.walk(t):
                        if isinstance(y, (ast.Attribute, ast.Subscript)) and isinstance(y.ctx, (ast.Store, ast.Del)) \
                                and touches_shared(y.value):
                            record(n, ast.unparse(y)[:60])
                if isinstance(n, ast.Call) and isinstance(n.func, ast.Attribute) and n.func.attr in MUTATORS \
                        and touches_shared(n.func.value):
                    # x.seek(0) etc. are not in MUTATORS; obj.pop()/get() on dicts of self would be
                    record(n, ast.unparse(n.func)[:60])
    return out


SETTER_RE = __import__("re").compile(
    r"^(set[a-z_A-Z]|add_|register|unregister|install|init$|patch|putenv$|unsetenv$|seed$|chdir$|umask$|"
    r"field_size_limit$|tzset$|setlocale$|clear_cache$|_clear|invalidate_caches$)")
LOG_ONLY_MODULES = {"logging", "warnings"}        # affect log output only, never a result


def inventory_global_writes(pkg: Pkg):
    """Writes to PROCESS-GLOBAL state from sharepoint2text/parsing:
       stdlib   setter-like calls on a stdlib module (mimetypes.add_type, locale.setlocale, ET.register_namespace,
                sys.setrecursionlimit, csv.field_size_limit, os.putenv ...) and stores / in-place mutations below a
                stdlib module (os.environ[...] = , sys.path.insert, mimetypes.types_map.update)  -> obligation: none
       third    the same on third-party modules (monkey patches)  -> listed (C15 owns patch/restore)
       own      `global` statements of the package's own modules  -> listed"""
    import sys as _sys
    stdlib = set(getattr(_sys, "stdlib_module_names", ()))
    out = []
    for rel, tree in pkg.mods.items():
        alias = {}     # local name -> dotted module / object path
        for n in ast.walk(tree):
            if isinstance(n, ast.Import):
                for a in n.names:
                    alias[a.asname or a.name.split(".")[0]] = a.name if a.asname else a.name.split(".")[0]
            elif isinstance(n, ast.ImportFrom) and n.module and n.level == 0:
                for a in n.names:
                    alias[a.asname or a.name] = n.module + "." + a.name

        def root_of(e):
            chain = []
            while isinstance(e, (ast.Attribute, ast.Subscript, ast.Call)):
                if isinstance(e, ast.Attribute):
                    chain.append(e.attr)
                e = e.value if not isinstance(e, ast.Call) else e.func
            return (e.id, list(reversed(chain))) if isinstance(e, ast.Name) else (None, [])

        def where(name):
            top = alias.get(name, "").split(".")[0]
            if not top or top == "sharepoint2text":
                return None
            if top in LOG_ONLY_MODULES:
                return "log"
            return "stdlib" if top in stdlib else "third"

        for n in ast.walk(tree):
            if isinstance(n, ast.Global):
                out.append({"file": rel, "func": pkg.func_name(n), "line": n.lineno, "kind": "own", "what": "global " + ", ".join(n.names)})
            if isinstance(n, ast.Call):
                f = n.func
                if isinstance(f, ast.Attribute):
                    r, chain = root_of(f)
                    w = where(r) if r else None
                    if w in ("stdlib", "third") and r in alias:
                        if SETTER_RE.match(f.attr) or (len(chain) >= 2 and f.attr in MUTATORS):
                            out.append({"file": rel, "func": pkg.func_name(n), "line": n.lineno, "kind": w,
                                        "what": alias[r] + "." + ".".join(chain)})
                elif isinstance(f, ast.Name) and f.id in alias and where(f.id) in ("stdlib", "third") and SETTER_RE.match(alias[f.id].split(".")[-1]):
                    out.append({"file": rel, "func": pkg.func_name(n), "line": n.lineno, "kind": where(f.id), "what": alias[f.id]})
            tgts = []
            if isinstance(n, ast.Assign):
                tgts = n.targets
            elif isinstance(n, (ast.AugAssign, ast.AnnAssign)):
                tgts = [n.target]
            elif isinstance(n, ast.Delete):
                tgts = n.targets
            for t in tgts:
                if isinstance(t, (ast.Attribute, ast.Subscript)):
                    r, chain = root_of(t)
                    w = where(r) if r else None
                    # the root must be a module-level import alias that is not rebound locally as a plain variable
                    if w in ("stdlib", "third") and r in alias and isinstance(alias[r], str):
                        fn = pkg.enclosing(n, (ast.FunctionDef, ast.AsyncFunctionDef))
                        local = fn is not None and any(isinstance(x, ast.Name) and x.id == r and isinstance(x.ctx, ast.Store)
                                                       for x in ast.walk(fn))
                        params = fn is not None and r in {a.arg for a in fn.args.args + fn.args.kwonlyargs}
                        if not local and not params:
                            out.append({"file": rel, "func": pkg.func_name(n), "line": n.lineno, "kind": w,
                                        "what": alias[r] + "." + ".".join(chain) + " ="})
    return out


PRIM_CALLS = {"int", "len", "float", "round", "sum", "min", "max", "abs", "ord", "hex", "bool", "chr", "str", "repr", "hash"}
STR_METHODS = {"strip", "lstrip", "rstrip", "lower", "upper", "title", "join", "replace", "decode", "format", "capitalize",
               "casefold", "zfill", "ljust", "rjust", "center", "expandtabs", "removeprefix", "removesuffix", "isoformat",
               "strftime", "hexdigest", "as_posix", "group", "hex"}
LOOKUP_FUNCS = {"find", "findall", "iter", "iterfind", "findtext", "get", "lookup", "startswith", "endswith", "compile",
                "match", "search", "fullmatch", "getattr", "hasattr", "exists", "read", "open", "read_xml_root", "read_text",
                "read_bytes", "index", "count", "split", "rsplit", "partition", "pop", "setdefault", "isinstance"}
PRIM_ANNOT = {"str", "int", "float", "bool", "bytes", "None", "Optional[str]", "Optional[int]", "str | None", "int | None",
              "float | None", "bool | None", "Optional[float]", "Optional[bool]"}


def inventory_stringify(pkg: Pkg):
    """Every place in sharepoint2text/parsing/extractors where an object is turned into text -- str(x), repr(x),
    format(x), an f-string field, "..." % x, "...".format(x) -- unless the text only goes to a log call, an exception
    message or a lookup key.  Each site gets a class:
       stripped   the text passes through re.sub(<pattern naming IndirectObject>) (address removed)
       primitive  the operand is a literal / number / text by construction (conversion, arithmetic, str method, numeric
                  format spec, parameter or field annotated with a primitive type, ALL_CAPS constant, XML .text/.tag)
       exception  str(e) of a caught exception (message text)
       object     anything else: the repr of a library / file-like object could reach a result
    -> [{file, func, line, src, cls}]"""
    out = []
    ret_ann = {}
    for rel, tree in pkg.mods.items():
        for f in ast.walk(tree):
            if isinstance(f, (ast.FunctionDef, ast.AsyncFunctionDef)):
                ret_ann.setdefault(f.name, []).append(ast.unparse(f.returns) if f.returns is not None else "?")
    for rel, tree in pkg.mods.items():
        if "/extractors/" not in rel:
            continue
        field_ann = {}
        for c in ast.walk(tree):
            if isinstance(c, ast.ClassDef):
                for st in c.body:
                    if isinstance(st, ast.AnnAssign) and isinstance(st.target, ast.Name):
                        field_ann[st.target.id] = ast.unparse(st.annotation)

        def skip_context(n):
            """log / raise / lookup context of the text produced at n"""
            cur, child = getattr(n, "_parent", None), n
            while cur is not None:
                if isinstance(cur, ast.Raise):
                    return "raise"
                if isinstance(cur, ast.Call):
                    f = cur.func
                    fname = f.attr if isinstance(f, ast.Attribute) else f.id if isinstance(f, ast.Name) else ""
                    if isinstance(f, ast.Attribute) and isinstance(f.value, ast.Name) and f.value.id in ("logger", "logging", "log", "warnings"):
                        return "log"
                    if fname.endswith(("Error", "Exception", "Warning")):
                        return "raise"
                    if fname in LOOKUP_FUNCS and child is not f:
                        return "lookup"
                if isinstance(cur, ast.Subscript) and cur.slice is child:
                    return "lookup"
                if isinstance(cur, ast.Compare):
                    return "lookup"
                if isinstance(cur, (ast.stmt,)):
                    return None
                child, cur = cur, getattr(cur, "_parent", None)
            return None

        def stripped(n):
            cur = getattr(n, "_parent", None)
            while cur is not None and not isinstance(cur, ast.stmt):
                if isinstance(cur, ast.Call) and isinstance(cur.func, ast.Attribute) and cur.func.attr in ("sub", "subn") and cur.args \
                        and isinstance(cur.args[0], ast.Constant) and "IndirectObject" in str(cur.args[0].value):
                    return True
                cur = getattr(cur, "_parent", None)
            return False

        def prim(e, fn, depth=0):
            if isinstance(e, ast.Constant) or isinstance(e, ast.JoinedStr):
                return True
            if isinstance(e, (ast.BinOp, ast.UnaryOp, ast.Compare, ast.BoolOp)):
                if isinstance(e, ast.BoolOp):
                    return all(prim(v, fn, depth) for v in e.values)
                if isinstance(e, ast.BinOp) and isinstance(e.op, ast.Add):
                    return prim(e.left, fn, depth) or prim(e.right, fn, depth)     # str + x / num + x: both same kind or TypeError
                return True
            if isinstance(e, ast.IfExp):
                return prim(e.body, fn, depth) and prim(e.orelse, fn, depth)
            if isinstance(e, ast.Call):
                f = e.func
                if isinstance(f, ast.Name) and f.id in PRIM_CALLS:
                    return f.id not in ("str", "repr") or all(prim(a, fn, depth) for a in e.args)
                if isinstance(f, ast.Attribute) and f.attr in STR_METHODS:
                    return True
                fname = f.id if isinstance(f, ast.Name) else f.attr if isinstance(f, ast.Attribute) else ""
                rets = ret_ann.get(fname)
                return bool(rets) and all(r in PRIM_ANNOT for r in rets)       # package function annotated -> str / int ...
            if isinstance(e, ast.Subscript):
                if isinstance(e.value, ast.Name) and (e.value.id.isupper() or e.value.id.lstrip("_").isupper()):
                    return True                                                  # TABLE[key] of a module constant
                return isinstance(e.value, ast.Call) and prim(e.value, fn, depth)
            if isinstance(e, ast.Attribute):
                if e.attr in ("text", "tag", "tail", "name", "filename", "suffix", "stem") or e.attr.isupper():
                    return True
                if isinstance(e.value, ast.Name) and e.value.id in ("self", "cls") and field_ann.get(e.attr) in PRIM_ANNOT:
                    return True
                return field_ann.get(e.attr) in PRIM_ANNOT
            if isinstance(e, ast.Name):
                if e.id.isupper() or e.id.lstrip("_").isupper():
                    return True
                if fn is None or depth > 2:
                    return False
                for a in fn.args.posonlyargs + fn.args.args + fn.args.kwonlyargs:
                    if a.arg == e.id:
                        return a.annotation is not None and ast.unparse(a.annotation) in PRIM_ANNOT
                vals = []
                for m in ast.walk(fn):
                    if isinstance(m, ast.Assign) and any(isinstance(t, ast.Name) and t.id == e.id for t in m.targets):
                        vals.append(m.value)
                    elif isinstance(m, ast.AnnAssign) and isinstance(m.target, ast.Name) and m.target.id == e.id:
                        if ast.unparse(m.annotation) in PRIM_ANNOT:
                            return True
                        if m.value is not None:
                            vals.append(m.value)
                    elif isinstance(m, (ast.For, ast.comprehension)) and any(isinstance(t, ast.Name) and t.id == e.id for t in ast.walk(m.target)):
                        it = m.iter
                        if isinstance(it, ast.Call) and isinstance(it.func, ast.Name) and it.func.id in ("range",):
                            return True
                        if isinstance(it, ast.Call) and isinstance(it.func, ast.Name) and it.func.id == "enumerate" \
                                and isinstance(m.target, ast.Tuple) and m.target.elts and isinstance(m.target.elts[0], ast.Name) \
                                and m.target.elts[0].id == e.id:
                            return True
                        return False
                return bool(vals) and all(prim(v, fn, depth + 1) for v in vals)
            return False

        for n in ast.walk(tree):
            operands = []
            if isinstance(n, ast.Call) and isinstance(n.func, ast.Name) and n.func.id in ("str", "repr", "format") and n.args:
                operands = [(n, n.args[0], None)]
            elif isinstance(n, ast.FormattedValue):
                spec = ast.unparse(n.format_spec) if n.format_spec is not None else ""
                operands = [(n, n.value, spec)]
            elif isinstance(n, ast.BinOp) and isinstance(n.op, ast.Mod) and isinstance(n.left, ast.Constant) and isinstance(n.left.value, str):
                els = n.right.elts if isinstance(n.right, ast.Tuple) else [n.right]
                operands = [(n, x, None) for x in els]
            elif isinstance(n, ast.Call) and isinstance(n.func, ast.Attribute) and n.func.attr == "format" \
                    and isinstance(n.func.value, ast.Constant) and isinstance(n.func.value.value, str):
                operands = [(n, x, None) for x in n.args] + [(n, k.value, None) for k in n.keywords]
            for site, opnd, spec in operands:
                if skip_context(site):
                    continue
                fn = pkg.enclosing(site, (ast.FunctionDef, ast.AsyncFunctionDef))
                exc_names = set()
                if fn is not None:
                    exc_names = {h.name for h in ast.walk(fn) if isinstance(h, ast.ExceptHandler) and h.name}
                if stripped(site):
                    cls = "stripped"
                elif isinstance(opnd, ast.Name) and opnd.id in exc_names:
                    cls = "exception"
                elif (spec and any(c in spec for c in "dfxXeEgGn%")) or prim(opnd, fn):
                    cls = "primitive"
                else:
                    cls = "object"
                out.append({"file": rel, "func": pkg.func_name(site), "line": site.lineno, "src": ast.unparse(opnd)[:60], "cls": cls})
    return out


# Reviewed `object`-class stringification sites (file suffix, function, operand): the operand's static type is not
# visible to the classifier, its RUNTIME values are text / numbers / dates / paths (reason given).  A site that is not
# listed here (new code, or a site that lost its stripping regex) leaves C06_stringify_sites_classified open.
_R_CELL = "spreadsheet / table cell value: str, int, float, bool, datetime or None from xlrd / openpyxl / own lists"
_R_TEXT = "text taken from XML attributes / element text / own tables (str or None)"
_R_PATH = "pathlib.Path built from the `path` argument"
_R_MAIL = "mail header / body text from the email library (str)"
_R_PDFN = "pypdf NameObject / TextStringObject / text (str subclasses); arrays and indirect references are resolved or stripped before"
REVIEWED_OBJECT_SITES = {
    ("archive_extractor.py", "read_archive", "archive_type.split('.')[-1]"): "str method result",
    ("data_types.py", "FileMetadataInterface.populate_from_path", "p.resolve()"): _R_PATH,
    ("data_types.py", "FileMetadataInterface.populate_from_path", "p"): _R_PATH,
    ("data_types.py", "FileMetadataInterface.populate_from_path", "p.parent.resolve()"): _R_PATH,
    ("data_types.py", "FileMetadataInterface.populate_from_path", "p.parent"): _R_PATH,
    ("data_types.py", "EmailContent.iterate_supported_attachments", "file_type"): "enum / str naming the routed file type",
    ("data_types.py", "XlsContent.iterate_units", "cell"): _R_CELL,
    ("data_types.py", "OdtContent.iterate_units", "cell"): _R_CELL,
    ("html_extractor.py", "_HtmlTextExtractor._extract_headings", "level"): "int heading level",
    ("mail/eml_email_extractor.py", "_read_eml_format", "mail.text_plain"): _R_MAIL,
    ("mail/eml_email_extractor.py", "_read_eml_format", "mail.text_html"): _R_MAIL,
    ("mail/mbox_email_extractor.py", "get_body_content", "part.get('Content-Disposition', '')"): _R_MAIL,
    ("mail/eml_email_extractor.py", "_read_eml_format", "mail.message.get('Date', '')"): _R_MAIL + " or email.header.Header (str() = decoded text)",
    ("ms_legacy/xls_extractor.py", "_get_cell_values", "value"): _R_CELL,
    ("ms_legacy/xls_extractor.py", "_get_cell_value", "value"): _R_CELL,
    ("ms_modern/pptx_extractor.py", "_PptxContext._load_xml_files", "slide_name"): _R_TEXT,
    ("ms_modern/pptx_extractor.py", "_process_slide_from_context", "latex"): _R_TEXT,
    ("ms_modern/pptx_extractor.py", "_process_slide_from_context", "comment.author"): _R_TEXT,
    ("ms_modern/pptx_extractor.py", "_process_slide_from_context", "comment.date"): _R_TEXT,
    ("ms_modern/pptx_extractor.py", "_PptxContext._compute_slide_order", "target"): _R_TEXT,
    ("ms_modern/pptx_extractor.py", "_process_slide_from_context", "description"): _R_TEXT,
    ("ms_modern/xlsx_extractor.py", "_format_value_for_display", "value"): _R_CELL,
    ("ms_modern/xlsx_extractor.py", "_get_cell_value", "cell_value"): _R_CELL,
    ("ms_modern/xlsx_extractor.py", "_read_sheet_data", "val"): _R_CELL,
    ("ms_modern/xlsx_extractor.py", "_read_content_from_workbook", "sheet_name"): _R_TEXT,
    ("pdf/pdf_extractor.py", "_extract_image", "filter_type"): _R_PDFN + " (generated PDFs: /Filter as name, array, indirect reference)",
    ("pdf/pdf_extractor.py", "_normalize_text", "value"): _R_PDFN,
    ("pdf/pdf_extractor.py", "_patch_font_digit_map", "digit"): "int",
    ("pdf/pdf_extractor.py", "_extract_image", "name"): _R_PDFN + " (XObject dictionary key)",
    ("pdf/pdf_extractor.py", "_extract_page_mcid_data", "actual_text"): _R_PDFN,
    ("pdf/pdf_extractor.py", "_TableExtractor._build_row", "last_row[0]"): _R_CELL,
    ("pdf/pdf_extractor.py", "_TableExtractor._score_tables", "cell"): _R_CELL,
    ("plain_extractor.py", "_detect_and_decode", "best_match"): "charset_normalizer match: str() is the decoded text",
    ("serialization.py", "_serialize_for_json", "key"): "dict key of a result dataclass field (str / int)",
    ("util/ole_text.py", "decode_ole_text", "value"): "OLE property value: str / bytes decoded before / int",
    ("util/omml_to_latex.py", "process_element", "left"): _R_TEXT,
    ("util/omml_to_latex.py", "process_element", "right"): _R_TEXT,
    ("util/omml_to_latex.py", "process_element", "latex_fname"): _R_TEXT,
    ("util/omml_to_latex.py", "process_element", "latex_accent"): _R_TEXT,
}
ADDRESS_RE = __import__("re").compile(r"\bat 0x[0-9A-Fa-f]{6,}\b|<[\w.]+ object at |IndirectObject\(\d+, \d+, \d+\)")


def inventory_strip_patterns(pkg: Pkg):
    """(pattern, replacement) of every regex in the package whose pattern constant names IndirectObject; a compiled
    pattern is paired with the replacement of the .sub() calls on the name it is bound to ("?" if not found)"""
    out = []
    for rel, tree in pkg.mods.items():
        for n in ast.walk(tree):
            if not (isinstance(n, ast.Call) and isinstance(n.func, ast.Attribute) and n.args
                    and isinstance(n.args[0], ast.Constant) and isinstance(n.args[0].value, str) and "IndirectObject" in n.args[0].value):
                continue
            pat = n.args[0].value
            if n.func.attr in ("sub", "subn"):
                rep = n.args[1].value if len(n.args) > 1 and isinstance(n.args[1], ast.Constant) else "?"
                out.append((pat, str(rep)))
            elif n.func.attr == "compile":
                par = getattr(n, "_parent", None)
                nm = par.targets[0].id if isinstance(par, ast.Assign) and isinstance(par.targets[0], ast.Name) else None
                reps = [c.args[0].value for c in ast.walk(tree) if isinstance(c, ast.Call) and isinstance(c.func, ast.Attribute)
                        and c.func.attr in ("sub", "subn") and isinstance(c.func.value, ast.Name) and c.func.value.id == nm
                        and c.args and isinstance(c.args[0], ast.Constant)]
                out += [(pat, str(r)) for r in reps] or [(pat, "?")]
    return out


def classify_stringify(sites):
    for x in sites:
        key = (x["file"].split("/extractors/")[-1], x["func"], x["src"])
        if x["cls"] == "object" and key in REVIEWED_OBJECT_SITES:
            x["cls"] = "reviewed"
    return sites


def inventory_mime_reads(pkg: Pkg):
    """reads of the process-global MIME database (mimetypes.guess_type & co. on the module, not on a private
    MimeTypes instance) outside router.py (whose use is covered by C07: a known extension decides)"""
    out = []
    for rel, tree in pkg.mods.items():
        if rel.endswith("/router.py"):
            continue
        names = set()
        for n in ast.walk(tree):
            if isinstance(n, ast.Import):
                names |= {a.asname or a.name for a in n.names if a.name == "mimetypes"}
        for n in ast.walk(tree):
            if isinstance(n, ast.Attribute) and isinstance(n.value, ast.Name) and n.value.id in names and isinstance(n.ctx, ast.Load) \
                    and (n.attr.startswith("guess_") or n.attr in ("types_map", "common_types", "suffix_map", "encodings_map", "read_mime_types")):
                out.append({"file": rel, "func": pkg.func_name(n).split(".")[-1], "line": n.lineno, "what": "mimetypes." + n.attr})
            if isinstance(n, ast.ImportFrom) and n.module == "mimetypes":
                for a in n.names:
                    if a.name.startswith("guess_") or a.name in ("types_map", "common_types"):
                        out.append({"file": rel, "func": "<import>", "line": n.lineno, "what": "from mimetypes import " + a.name})
    return out


def stateful_modules(pkg: Pkg):
    """Modules of the package that hold state across calls: lru_cache / cache decorators, `global` statements,
    module-level instances of own classes, module-level containers mutated inside functions.  -> {rel: [reasons]}"""
    out = {}
    for rel, tree in pkg.mods.items():
        why = []
        classes = {n.name for n in tree.body if isinstance(n, ast.ClassDef)}
        containers = set()
        for n in tree.body:
            tgt = n.targets[0] if isinstance(n, ast.Assign) and len(n.targets) == 1 else n.target if isinstance(n, ast.AnnAssign) else None
            val = getattr(n, "value", None)
            if isinstance(tgt, ast.Name) and val is not None:
                if isinstance(val, ast.Call) and isinstance(val.func, ast.Name) and val.func.id in classes:
                    # an instance is state only if one of its methods (other than __init__) stores through self
                    cdef = next(c for c in tree.body if isinstance(c, ast.ClassDef) and c.name == val.func.id)
                    mut = False
                    for m in [x for x in cdef.body if isinstance(x, ast.FunctionDef) and x.name not in ("__init__", "__post_init__")]:
                        for y in ast.walk(m):
                            if isinstance(y, (ast.Attribute, ast.Subscript)) and isinstance(y.ctx, ast.Store):
                                r = y
                                while isinstance(r, (ast.Attribute, ast.Subscript)):
                                    r = r.value
                                mut |= isinstance(r, ast.Name) and r.id == "self"
                            if isinstance(y, ast.Call) and isinstance(y.func, ast.Attribute) and y.func.attr in MUTATORS:
                                r = y.func.value
                                while isinstance(r, (ast.Attribute, ast.Subscript)):
                                    r = r.value
                                mut |= isinstance(r, ast.Name) and r.id == "self" and r is not y.func.value
                    if mut:
                        why.append(f"module-level instance {tgt.id} = {val.func.id}() with self-mutating methods")
                if isinstance(val, (ast.Dict, ast.List, ast.Set)) or (isinstance(val, ast.Call) and isinstance(val.func, ast.Name)
                                                                    and val.func.id in ("dict", "list", "set", "defaultdict", "OrderedDict")):
                    containers.add(tgt.id)
        for n in ast.walk(tree):
            if isinstance(n, (ast.FunctionDef, ast.AsyncFunctionDef)):
                for d in n.decorator_list:
                    dn = d.func if isinstance(d, ast.Call) else d
                    nm = dn.id if isinstance(dn, ast.Name) else dn.attr if isinstance(dn, ast.Attribute) else ""
                    if nm in ("lru_cache", "cache", "cached_property") and nm != "cached_property":
                        why.append(f"@{nm} {n.name}")
                for m in ast.walk(n):
                    if isinstance(m, ast.Global):
                        why.append(f"global {','.join(m.names)} in {n.name}")
                    tg = None
                    if isinstance(m, ast.Assign):
                        tg = m.targets[0]
                    elif isinstance(m, ast.AugAssign):
                        tg = m.target
                    if isinstance(tg, ast.Subscript) and isinstance(tg.value, ast.Name) and tg.value.id in containers:
                        why.append(f"{tg.value.id}[...] = in {n.name}")
                    if isinstance(m, ast.Call) and isinstance(m.func, ast.Attribute) and m.func.attr in MUTATORS \
                            and isinstance(m.func.value, ast.Name) and m.func.value.id in containers:
                        why.append(f"{m.func.value.id}.{m.func.attr} in {n.name}")
        if why:
            out[rel] = sorted(set(why))
    return out


def import_closure(pkg: Pkg, rel):
    """package modules (transitively) imported by module rel, function-level imports included"""
    def resolve(mod):
        cand = mod.replace(".", "/")
        for r in (cand + ".py", cand + "/__init__.py"):
            if r in pkg.mods:
                return r
        return None
    seen, stack = set(), [rel]
    while stack:
        r = stack.pop()
        if r in seen or r not in pkg.mods:
            continue
        seen.add(r)
        for n in ast.walk(pkg.mods[r]):
            if isinstance(n, ast.ImportFrom) and n.module and n.level == 0 and n.module.startswith("sharepoint2text"):
                for cand in [n.module] + [n.module + "." + a.name for a in n.names]:
                    q = resolve(cand)
                    if q:
                        stack.append(q)
            elif isinstance(n, ast.Import):
                for a in n.names:
                    q = resolve(a.name) if a.name.startswith("sharepoint2text") else None
                    if q:
                        stack.append(q)
    return seen


def history_pairs(pkg: Pkg, exts):
    """ordered pairs (b, a) of extensions handled by DIFFERENT extractor modules that share a stateful module"""
    from sharepoint2text.parsing import router
    st = stateful_modules(pkg)
    mod_of = {}
    for e in exts:
        try:
            f = router.get_extractor("x" + e)
            mod_of[e] = f.__module__.replace(".", "/") + ".py"
        except Exception:  # noqa
            pass
    shared = {}
    for e, m in mod_of.items():
        shared[e] = {x for x in import_closure(pkg, m) if x in st}
    # one representative extension per extractor module (the aliases .docm/.dotx ... behave like their base)
    rep = {}
    for e in sorted(mod_of):
        rep.setdefault(mod_of[e], e)
    reps = sorted(rep.values())
    # state shared by EVERY extractor is already exercised by "isolated vs after all other formats"; the targeted pairs
    # are for state shared by some formats only, where a third format in between could mask the effect
    ubiquitous = set.intersection(*[shared[e] for e in reps]) if reps else set()
    return [(b, a) for b in reps for a in reps if b != a and (shared[b] & shared[a]) - ubiquitous]


USE_OK = {"UNone", "UMember", "ULen", "UAnyAll", "USorted"}


def gen_sites(ctx, pkg):
    sets = inventory_sets(pkg)
    nd = inventory_nondet(pkg)
    stream, modes = inventory_stream(pkg)
    writes = inventory_observer_writes(pkg)
    gw = inventory_global_writes(pkg)
    sf = classify_stringify(inventory_stringify(pkg))
    z = lambda n: f"({n})%Z"
    t = "(* GENERATED on every check run by tools/props/c06.py from the ast of the repo under test - do not edit. *)\n"
    t += "From Coq Require Import ZArith List.\nFrom S2T Require Import Lib.PyStr C06.Lib C06.Model.\nImport ListNotations.\n\n"
    t += "Definition set_sites : list site := [\n" + ";\n".join(
        f"  ({coq_str(x['file'])}, {coq_str(x['func'])}, {z(x['line'])}, {x['use']})" for x in sets) + "\n].\n\n"
    t += "Definition nd_sites : list nd_site := [\n" + ";\n".join(
        f"  ({coq_str(x['file'])}, {coq_str(x['func'])}, {z(x['line'])}, {coq_str(x['kind'])}, {x['sink']})" for x in nd) + "\n].\n\n"
    t += "Definition stream_sites : list stream_site := [\n" + ";\n".join(
        f"  ({coq_str(x['file'])}, {coq_str(x['func'])}, {z(x['line'])}, {coq_str(x['method'])})" for x in stream) + "\n].\n\n"
    t += "(* modes of zipfile.ZipFile(file_like, mode) / open(...) applied to the input object *)\n"
    t += "Definition open_modes : list (str * str * Z * str) := [\n" + ";\n".join(
        f"  ({coq_str(x['file'])}, {coq_str(x['func'])}, {z(x['line'])}, {coq_str(x['mode'])})" for x in modes) + "\n].\n\n"
    t += "(* stores through self / shared objects inside observer methods of data_types.py: (class, method, line) *)\n"
    t += "Definition observer_writes : list (str * str * Z) := [\n" + ";\n".join(
        f"  ({coq_str(x['cls'])}, {coq_str(x['method'])}, {z(x['line'])})" for x in writes) + "\n].\n"
    t += "\n(* writes to process-global state of the STANDARD LIBRARY (registries, environment, interpreter settings) *)\n"
    t += "Definition stdlib_global_writes : list (str * str * Z * str) := [\n" + ";\n".join(
        f"  ({coq_str(x['file'])}, {coq_str(x['func'])}, {z(x['line'])}, {coq_str(x['what'])})" for x in gw if x["kind"] == "stdlib") + "\n].\n"
    kname = {"stripped": "KStripped", "exception": "KException", "reviewed": "KReviewed", "object": "KObject"}
    t += "\n(* places where an object is turned into text that may reach a result (primitive operands omitted: %d sites) *)\n" % sum(
        1 for x in sf if x["cls"] == "primitive")
    t += "Definition stringify_sites : list (str * str * str * sclass) := [\n" + ";\n".join(
        f"  ({coq_str(x['file'])}, {coq_str(x['func'])}, {coq_str(x['src'])}, {kname[x['cls']]})" for x in sf if x["cls"] != "primitive") + "\n].\n"
    reorder = inventory_archive_reorder(pkg)
    t += "\n(* calls in archive_extractor.py that could re-order members or results *)\n"
    t += "Definition archive_reorder_sites : list (str * Z * str) := [\n" + ";\n".join(
        f"  ({coq_str(x['func'])}, {z(x['line'])}, {coq_str(x['what'])})" for x in reorder) + "\n].\n"
    pats = inventory_strip_patterns(pkg)
    t += "\n(* (pattern, replacement) of every re.sub / re.compile whose pattern names IndirectObject *)\n"
    t += "Definition strip_patterns : list (str * str) := [\n" + ";\n".join(
        f"  ({coq_str(a)}, {coq_str(b)})" for a, b in pats) + "\n].\n"
    ctx.gen_write("Gen/C06Sites.v", t)
    ctx.extra["strip_patterns"] = pats
    ctx.extra["stringify_sites"] = {k: sum(1 for x in sf if x["cls"] == k) for k in ("primitive", "stripped", "exception", "reviewed", "object")}
    ctx.extra["stringify_unclassified"] = [f"{x['file']}:{x['line']} {x['func']} {x['src']}" for x in sf if x["cls"] == "object"]
    ctx.extra["global_write_sites"] = [f"{x['kind']}: {x['file']}:{x['line']} {x['func']} {x['what']}" for x in gw]
    return sets, nd, stream, modes, writes


# =========================================================================================== D: ODT objects
def rnd_text(rng, words, k=4):
    return " ".join(rng.choice(words) for _ in range(rng.randint(0, k)))


def gen_odt_case(rng, size):
    """A random OdtContent described by plain data (so that it can be rebuilt in a worker / replay)."""
    words = ["alpha", "beta", "Gamma", "delta", "Fig", "fig 1", "cap", "T1", "x", "total", "Name", "Wert", "äß"]
    ws = ["", "", " ", "\n", "\t", " ", " "]
    paras = []
    for _ in range(rng.randint(0, size)):
        k = rng.random()
        txt = rng.choice(ws) + rnd_text(rng, words) + rng.choice(ws)
        if k < 0.25:
            paras.append({"text": txt, "style": rng.choice([None, "Heading_20_1", "P1"]), "outline": rng.choice([1, 1, 2, 3, 2, 0, 5])})
        elif k < 0.45:
            paras.append({"text": txt, "style": rng.choice(["Table_20_Contents", "Table1.A1", "TableX", "P_Table_"]), "outline": None})
        else:
            paras.append({"text": txt, "style": rng.choice([None, "", "P1", "Standard", "aTable", "Tabl"]), "outline": None})
    tables = []
    for _ in range(rng.randint(0, 3)):
        rows = [[rng.choice(ws) + rng.choice(words + [""]) for _ in range(rng.randint(0, 3))] for _ in range(rng.randint(0, 3))]
        tables.append(rows)
    heap = []
    for i in range(rng.randint(0, 4)):
        heap.append({"caption": rng.choice(["", "", "cap", "Fig", "alpha beta", "zzz"]),
                     "description": rng.choice(["", "", "delta", "x", "Gamma", "nope"]),
                     "unit_name": rng.choice([None, None, None, 1, 2, 7]), "rest": f"img{i}"})
    refs = []
    if heap:
        k = rng.random()
        if k < 0.7:
            refs = list(range(len(heap)))
        else:
            refs = [rng.randrange(len(heap)) for _ in range(rng.randint(0, 5))]
    return {"title": rng.choice(["", "", "Doc Title", "alpha"]), "paragraphs": paras, "tables": tables,
            "heap": heap, "images": refs, "full_text": rng.choice(ws) + rnd_text(rng, words, 8) + rng.choice(ws)}


def build_odt(case):
    from sharepoint2text.parsing.extractors import data_types as dt
    heap = [dt.OpenDocumentImage(href=i["rest"], caption=i["caption"], description=i["description"],
                                 unit_name=i["unit_name"]) for i in case["heap"]]
    c = dt.OdtContent(
        metadata=dt.OpenDocumentMetadata(title=case["title"]),
        paragraphs=[dt.OdtParagraph(text=p["text"], style_name=p["style"], outline_level=p["outline"]) for p in case["paragraphs"]],
        tables=[dt.OdtTable(data=[list(r) for r in t]) for t in case["tables"]],
        images=[heap[r] for r in case["images"]],
        full_text=case["full_text"])
    return c, heap


def img_tuple(i):
    return (i.caption, i.description, i.unit_name, i.href)


def impl_iterate_units(case):
    c, heap = build_odt(case)
    units = list(c.iterate_units())
    uv = [(u.text, u.unit_number, u.heading_level, list(u.heading_path), [img_tuple(i) for i in u.images],
           [[list(r) for r in t.data] for t in u.tables]) for u in units]
    return uv, [img_tuple(i) for i in heap]


def cq_img(t):
    return f"(mkImage {coq_str(t[0])} {coq_str(t[1])} {coq_opt(t[2], coq_Z)} {coq_str(t[3])})"


def cq_table(t):
    return coq_list([coq_list([coq_str(x) for x in r]) for r in t])


def cq_case(case, uv, heap_after):
    paras = coq_list([f"(mkPara {coq_str(p['text'])} {coq_opt(p['style'], coq_str)} {coq_opt(p['outline'], coq_Z)})"
                      for p in case["paragraphs"]])
    c = (f"(mkOdt {coq_str(case['title'])} {paras} {coq_list([cq_table(t) for t in case['tables']])} "
         f"{coq_list([str(r) + '%nat' for r in case['images']])} {coq_str(case['full_text'])})")
    h = coq_list([cq_img((i["caption"], i["description"], i["unit_name"], i["rest"])) for i in case["heap"]])
    units = coq_list([f"(mkUnit {coq_str(u[0])} {coq_Z(u[1])} {coq_opt(u[2], coq_Z)} {coq_list([coq_str(x) for x in u[3]])} "
                      f"{coq_list([cq_img(i) for i in u[4]])} {coq_list([cq_table(t) for t in u[5]])})" for u in uv])
    return f"({c}, {h}, {units}, {coq_list([cq_img(i) for i in heap_after])})"


# =========================================================================================== D: generated documents
PNG_1x1 = bytes.fromhex(
    "89504e470d0a1a0a0000000d49484452000000010000000108060000001f15c4890000000d4944415478da63646060f80f0001050101"
    "27183ea60000000049454e44ae426082")


def make_zip(members, corrupt=()):
    """members: [(name, bytes)].  Members named in `corrupt` are STORED and one payload byte is flipped afterwards,
    so the member is listed but its CRC check fails on read ("listed but unreadable")."""
    import zipfile
    buf = io.BytesIO()
    with zipfile.ZipFile(buf, "w") as z:
        for name, data in members:
            stored = name in corrupt or name == "mimetype"
            z.writestr(zipfile.ZipInfo(name, date_time=(2020, 1, 1, 0, 0, 0)), data,
                       compress_type=zipfile.ZIP_STORED if stored else zipfile.ZIP_DEFLATED)
        infos = {i.filename: i for i in z.infolist()}
    raw = bytearray(buf.getvalue())
    for name in corrupt:
        zi = infos[name]
        off = zi.header_offset + 30 + len(zi.filename.encode("utf-8")) + len(zi.extra) + zi.file_size // 2
        raw[off] ^= 0xFF
    return bytes(raw)


def recorrupt_zip(data, is_image):
    """Copy of a ZIP container in which the first image member is listed but unreadable; None if it has none."""
    import zipfile
    try:
        with zipfile.ZipFile(io.BytesIO(data)) as z:
            names = [i.filename for i in z.infolist() if not i.is_dir()]
            victim = next((n for n in names if is_image(n) and z.getinfo(n).file_size > 8), None)
            if victim is None:
                return None
            members = [(n, z.read(n)) for n in names]
    except Exception:  # noqa
        return None
    # keep `mimetype` first (ODF/EPUB)
    members.sort(key=lambda m: m[0] != "mimetype")
    return make_zip(members, corrupt={victim})


CORE_REL = "http://schemas.openxmlformats.org/package/2006/relationships/metadata/core-properties"


def repackage_ooxml(data, mode):
    """OPC-equivalent variants of an OOXML package: the core-properties part ...
       moved     lives where System.IO.Packaging puts it (/package/services/metadata/core-properties/<id>.psmdcp), found
                 through _rels/.rels only; docProps/core.xml is gone
       dropped   is absent (relationship removed)
       dateless  is kept but carries no dcterms:created / dcterms:modified
    None if the package has no docProps/core.xml."""
    import re as _re
    import zipfile
    try:
        with zipfile.ZipFile(io.BytesIO(data)) as z:
            members = [(i.filename, z.read(i.filename)) for i in z.infolist() if not i.is_dir()]
    except Exception:  # noqa
        return None
    d = dict(members)
    if "docProps/core.xml" not in d or "_rels/.rels" not in d:
        return None
    new_name = "package/services/metadata/core-properties/0a1b2c3d4e5f.psmdcp"
    rels = d["_rels/.rels"].decode("utf-8", "replace")
    ct = d.get("[Content_Types].xml", b"").decode("utf-8", "replace")
    out = []
    for name, raw in members:
        if name == "docProps/core.xml":
            if mode == "moved":
                if b"dcterms:created" not in raw:      # make sure the moved part carries the dates
                    dates = (b'<dcterms:created xsi:type="dcterms:W3CDTF">2020-01-02T03:04:05Z</dcterms:created>'
                             b'<dcterms:modified xsi:type="dcterms:W3CDTF">2021-02-03T04:05:06Z</dcterms:modified>')
                    if b"</cp:coreProperties>" in raw:
                        raw = raw.replace(b"</cp:coreProperties>", dates + b"</cp:coreProperties>")
                    else:
                        raw = _re.sub(rb"<cp:coreProperties\b([^>]*)/>", lambda m: b"<cp:coreProperties" + m.group(1) + b">" + dates + b"</cp:coreProperties>", raw)
                out.append((new_name, raw))
            elif mode == "dateless":
                out.append((name, _re.sub(rb"<dcterms:(created|modified)\b.*?</dcterms:\1>", b"", raw, flags=_re.S)))
            continue
        if name == "_rels/.rels":
            if mode == "moved":
                raw = _re.sub(r'Target="/?docProps/core\.xml"', f'Target="/{new_name}"', rels).encode()
            elif mode == "dropped":
                raw = _re.sub(r'<Relationship\b[^>]*core-properties[^>]*/>', "", rels).encode()
        if name == "[Content_Types].xml":
            if mode == "moved":
                raw = ct.replace('PartName="/docProps/core.xml"', f'PartName="/{new_name}"').replace(
                    "</Types>", '<Default Extension="psmdcp" ContentType="application/vnd.openxmlformats-package.core-properties+xml"/></Types>').encode()
            elif mode == "dropped":
                raw = _re.sub(r'<Override\b[^>]*docProps/core\.xml[^>]*/>', "", ct).encode()
        out.append((name, raw))
    return make_zip(out)


def xml_esc(t):
    return t.replace("&", "&amp;").replace("<", "&lt;").replace(">", "&gt;").replace('"', "&quot;")


def gen_epub(rng, names):
    subj = rng.sample(names, rng.randint(3, 6)) + rng.sample(NEAR_DUPLICATE_NAMES, 4)
    contrib = rng.sample(names, rng.randint(3, 6))
    creators = rng.sample(names, rng.randint(2, 4))
    dc = "".join(f"<dc:subject>{xml_esc(x)}</dc:subject>" for x in subj)
    dc += "".join(f"<dc:contributor>{xml_esc(x)}</dc:contributor>" for x in contrib)
    dc += "".join(f"<dc:creator>{xml_esc(x)}</dc:creator>" for x in creators)
    opf = ('<?xml version="1.0" encoding="UTF-8"?><package xmlns="http://www.idpf.org/2007/opf" version="3.0" '
           'unique-identifier="id"><metadata xmlns:dc="http://purl.org/dc/elements/1.1/"><dc:identifier id="id">urn:x:1'
           '</dc:identifier><dc:title>Generated book</dc:title><dc:language>en</dc:language>' + dc + '</metadata><manifest>'
           '<item id="c1" href="ch1.xhtml" media-type="application/xhtml+xml"/>'
           '<item id="c2" href="ch2.xhtml" media-type="application/xhtml+xml"/>'
           '<item id="i1" href="images/a.png" media-type="image/png"/>'
           '<item id="i2" href="images/b.png" media-type="image/png"/>'
           '</manifest><spine><itemref idref="c1"/><itemref idref="c2"/></spine></package>')
    ch = lambda t, img: (f'<?xml version="1.0"?><html xmlns="http://www.w3.org/1999/xhtml"><head><title>{t}</title></head>'
                         f'<body><h1>{t}</h1><p>{" ".join(rng.sample(names, 3))}</p><img src="images/{img}" alt="{t} pic"/></body></html>')
    cont = ('<?xml version="1.0"?><container version="1.0" xmlns="urn:oasis:names:tc:opendocument:xmlns:container"><rootfiles>'
            '<rootfile full-path="OEBPS/content.opf" media-type="application/oebps-package+xml"/></rootfiles></container>')
    return make_zip([("mimetype", b"application/epub+zip"), ("META-INF/container.xml", cont.encode()),
                     ("OEBPS/content.opf", opf.encode()), ("OEBPS/ch1.xhtml", ch("One", "a.png").encode()),
                     ("OEBPS/ch2.xhtml", ch("Two", "b.png").encode()), ("OEBPS/images/a.png", PNG_1x1),
                     ("OEBPS/images/b.png", PNG_1x1)], corrupt={"OEBPS/images/b.png"})


M_NS_DECL = 'xmlns:m="http://schemas.openxmlformats.org/officeDocument/2006/math"'
PNG_OTHER = PNG_1x1 + b"\x00" * 7       # a different picture (different bytes and size)


def gen_omml(rng, n):
    """n <m:oMath> elements: plain runs containing closing brackets, fractions, scripts, and radicals as Word
    sometimes writes them (the radical holds only the opening bracket) - closed later in the formula or never."""
    run = lambda t: f"<m:r><m:t>{xml_esc(t)}</m:t></m:r>"
    rad = lambda inner: f'<m:rad><m:radPr><m:degHide m:val="1"/></m:radPr><m:deg/><m:e>{inner}</m:e></m:rad>'
    out = []
    for i in range(n):
        k = i if i < 3 else rng.randrange(6)
        if k == 0:
            out.append(run(rng.choice(["f(x)", "g(y)+h(t)", "a[i]", "{z}", "p(q[r])"])))
        elif k == 1:       # malformed radical whose closing bracket never appears
            out.append(rad(run(rng.choice("([{"))) + run(rng.choice(["a+b", "x", "2y"])))
        elif k == 2:
            out.append(run(rng.choice(["u(v)", "w[k]", "s{t}", "(a)(b)"])))
        elif k == 3:       # malformed radical closed later
            br = rng.choice(["()", "[]", "{}"])
            out.append(rad(run(br[0])) + run("a+b" + br[1]))
        elif k == 4:
            out.append(f"<m:f><m:num>{run('1')}</m:num><m:den>{run('n(n+1)')}</m:den></m:f>")
        else:
            out.append(f"<m:sSup><m:e>{run('x')}</m:e><m:sup>{run('2')}</m:sup></m:sSup>" + rad(run("y")))
    return [f"<m:oMath {M_NS_DECL}>{x}</m:oMath>" for x in out]


def inject_pptx_formulas(data, formulas):
    """Copy of a PPTX fixture with the formulas placed into the first text paragraph of slide 1; None if not possible."""
    import zipfile
    try:
        with zipfile.ZipFile(io.BytesIO(data)) as z:
            members = [(i.filename, z.read(i.filename)) for i in z.infolist() if not i.is_dir()]
    except Exception:  # noqa
        return None
    done = False
    for k, (name, raw) in enumerate(members):
        if name == "ppt/slides/slide1.xml" and b"</a:p>" in raw:
            ins = "".join(f'<a14:m xmlns:a14="http://schemas.microsoft.com/office/drawing/2010/main">{f}</a14:m>' for f in formulas)
            members[k] = (name, raw.replace(b"</a:p>", ins.encode() + b"</a:p>", 1))
            done = True
    return make_zip(members) if done else None


def gen_docx(rng, names):
    W = "http://schemas.openxmlformats.org/wordprocessingml/2006/main"
    R = "http://schemas.openxmlformats.org/officeDocument/2006/relationships"
    styles = rng.sample(["Heading1", "Heading2", "Title", "Quote", "ListParagraph", "Caption", "BodyText", "Subtitle",
                         "IntenseQuote", "NoSpacing"], rng.randint(5, 9))
    urls = [f"https://example.org/{x.replace(' ', '_')}" for x in rng.sample(names, 4)]
    styles += [x.replace(" ", "") for x in rng.sample(NEAR_DUPLICATE_NAMES, 5)]
    styles = list(dict.fromkeys(styles))
    body = []
    for i, st in enumerate(styles * 2):
        body.append(f'<w:p><w:pPr><w:pStyle w:val="{xml_esc(st)}"/></w:pPr><w:r><w:t>{xml_esc(rng.choice(names))} {i}</w:t></w:r></w:p>')
    for i, u in enumerate(urls + urls[:2]):      # repeated relationship targets
        body.append(f'<w:p><w:hyperlink r:id="rIdH{i % len(urls)}"><w:r><w:t>link {i}</w:t></w:r></w:hyperlink></w:p>')
    for k, rid in enumerate(("rIdI1", "rIdI2", "rIdI3", "rIdI4")):
        body.append('<w:p><w:r><w:drawing><wp:inline xmlns:wp="http://schemas.openxmlformats.org/drawingml/2006/wordprocessingDrawing">'
                    f'<wp:docPr id="{k + 1}" name="Picture {k + 1}" descr="alt {k + 1}"/>'
                    '<a:graphic xmlns:a="http://schemas.openxmlformats.org/drawingml/2006/main"><a:graphicData>'
                    '<pic:pic xmlns:pic="http://schemas.openxmlformats.org/drawingml/2006/picture"><pic:blipFill>'
                    f'<a:blip r:embed="{rid}"/></pic:blipFill></pic:pic></a:graphicData></a:graphic></wp:inline></w:drawing></w:r></w:p>')
    for f in gen_omml(rng, rng.randint(3, 6)):
        body.append(f"<w:p><w:r><w:t>Let </w:t></w:r>{f}<w:r><w:t> hold.</w:t></w:r></w:p>")
    doc = f'<?xml version="1.0"?><w:document xmlns:w="{W}" xmlns:r="{R}"><w:body>' + "".join(body) + "</w:body></w:document>"
    rels = ['<?xml version="1.0"?><Relationships xmlns="http://schemas.openxmlformats.org/package/2006/relationships">']
    for i, u in enumerate(urls):
        rels.append(f'<Relationship Id="rIdH{i}" Type="{R}/hyperlink" Target="{u}" TargetMode="External"/>')
    rels.append(f'<Relationship Id="rIdI1" Type="{R}/image" Target="media/image1.png"/>')
    rels.append(f'<Relationship Id="rIdI2" Type="{R}/image" Target="media/image2.png"/>')
    # two parts whose names differ only in case (legal in a ZIP package), different pictures
    rels.append(f'<Relationship Id="rIdI3" Type="{R}/image" Target="media/logo.png"/>')
    rels.append(f'<Relationship Id="rIdI4" Type="{R}/image" Target="media/Logo.png"/>')
    rels.append("</Relationships>")
    ct = ('<?xml version="1.0"?><Types xmlns="http://schemas.openxmlformats.org/package/2006/content-types">'
          '<Default Extension="rels" ContentType="application/vnd.openxmlformats-package.relationships+xml"/>'
          '<Default Extension="xml" ContentType="application/xml"/><Default Extension="png" ContentType="image/png"/>'
          '<Override PartName="/word/document.xml" ContentType="application/vnd.openxmlformats-officedocument.'
          'wordprocessingml.document.main+xml"/></Types>')
    top = ('<?xml version="1.0"?><Relationships xmlns="http://schemas.openxmlformats.org/package/2006/relationships">'
           f'<Relationship Id="rId1" Type="{R}/officeDocument" Target="word/document.xml"/></Relationships>')
    kw = ", ".join(rng.sample(names, 3))
    core = ('<?xml version="1.0"?><cp:coreProperties xmlns:cp="http://schemas.openxmlformats.org/package/2006/metadata/'
            'core-properties" xmlns:dc="http://purl.org/dc/elements/1.1/" xmlns:dcterms="http://purl.org/dc/terms/" '
            'xmlns:xsi="http://www.w3.org/2001/XMLSchema-instance"><dc:title>Generated</dc:title>'
            f'<cp:keywords>{xml_esc(kw)}</cp:keywords></cp:coreProperties>')
    return make_zip([("[Content_Types].xml", ct.encode()), ("_rels/.rels", top.encode()), ("word/document.xml", doc.encode()),
                     ("word/_rels/document.xml.rels", "".join(rels).encode()), ("docProps/core.xml", core.encode()),
                     ("word/media/image1.png", PNG_1x1), ("word/media/image2.png", PNG_1x1),
                     ("word/media/logo.png", PNG_1x1), ("word/media/Logo.png", PNG_OTHER)],
                    corrupt={"word/media/image2.png"})


# pairs / triples of DISTINCT names that a "nicer" comparison (case folding, numbers by value, Unicode normalisation,
# stripped blanks) identifies: a sort key that is not injective leaves their relative order to set / dict iteration
NEAR_DUPLICATE_NAMES = ["P1", "P01", "p1", "P001", "Heading", "heading", "HEADING", "T7", "t7", "T07", "Stra\u00dfe", "STRASSE",
                        "strasse", "Caf\u00e9", "Cafe\u0301", "List 2", "List  2", "list 2", "\uff21bc", "Abc", "abc", "A10", "a10", "A010"]

# picture kinds found in ODF packages; their content type is looked up by file name (host MIME registry)
ODF_PICTURE_EXT = ("emf", "wmf", "svm", "svg", "jpg", "jpeg", "gif", "tif", "tiff", "bmp", "pct", "eps", "webp", "ico")


def gen_odt(rng, names):
    ns = ('xmlns:office="urn:oasis:names:tc:opendocument:xmlns:office:1.0" xmlns:style="urn:oasis:names:tc:opendocument:xmlns:style:1.0" '
          'xmlns:text="urn:oasis:names:tc:opendocument:xmlns:text:1.0" xmlns:draw="urn:oasis:names:tc:opendocument:xmlns:drawing:1.0" '
          'xmlns:xlink="http://www.w3.org/1999/xlink" xmlns:svg="urn:oasis:names:tc:opendocument:xmlns:svg-compatible:1.0" '
          'xmlns:meta="urn:oasis:names:tc:opendocument:xmlns:meta:1.0" xmlns:dc="http://purl.org/dc/elements/1.1/"')
    st = [f"P{i}" for i in range(1, rng.randint(5, 9))] + rng.sample(["Heading_20_1", "Text_20_body", "Caption", "Standard"], 3)
    st += rng.sample(NEAR_DUPLICATE_NAMES, 6)     # distinct names that collide under case folding / numeric reading / NFKC
    st = list(dict.fromkeys(st))
    auto = "".join(f'<style:style style:name="{xml_esc(x)}" style:family="paragraph"/>' for x in st)
    paras = ['<text:h text:outline-level="1" text:style-name="Heading_20_1">Chapter</text:h>']
    for i, x in enumerate(st):
        paras.append(f'<text:p text:style-name="{xml_esc(x)}">{xml_esc(rng.choice(names))} {i}</text:p>')
    pics = ["a.png", "b.png", "logo.png", "Logo.png"] + [f"p{i}.{e}" for i, e in enumerate(ODF_PICTURE_EXT)]
    for k, img in enumerate(pics):
        paras.append(f'<text:p><draw:frame draw:name="img{k}" svg:width="1cm" svg:height="1cm"><draw:image '
                     f'xlink:href="Pictures/{img}"/><svg:title>t{k}</svg:title></draw:frame></text:p>')
    content = (f'<?xml version="1.0"?><office:document-content {ns} office:version="1.2"><office:automatic-styles>{auto}'
               f'</office:automatic-styles><office:body><office:text>{"".join(paras)}</office:text></office:body></office:document-content>')
    styles = (f'<?xml version="1.0"?><office:document-styles {ns} office:version="1.2"><office:styles>'
              + "".join(f'<style:style style:name="S{i}" style:family="paragraph"/>' for i in range(5))
              + '</office:styles></office:document-styles>')
    meta = (f'<?xml version="1.0"?><office:document-meta {ns} office:version="1.2"><office:meta><dc:title>Generated</dc:title>'
            + "".join(f"<meta:keyword>{xml_esc(x)}</meta:keyword>" for x in rng.sample(names, 4))
            + '</office:meta></office:document-meta>')
    man = ('<?xml version="1.0"?><manifest:manifest xmlns:manifest="urn:oasis:names:tc:opendocument:xmlns:manifest:1.0">'
           '<manifest:file-entry manifest:full-path="/" manifest:media-type="application/vnd.oasis.opendocument.text"/>'
           '</manifest:manifest>')
    return make_zip([("mimetype", b"application/vnd.oasis.opendocument.text"), ("content.xml", content.encode()),
                     ("styles.xml", styles.encode()), ("meta.xml", meta.encode()), ("META-INF/manifest.xml", man.encode()),
                     ("Pictures/a.png", PNG_1x1), ("Pictures/b.png", PNG_1x1), ("Pictures/logo.png", PNG_1x1),
                     ("Pictures/Logo.png", PNG_OTHER)] + [(f"Pictures/p{i}.{e}", PNG_1x1 + e.encode())
                                                          for i, e in enumerate(ODF_PICTURE_EXT)],
                    corrupt={"Pictures/b.png"})


def gen_pdf(rng, j=0):
    """Minimal PDF (classic xref table) with image XObjects whose /ColorSpace is a name or an array holding an
    indirect reference, and whose caption entries (/Alt /Title /TU) may be non-string objects; object generation
    numbers other than 0 occur (valid after incremental updates).  The j-th document takes the (3j+k)-th combination
    of (colour space form, caption form, generation), so a handful of documents cover every form with every kind."""
    objs = {}   # num -> (gen, body bytes)
    def stream(d, data):
        return b"<< " + d + b" /Length " + str(len(data)).encode() + b" >>\nstream\n" + data + b"\nendstream"
    n_img = 3
    xobj = []
    nxt = 5
    for k in range(n_img):
        img, aux = nxt, nxt + 1
        nxt += 2
        i = 3 * j + k
        g = (1, 0, 7, 65534)[i % 4] if i % 7 else rng.randint(2, 600)
        form = ("icc", "indexed", "sep", "name", "icc")[i % 5]
        objs[aux] = (g, stream(b"/N 3", b"\x00" * 8))
        ref = f"{aux} {g} R".encode()
        cs = {"name": b"/DeviceRGB", "icc": b"[/ICCBased " + ref + b"]",
              "indexed": b"[/Indexed /DeviceRGB 1 " + ref + b"]",
              "sep": b"[/Separation /Spot /DeviceRGB " + ref + b"]"}[form]
        # /Filter as a name, an array, an indirect reference to a name, an array holding such a reference, or absent
        fobj = nxt
        nxt += 1
        fg = (0, 3, 1)[i % 3]
        objs[fobj] = (fg, b"/ASCIIHexDecode")
        fref = f"{fobj} {fg} R".encode()
        filt = (b"", b" /Filter /ASCIIHexDecode", b" /Filter [/ASCIIHexDecode]", b" /Filter " + fref, b" /Filter [" + fref + b"]")[i % 5]
        payload = b"ff0000>" if filt else b"\xff\x00\x00"
        extra = (b"", b" /Alt [" + ref + b"]", b" /Alt (a picture)", b" /Title " + ref, b" /TU << /K " + ref + b" >>",
                 b" /Caption [/X " + ref + b"]")[i % 6]
        objs[img] = (0, stream(b"/Type /XObject /Subtype /Image /Width 1 /Height 1 /BitsPerComponent 8 /ColorSpace " + cs + extra + filt,
                               payload))
        xobj.append(f"/Im{k} {img} 0 R".encode())
    content = b"BT /F1 12 Tf 20 100 Td (Generated page " + str(rng.randint(1, 99)).encode() + b") Tj ET " + \
        b" ".join(b"q 10 0 0 10 %d 20 cm /Im%d Do Q" % (20 * k, k) for k in range(n_img))
    objs[1] = (0, b"<< /Type /Catalog /Pages 2 0 R >>")
    objs[2] = (0, b"<< /Type /Pages /Kids [3 0 R] /Count 1 >>")
    objs[3] = (0, b"<< /Type /Page /Parent 2 0 R /MediaBox [0 0 200 200] /Contents 4 0 R /Resources << /Font << /F1 << /Type /Font "
               b"/Subtype /Type1 /BaseFont /Helvetica >> >> /XObject << " + b" ".join(xobj) + b" >> >> >>")
    objs[4] = (0, stream(b"", content))
    out = io.BytesIO()
    out.write(b"%PDF-1.4\n%\xe2\xe3\xcf\xd3\n")
    offs = {}
    for num in sorted(objs):
        g, body = objs[num]
        offs[num] = out.tell()
        out.write(f"{num} {g} obj\n".encode() + body + b"\nendobj\n")
    xref = out.tell()
    size = max(objs) + 1
    out.write(f"xref\n0 {size}\n".encode())
    out.write(b"0000000000 65535 f \n")
    for num in range(1, size):
        if num in objs:
            out.write(f"{offs[num]:010d} {objs[num][0]:05d} n \n".encode())
        else:
            out.write(b"0000000000 00000 f \n")
    out.write(f"trailer\n<< /Size {size} /Root 1 0 R >>\nstartxref\n{xref}\n%%EOF\n".encode())
    return out.getvalue()


def gen_html(rng, names):
    metas = "".join(f'<meta name="keywords" content="{xml_esc(x)}">' for x in rng.sample(names, 4))
    metas += "".join(f'<meta name="author" content="{xml_esc(x)}">' for x in rng.sample(names, 3))
    metas += "".join(f'<link rel="alternate" href="/{i}.html">' for i in range(4))
    body = "".join(f"<h{1 + i % 3}>{xml_esc(x)}</h{1 + i % 3}><p>{xml_esc(x)} <a href='/{i}'>l{i}</a> <a href='/{i % 2}'>again</a></p>"
                   for i, x in enumerate(rng.sample(names, 6)))
    return (f"<!doctype html><html lang='en'><head><title>Generated</title>{metas}</head><body>{body}"
            "<table><tr><th>a</th><th>b</th></tr><tr><td>1</td><td>2</td></tr></table></body></html>").encode()


def gen_mbox(rng, names):
    """mbox with 2-4 messages: Date header present (numeric zone / named zone), absent, or unparsable; the 'From '
    separator always carries an asctime stamp (no zone)."""
    out = []
    for k in range(rng.randint(2, 4)):
        stamp = f"{rng.choice(['Sun', 'Mon', 'Tue'])} {rng.choice(['Dec', 'Jan', 'Jul'])} {rng.randint(10, 28)} " \
                f"{rng.randint(0, 23):02d}:{rng.randint(0, 59):02d}:00 {rng.choice([2024, 2025])}"
        date = ("", "Date: Sun, 28 Dec 2025 23:30:00 +0100\n", "Date: yesterday afternoon\n", "Date: Mon, 1 Jul 2024 08:15:00 EST\n",
                "Date: 28 Dec 2025 23:30:00\n")[(k + rng.randrange(5)) % 5]
        out.append(f"From user{k}@example.org {stamp}\nFrom: {rng.choice(names)} <u{k}@example.org>\nTo: list@example.org\n"
                   f"Subject: {rng.choice(names)} {k}\n{date}Message-ID: <m{k}@example.org>\nContent-Type: text/plain; charset=utf-8\n\n"
                   f"Body of message {k}: {' '.join(rng.sample(names, 3))}\n\n")
    return "".join(out).encode("utf-8")


def gen_eml(rng, names, attach_sizes=(40,)):
    """multipart/mixed mail with a text body and text-family attachments of the given sizes (+ a csv)"""
    import base64
    b = "=_c06_boundary"
    date = rng.choice(["Date: Sun, 28 Dec 2025 23:30:00 +0100\r\n", "", "Date: Mon, 1 Jul 2024 08:15:00 -0500\r\n"])
    parts = [f"--{b}\r\nContent-Type: text/plain; charset=utf-8\r\n\r\nHello {rng.choice(names)},\r\nsee attachments.\r\n"]
    for k, n in enumerate(attach_sizes):
        line = f"attachment {k} {rng.choice(names)} 0123456789 abcdefghij\n".encode()
        data = (line * (n // len(line) + 1))[:n]
        ext = ("txt", "md", "csv", "json")[k % 4] if n < 100000 else "txt"
        parts.append(f"--{b}\r\nContent-Type: text/plain; name=\"a{k}.{ext}\"\r\nContent-Disposition: attachment; filename=\"a{k}.{ext}\"\r\n"
                     f"Content-Transfer-Encoding: base64\r\n\r\n" + base64.encodebytes(data).decode().replace("\n", "\r\n"))
    head = (f"From: {rng.choice(names)} <a@example.org>\r\nTo: b@example.org\r\nSubject: generated {rng.randint(1, 99)}\r\n{date}"
            f"Message-ID: <g{rng.randint(1, 9999)}@example.org>\r\nMIME-Version: 1.0\r\nContent-Type: multipart/mixed; boundary=\"{b}\"\r\n\r\n")
    return (head + "".join(parts) + f"--{b}--\r\n").encode("utf-8")


def gen_archive(rng, names, kind, n):
    """archive with n supported members whose cost DEcreases (the first submitted member is the slowest), so that any
    completion-order / scheduling dependence of the result order shows up"""
    import tarfile
    members = []
    for i in range(n):
        size = max(30, 400_000 >> (2 * i)) if i % 2 == 0 else 60 + i
        ext = ("txt", "csv", "md", "json", "html")[i % 5]
        word = rng.choice(names)
        if ext == "html":
            body = ("<html><body>" + f"<p>{xml_esc(word)} {i}</p>" * max(1, size // 40) + "</body></html>").encode()
        elif ext == "json":
            body = json.dumps({"k": [f"{word} {i}"] * max(1, size // 20)}).encode()
        else:
            body = (f"{word} member {i}, column b, 3\n" * max(1, size // 30)).encode()
        members.append((f"dir{i % 3}/m{i:02d}.{ext}", body))
    if kind == "zip":
        return make_zip(members)
    buf = io.BytesIO()
    with tarfile.open(fileobj=buf, mode={"tar": "w", "tar.gz": "w:gz"}[kind]) as tf:
        for name, body in members:
            ti = tarfile.TarInfo(name)
            ti.size = len(body)
            ti.mtime = 1_600_000_000
            tf.addfile(ti, io.BytesIO(body))
    data = buf.getvalue()
    if kind == "tar.gz":      # gzip header carries a time stamp: zero it (bytes 4..8)
        data = data[:4] + b"\x00\x00\x00\x00" + data[8:]
    return data


def size_boundaries(pkg, tier):
    """Input sizes at which code may switch strategy: 2^16, 2^20, 2^22 and every integer constant between 4 KiB and
    64 MiB that the extractor modules define (evaluated from the ast), each with its neighbours +-1."""
    consts, skipped = set(), set()
    for rel, tree in pkg.mods.items():
        for n in ast.walk(tree):
            tgt = n.targets[0] if isinstance(n, ast.Assign) and len(n.targets) == 1 else getattr(n, "target", None) if isinstance(n, ast.AnnAssign) else None
            val = getattr(n, "value", None)
            if isinstance(tgt, ast.Name) and tgt.id.lstrip("_").isupper() and val is not None:
                try:
                    v = eval(compile(ast.Expression(val), "<const>", "eval"), {"__builtins__": {}}, {})
                except Exception:  # noqa
                    continue
                sizeish = any(w in tgt.id.upper() for w in ("SIZE", "THRESHOLD", "LIMIT", "BYTES", "MAX", "MIN", "CHUNK", "BUF", "LARGE")) \
                    or v % 1024 == 0 if isinstance(v, int) else False
                if isinstance(v, int) and not isinstance(v, bool) and sizeish and 4096 <= v <= (64 << 20):
                    (consts if v <= (16 << 20 if tier == "thorough" else 6 << 20) else skipped).add(v)
    sizes = {1 << 16, 1 << 20, 1 << 22}
    for c in consts:
        sizes |= {c - 1, c, c + 1}
    return sorted(sizes), {"exercised": sorted(consts), "too_large_for_this_tier": sorted(skipped)}


IMAGE_EXT = (".png", ".jpg", ".jpeg", ".gif", ".bmp", ".emf", ".wmf", ".tif", ".tiff")
ZIP_EXT = {".docx", ".docm", ".xlsx", ".xlsm", ".pptx", ".pptm", ".odt", ".odp", ".ods", ".odg", ".epub"}
TEXT_EXT = {".txt", ".md", ".csv", ".tsv", ".json", ".html", ".htm", ".eml", ".rtf"}


def gen_documents(ctx, resources, outdir):
    """Write the generated inputs for the hash-seed / input-untouched / observer oracles:
       gen/      documents with repeated metadata / style / relationship elements and an unreadable image member
       corrupt/  fixtures whose first image member is listed but unreadable
       affix/    fixtures with a few junk bytes before / after (BOM, blank line, leftover HTTP header, trailer)"""
    rng = ctx.rng
    names = ["Alice Adams", "Bob Brown", "Carol", "Dave D.", "Erin", "Frank", "Grace", "Heidi", "physics", "chemistry",
             "history", "poetry", "maps", "law", "Zürich", "北京"]
    out = {}
    for k in range(ctx.n(2, 6)):
        out[f"gen/book{k}.epub"] = gen_epub(rng, names)
        out[f"gen/doc{k}.docx"] = gen_docx(rng, names)
        out[f"gen/text{k}.odt"] = gen_odt(rng, names)
        out[f"gen/page{k}.html"] = gen_html(rng, names)
    for k in range(ctx.n(6, 20)):
        out[f"gen/images{k}.pdf"] = gen_pdf(rng, k)
    for k in range(ctx.n(3, 8)):
        out[f"gen/box{k}.mbox"] = gen_mbox(rng, names)
        out[f"gen/mail{k}.eml"] = gen_eml(rng, names, attach_sizes=[rng.choice([10, 200, 5000]) for _ in range(rng.randint(1, 3))])
    for k, (kind, n) in enumerate([("zip", 3), ("zip", 9), ("zip", 14), ("tar", 10), ("tar.gz", 12), ("tar", 2)][: ctx.n(6, 6)]):
        out[f"gen/pack{k}-{n}.{kind}"] = gen_archive(rng, names, kind, n)
    # sizes at which code may switch strategy (plain-text family is cheap to pad; one mail with such an attachment)
    sizes, consts = size_boundaries(Pkg(REPO), ctx.tier)
    ctx.extra["size_boundaries"] = {"sizes": sizes, "constants_from_ast": consts}
    line = "a line of plain text, columns, 0123456789\n".encode()
    for i, n in enumerate(sizes):
        ext = ("txt", "csv", "md")[i % 3]
        out[f"gen/size{n}.{ext}"] = (line * (n // len(line) + 1))[:n]
    big = [n for n in sizes if n >= (1 << 22)][:1] or sizes[-1:]
    out["gen/mail-big-attachment.eml"] = gen_eml(rng, names, attach_sizes=[300] + big)
    pptx = sorted((q for q in resources.rglob("*.pptx") if "password" not in str(q)), key=lambda q: (q.stat().st_size, q.name))
    for k, q in enumerate(pptx[: ctx.n(2, 4)]):
        d = inject_pptx_formulas(q.read_bytes(), gen_omml(rng, rng.randint(3, 6)))
        if d is not None:
            out[f"gen/formulas{k}__{q.stem}.pptx"] = d
    by_ext = {}
    for p in sorted(resources.rglob("*")):
        if p.is_file() and "password" not in str(p):
            by_ext.setdefault(p.suffix.lower(), []).append(p)
    is_img = lambda n: n.lower().endswith(IMAGE_EXT)
    for ext, ps in sorted(by_ext.items()):
        ps.sort(key=lambda q: (q.stat().st_size, q.name))
        if ext in ZIP_EXT:
            done = 0
            for q in ps:
                if q.stat().st_size > 3_000_000 or done >= ctx.n(1, 3):
                    continue
                c = recorrupt_zip(q.read_bytes(), is_img)
                if c is not None:
                    out[f"corrupt/{q.stem}{ext}"] = c
                    done += 1
        if ext in (".docx", ".docm", ".xlsx", ".xlsm", ".pptx", ".pptm"):
            done = 0
            for q in ps:
                if q.stat().st_size > 1_000_000 or done >= ctx.n(2, 4):
                    continue
                made = False
                for mode in ("moved", "dropped", "dateless"):
                    r = repackage_ooxml(q.read_bytes(), mode)
                    if r is not None:
                        out[f"repack/{mode}__{q.stem}{ext}"] = r
                        made = True
                done += made
        for q in ps[: ctx.n(1, 3)]:
            data = q.read_bytes()
            if len(data) > 1_500_000:
                continue
            pre = [("bom", b"\xef\xbb\xbf"), ("blank", b"\r\n"),
                   ("http", b"HTTP/1.1 200 OK\r\nContent-Type: application/octet-stream\r\nContent-Length: " +
                    str(len(data)).encode() + b"\r\n\r\n")]
            if ext not in ZIP_EXT and ext not in TEXT_EXT and ext != ".pdf":
                pre = pre[:1]         # binary containers (OLE2, archives): one prefix variant is enough, they reject it
            for tag, junk in pre:
                out[f"affix/pre-{tag}__{q.stem}{ext}"] = junk + data
            out[f"affix/post-junk__{q.stem}{ext}"] = data + b"\r\n\r\n\x00trailing junk\n"
    for rel, data in out.items():
        f = outdir / rel
        f.parent.mkdir(parents=True, exist_ok=True)
        f.write_bytes(data)
    ctx.count("generated-inputs", len(out))
    return sorted(out)


def large_payload_objects(sizes):
    """content objects whose image payload (io.BytesIO) has one of the boundary sizes"""
    from sharepoint2text.parsing.extractors import data_types as dt
    out = []
    for n in sizes:
        blob = lambda: io.BytesIO(PNG_1x1 + b"\x00" * max(0, n - len(PNG_1x1)))
        try:
            out.append((f"DocxContent[{n}]", dt.DocxContent(images=[dt.DocxImage(data=blob(), size_bytes=n), dt.DocxImage(data=blob())], full_text="t")))
            out.append((f"OdtContent[{n}]", dt.OdtContent(images=[dt.OpenDocumentImage(data=blob(), href="Pictures/a.png"),
                                                                   dt.OpenDocumentImage(data=blob(), href="Pictures/b.png")],
                                                           full_text="t", paragraphs=[dt.OdtParagraph(text="t")])))
            out.append((f"XlsxContent[{n}]", dt.XlsxContent(sheets=[dt.XlsxSheet(name="s", images=[dt.XlsxImage(data=blob()), dt.XlsxImage(data=blob())])])))
        except Exception as e:  # noqa
            out.append((f"unbuildable[{n}]:{type(e).__name__}", None))
    return out


def placeholder_objects():
    """Content objects holding error-placeholder images (no payload), built in memory:
    [(label, content object)] ; classes that cannot be built this way are returned in `skipped`."""
    import dataclasses
    from sharepoint2text.parsing.extractors import data_types as dt
    objs, skipped = [], []

    def mk(cls, **kw):
        for f in dataclasses.fields(cls):
            if f.name in kw or f.default is not dataclasses.MISSING or f.default_factory is not dataclasses.MISSING:
                continue
            kw[f.name] = 1 if "int" in str(f.type) else "x"
        return cls(**kw)

    def imgs(cls):
        full = {"data": io.BytesIO(PNG_1x1)} if "BytesIO" in str({f.name: f.type for f in dataclasses.fields(cls)}.get("data")) else {}
        return [mk(cls, error="unreadable") if any(f.name == "error" for f in dataclasses.fields(cls)) else mk(cls), mk(cls, **full)]

    plans = [
        ("DocxContent", lambda: mk(dt.DocxContent, images=imgs(dt.DocxImage), full_text="t")),
        ("EpubContent", lambda: mk(dt.EpubContent, images=imgs(dt.EpubImage))),
        ("OdtContent", lambda: mk(dt.OdtContent, images=imgs(dt.OpenDocumentImage), full_text="t",
                                  paragraphs=[dt.OdtParagraph(text="t")])),
        ("OdgContent", lambda: mk(dt.OdgContent, images=imgs(dt.OpenDocumentImage))),
        ("OdpContent", lambda: mk(dt.OdpContent, slides=[mk(dt.OdpSlide, images=imgs(dt.OpenDocumentImage))])),
        ("OdsContent", lambda: mk(dt.OdsContent, sheets=[mk(dt.OdsSheet, images=imgs(dt.OpenDocumentImage))])),
        ("XlsxContent", lambda: mk(dt.XlsxContent, sheets=[mk(dt.XlsxSheet, images=imgs(dt.XlsxImage))])),
        ("PptxContent", lambda: mk(dt.PptxContent, slides=[mk(dt.PptxSlide, images=imgs(dt.PptxImage))])),
        ("RtfContent", lambda: mk(dt.RtfContent, images=imgs(dt.RtfImage))),
    ]
    for label, f in plans:
        try:
            objs.append((label, f()))
        except Exception as e:  # noqa
            skipped.append(f"{label}: {type(e).__name__}: {e}")
    return objs, skipped


def typed_instances(rng, variants, exhaustive=False):
    """Type-directed in-memory instances of EVERY content dataclass of data_types.py (everything that has
    iterate_units/to_json/get_full_text), built from the resolved type hints: each str / Optional / list / dict field is
    independently empty or filled, nested dataclasses (units, slides, sheets, images, tables ...) recursively.
    -> [(label, instance)], [classes that could not be built]"""
    import dataclasses
    import types
    import typing
    from sharepoint2text.parsing.extractors import data_types as dt
    hints_cache = {}

    def hints(cls):
        if cls not in hints_cache:
            try:
                hints_cache[cls] = typing.get_type_hints(cls, vars(dt))
            except Exception:  # noqa
                hints_cache[cls] = {f.name: typing.Any for f in dataclasses.fields(cls)}
        return hints_cache[cls]

    words = ["alpha", "Beta gamma", "Table 1", "x", "Ünï", "line one\nline two"]

    def value(tp, fill, depth, name=""):
        origin = typing.get_origin(tp)
        if origin is typing.Union or origin is types.UnionType:
            args = [a for a in typing.get_args(tp) if a is not type(None)]
            if type(None) in typing.get_args(tp) and not fill(name):
                return None
            return value(rng.choice(args) if args else str, fill, depth, name)
        if origin in (list, typing.List) or tp is list:
            args = typing.get_args(tp)
            if not fill(name) or depth > 5:
                return []
            return [value(args[0] if args else str, fill, depth + 1, name) for _ in range(rng.randint(1, 2))]
        if origin in (dict, typing.Dict) or tp is dict:
            args = typing.get_args(tp)
            if not fill(name) or depth > 5:
                return {}
            kt = args[0] if args else str
            return {(value(kt, lambda _n: True, depth + 1) if kt is not str else rng.choice(words)):
                    value(args[1] if len(args) > 1 else str, fill, depth + 1, name)}
        if origin in (tuple, typing.Tuple):
            return tuple(value(a, fill, depth + 1, name) for a in typing.get_args(tp) if a is not Ellipsis)
        if isinstance(tp, type) and dataclasses.is_dataclass(tp):
            return build(tp, fill, depth + 1)
        if tp is str:
            return rng.choice(words) if fill(name) else ""
        if tp is bool:
            return fill(name)
        if tp is int:
            return rng.randint(1, 3) if fill(name) else 0
        if tp is float:
            return 1.5 if fill(name) else 0.0
        if tp is bytes:
            return PNG_1x1 if fill(name) else b""
        if tp is io.BytesIO:
            return io.BytesIO(PNG_1x1 if fill(name) else b"")
        if isinstance(tp, type) and issubclass(tp, dict):
            return tp()
        if isinstance(tp, type) and getattr(tp, "_is_protocol", False):
            # interface-typed field (ImageInterface, TableInterface ...): pick a concrete dataclass implementing it
            impl = [c for c in vars(dt).values() if isinstance(c, type) and dataclasses.is_dataclass(c)
                    and tp in c.__mro__ and c is not tp]
            if impl:
                return build(sorted(impl, key=lambda c: c.__name__)[rng.randrange(len(impl))], fill, depth + 1)
        return rng.choice(words) if fill(name) else None     # typing.Any and anything unknown

    def build(cls, fill, depth=0):
        kw = {}
        h = hints(cls)
        for f in dataclasses.fields(cls):
            if not f.init:
                continue
            kw[f.name] = value(h.get(f.name, typing.Any), fill, depth, f.name)
        return cls(**kw)

    def field_names(cls, seen):
        """names of all fields in the closure of cls (nested dataclasses and interface implementations)"""
        if cls in seen:
            return set()
        seen.add(cls)
        names = set()
        for f in dataclasses.fields(cls):
            names.add(f.name)
            stack = [hints(cls).get(f.name)]
            while stack:
                tp = stack.pop()
                stack.extend(typing.get_args(tp))
                if isinstance(tp, type) and dataclasses.is_dataclass(tp):
                    names |= field_names(tp, seen)
                elif isinstance(tp, type) and getattr(tp, "_is_protocol", False):
                    for c in vars(dt).values():
                        if isinstance(c, type) and dataclasses.is_dataclass(c) and tp in c.__mro__ and c is not tp:
                            names |= field_names(c, seen)
        return names

    out, failed = [], []
    content = [c for n, c in sorted(vars(dt).items()) if isinstance(c, type) and dataclasses.is_dataclass(c)
               and all(hasattr(c, m) for m in ("iterate_units", "to_json", "get_full_text")) and c.__module__ == dt.__name__]
    for cls in content:
        fills = [("all", lambda _n: True), ("none", lambda _n: False)]
        # systematic: everything filled except the fields called X (title absent, body present ...), for every X
        for x in sorted(field_names(cls, set())):
            fills.append((f"all-but-{x}", lambda n, x=x: n != x))
            if exhaustive:
                fills.append((f"only-{x}", lambda n, x=x: n == x))
        for k in range(variants):
            pr = rng.choice([0.3, 0.5, 0.7])
            fills.append((f"rnd{k}", lambda _n, pr=pr: rng.random() < pr))
        for tag, fill in fills:
            try:
                out.append((f"{cls.__name__}#{tag}", build(cls, fill)))
            except Exception as e:  # noqa
                failed.append(f"{cls.__name__}#{tag}: {type(e).__name__}: {str(e)[:80]}")
    return out, failed, [c.__name__ for c in content]


def snapshot_oracle(obj):
    """Every observer and every unit / image / table accessor twice; a deep snapshot (all dataclass fields, lists and
    dicts copied) of the whole object before and after each call.  -> [(blamed accessor, kind)]"""
    bad = []
    names = [n for n in OBSERVERS + PSEUDO if n != "to_json"] + ["to_json"]
    blamed = set()
    for name in names:
        vals = []
        for rep in range(2):
            start = canon(obj)
            blame = f"{type(obj).__name__}.{name}"
            try:
                v, blame, _ = call_observer(obj, name, lambda: canon(obj))
            except Exception as e:  # noqa
                v = ("raises", type(e).__name__)
            vals.append(v)
            if canon(obj) != start:
                if blame not in blamed:
                    blamed.add(blame)
                    bad.append((blame, "modifies the object it observes (deep snapshot before/after differs)"))
                break
        else:
            if vals[0] != vals[1]:
                bad.append((blame, "returns a different value when called twice in a row"))
    return bad


def describe_instance(obj, limit=1500):
    import dataclasses
    def go(v, d):
        if dataclasses.is_dataclass(v) and not isinstance(v, type):
            return {"_type": type(v).__name__, **{f.name: go(getattr(v, f.name), d + 1) for f in dataclasses.fields(v)}}
        if isinstance(v, (list, tuple)):
            return [go(x, d + 1) for x in v]
        if isinstance(v, dict):
            return {str(k): go(x, d + 1) for k, x in v.items()}
        if isinstance(v, io.BytesIO):
            return {"_bytesio_len": len(v.getvalue())}
        if isinstance(v, (bytes, bytearray)):
            return {"_bytes_len": len(v)}
        return v if isinstance(v, (str, int, float, bool)) or v is None else repr(v)
    return go(obj, 0)


# =========================================================================================== D: observers
def canon(v, depth=0):
    """Canonical, address-free rendering of an observer's return value."""
    import dataclasses
    if isinstance(v, io.BytesIO):
        pos = v.tell()
        d = hashlib.sha256(v.getvalue()).hexdigest()[:16]
        v.seek(pos)
        return ("bytesio", d)
    if isinstance(v, (bytes, bytearray)):
        return ("bytes", hashlib.sha256(bytes(v)).hexdigest()[:16])
    if dataclasses.is_dataclass(v) and not isinstance(v, type):
        return (type(v).__name__, tuple((f.name, canon(getattr(v, f.name), depth + 1)) for f in dataclasses.fields(v)))
    if isinstance(v, dict):
        return ("dict", tuple((str(k), canon(x, depth + 1)) for k, x in v.items()))
    if isinstance(v, (list, tuple)):
        return ("list", tuple(canon(x, depth + 1) for x in v))
    if isinstance(v, (set, frozenset)):
        return ("set", tuple(sorted(repr(canon(x, depth + 1)) for x in v)))
    if isinstance(v, (str, int, float, bool)) or v is None:
        return v
    return ("repr", type(v).__name__)


def digest_json(obj):
    return hashlib.sha256(json.dumps(obj.to_json(), sort_keys=True, default=repr).encode("utf-8", "surrogatepass")).hexdigest()


def digest_json_safe(obj):
    try:
        return digest_json(obj)
    except Exception as e:  # noqa   (a to_json() that starts raising after an observer call is a change, too)
        return "to_json raises " + type(e).__name__ + ": " + str(e)[:80]


IMAGE_ACCESSORS = ("get_bytes", "get_content_type", "get_caption", "get_description", "get_metadata")
PSEUDO = tuple("images." + a for a in IMAGE_ACCESSORS) + ("tables.get_table", "tables.get_dim", "attachments.iterate")


def all_images(obj, probe=None):
    """every image object reachable through the interface: document level and per unit.
    With `probe` (a function returning a token of the object's state) -> (images, accessor that changed the state while
    the images were being gathered, or None)."""
    culprit = None
    t0 = probe() if probe else None
    out = list(obj.iterate_images())
    if probe and probe() != t0:
        culprit, t0 = f"{type(obj).__name__}.iterate_images", probe()
    seen = {id(i) for i in out}
    for u in obj.iterate_units():
        for i in u.get_images():
            if id(i) not in seen:
                seen.add(id(i))
                out.append(i)
    if probe and culprit is None and probe() != t0:
        culprit = f"{type(obj).__name__}.iterate_units"
    return (out, culprit) if probe else out


def gather(obj, name, probe):
    """targets of a pseudo-observer -> (targets, method, blame name, culprit of a state change while gathering)"""
    kind, m = name.split(".", 1)
    if kind == "images":
        ts, culprit = all_images(obj, probe)
    else:
        t0 = probe()
        ts = list(obj.iterate_tables())
        culprit = f"{type(obj).__name__}.iterate_tables" if probe() != t0 else None
    return ts, m, (f"{type(ts[0]).__name__}.{m}" if ts else f"{type(obj).__name__}.{name}"), culprit


def call_observer(obj, name, probe=None):
    """-> (canonical value, name to blame, state token before the call proper).  `images.<m>` / `tables.<m>` call
    accessor m on every image / table; gathering them is not part of the observed call."""
    probe = probe or (lambda: None)
    if name == "attachments.iterate":
        before = probe()
        f = getattr(obj, "iterate_supported_attachments", None)
        r = [type(x).__name__ + ":" + hashlib.sha256(json.dumps(x.to_json(), sort_keys=True, default=repr).encode("utf-8", "surrogatepass")).hexdigest()[:16]
             for x in f()] if f else []
        return r, f"{type(obj).__name__}.iterate_supported_attachments", before
    if "." in name:
        ts, m, blame, culprit = gather(obj, name, probe)
        if culprit:
            return None, culprit, None
        before = probe()
        vals = [getattr(t_, m)() for t_ in ts]
        v = canon(vals)
        # a consumer USES what it gets: read the returned streams (fully / partly / seek to the end)
        for k, x in enumerate(vals):
            if isinstance(x, io.BytesIO) and not x.closed:
                if k % 3 == 0:
                    x.read()
                elif k % 3 == 1:
                    x.read(max(1, len(x.getvalue()) // 2))
                else:
                    x.seek(0, 2)
        return v, blame, before
    before = probe()
    r = getattr(obj, name)()
    if name.startswith("iterate_"):
        r = list(r)
        if name == "iterate_units":
            # a unit is observed through its own accessors as well
            r = [(u, u.get_text(), u.get_images(), u.get_tables(), u.get_metadata()) for u in r]
    return canon(r), f"{type(obj).__name__}.{name}", before


def observer_sequence_oracle(obj, seq, label):
    """Run the observer sequence; report (blamed accessor, kind) pairs violating idempotence / purity."""
    bad = []
    try:
        d0 = digest_json(obj)
    except Exception as e:  # noqa  (C05's business; nothing to compare then)
        return []
    first = {}
    for name in seq:
        blame = f"{type(obj).__name__}.{name}"
        try:
            v, blame, _ = call_observer(obj, name, lambda: digest_json_safe(obj))
        except Exception as e:  # noqa
            v = ("raises", type(e).__name__)
        d = digest_json_safe(obj)
        if d != d0:
            # this call wrote to the result: blame it, and start afresh (later differences are consequences)
            bad.append((blame, "changes a later to_json()" + (f" ({d})" if d.startswith("to_json raises") else "")))
            d0 = d
            first = {}
            continue
        if name in first and first[name] != v:
            bad.append((blame, "returns a different value when called again (no write in between)"))
        first.setdefault(name, v)
    return bad


# =========================================================================================== D: worker
def leaf_digests(j):
    """JSON -> {path with list indices erased: digest of the sequence of leaves under it}"""
    acc = {}

    def go(x, path):
        if isinstance(x, dict):
            if set(x) == {"_bytesio"} or set(x) == {"_bytes"}:
                acc.setdefault(path, hashlib.sha256()).update(repr(x).encode())
                return
            acc.setdefault(path + "{keys}", hashlib.sha256()).update(repr(list(x)).encode())
            for k, v in x.items():
                go(v, path + "." + str(k))
        elif isinstance(x, list):
            acc.setdefault(path + "[len]", hashlib.sha256()).update(str(len(x)).encode())
            for v in x:
                go(v, path + "[]")
        else:
            acc.setdefault(path, hashlib.sha256()).update((repr(x) + "\x00").encode("utf-8", "surrogatepass"))
            if isinstance(x, str) and ADDRESS_RE.search(x):
                leaks.setdefault(path, x[:120])
    leaks = {}
    go(j, "")
    d = {k: h.hexdigest()[:16] for k, h in acc.items()}
    if leaks:
        d["__address_like__"] = json.dumps(leaks, sort_keys=True)
    return d


HOSTILE_TYPE = "application/x-c06-hostile"


def apply_mime_config(kind):
    """Process-wide mimetypes database of the worker: "" (host default), "empty" (knows nothing), "hostile" (every
    extension the fixtures / generators use, and every extension the default database knows, maps to a wrong type)."""
    import mimetypes
    if kind == "empty":
        db = mimetypes.MimeTypes(filenames=())
        for m in (db.types_map, db.types_map_inv, db.encodings_map, db.suffix_map):
            for d in (m if isinstance(m, tuple) else (m,)):
                d.clear()
        mimetypes._db = db
        mimetypes.inited = True
        for name in ("types_map", "common_types", "encodings_map", "suffix_map"):
            getattr(mimetypes, name).clear()
    elif kind == "hostile":
        mimetypes.init()
        exts = set(mimetypes.types_map) | set(mimetypes.common_types) | {"." + e for e in ODF_PICTURE_EXT} | \
            {".png", ".xhtml", ".html", ".css", ".ncx", ".opf", ".xml", ".rels"}
        for e in sorted(exts):
            mimetypes.add_type(HOSTILE_TYPE, e, strict=True)


def worker_main(argv):
    """python c06.py --worker <out.json> <root> [<root> ...] : extract every supported file under the roots in one
    full pass, then all of them again in reverse order (A, B, ..., B, A): the second extraction of every input
    happens after every other input went through the same process."""
    import logging
    logging.disable(logging.CRITICAL)
    import warnings
    warnings.filterwarnings("ignore")
    apply_mime_config(os.environ.get("C06_MIME", ""))     # before anything of the package is imported
    from sharepoint2text.parsing.router import get_extractor, is_supported_file
    inputs = []
    # history workers: "ext" = only inputs of that extension; "b,a" = all inputs of b first, then those of a
    only = [e for e in os.environ.get("C06_ONLY_EXT", "").split(",") if e]
    for k, root in enumerate(Path(a) for a in argv[1:]):
        for p in sorted(root.rglob("*")):
            if p.is_file() and is_supported_file(str(p)) and (not only or p.suffix.lower() in only):
                inputs.append((("" if k == 0 else f"@{k}/") + str(p.relative_to(root)), p))
    if only:
        inputs.sort(key=lambda x: only.index(x[1].suffix.lower()))      # stable: path order inside one extension
    res = {rel: [] for rel, _ in inputs}
    reuse = os.environ.get("C06_REUSE") == "1"
    for order in (inputs, list(reversed(inputs))):
        for rel, p in order:
            data = p.read_bytes()
            buf = io.BytesIO(data)
            try:
                objs = list(get_extractor(str(p))(buf, str(p)))
                js = [o.to_json() for o in objs]
                run_ = {"ok": True, "types": [type(o).__name__ for o in objs], "leaves": [leaf_digests(j) for j in js],
                        "digest": hashlib.sha256(json.dumps(js, sort_keys=True, default=repr).encode("utf-8", "surrogatepass")).hexdigest()}
            except Exception as e:  # noqa
                run_ = {"ok": False, "types": [], "leaves": [], "digest": "EXC:" + type(e).__name__ + ":" + str(e)[:200]}
            if buf.closed:
                run_["input_same"] = False
                run_["input_after"] = {"closed": True}
            else:
                run_["input_same"] = (buf.getvalue() == data)
                if not run_["input_same"]:
                    after = buf.getvalue()
                    run_["input_after"] = {"len": len(after), "sha256": hashlib.sha256(after).hexdigest()[:16]}
                elif reuse and order is inputs and run_["ok"]:
                    # the caller may extract again from the SAME buffer object (position wherever the extractor left it)
                    try:
                        js2 = [o.to_json() for o in get_extractor(str(p))(buf, str(p))]
                        d2 = hashlib.sha256(json.dumps(js2, sort_keys=True, default=repr).encode("utf-8", "surrogatepass")).hexdigest()
                    except Exception as e:  # noqa
                        d2 = "EXC:" + type(e).__name__ + ":" + str(e)[:120]
                    if d2 != run_["digest"]:
                        run_["reuse"] = d2[:80]
            res[rel].append(run_)
    Path(argv[0]).write_text(json.dumps(res))


def spawn_workers(ctx, jobs, roots, outdir, parallel=10):
    """jobs: [(label, {env})] -> one subprocess each (PYTHONHASHSEED=0 unless given), at most `parallel` at a time.
    -> [(label, result dict)]"""
    results = []
    for start in range(0, len(jobs), parallel):
        procs = []
        for i, (label, extra) in enumerate(jobs[start:start + parallel]):
            env = dict(os.environ)
            env["PYTHONHASHSEED"] = "0"
            env.update({k: str(v) for k, v in extra.items()})
            out = outdir / f"w{start + i}-{abs(hash(str(label))) % 10**8}.json"
            procs.append((label, out, subprocess.Popen(
                [sys.executable, str(Path(__file__).resolve()), "--worker", str(out)] + [str(r) for r in roots],
                env=env, stdout=subprocess.PIPE, stderr=subprocess.STDOUT, text=True)))
        for label, out, p in procs:
            try:
                log, _ = p.communicate(timeout=900)
            except subprocess.TimeoutExpired:
                p.kill()
                log = "timeout"
            if p.returncode != 0 or not out.exists():
                ctx.obligation(f"worker({label})-completed", False, (log or "")[-800:])
                continue
            results.append((label, json.loads(out.read_text())))
            out.unlink()
    return results


def diff_paths(a, b):
    """paths (type-qualified) whose leaf digests differ between two runs of the same fixture"""
    out = []
    if a["types"] != b["types"] or len(a["leaves"]) != len(b["leaves"]):
        return ["<result types/count>"]
    for t, la, lb in zip(a["types"], a["leaves"], b["leaves"]):
        for k in sorted((set(la) | set(lb)) - {"__address_like__"}):
            if la.get(k) != lb.get(k):
                out.append(t + k)
    return sorted(set(out))


def strip_correspondence(ctx, gen_root):
    """Tie of Part F: for every image of every generated PDF, str() of the raw /ColorSpace value as pypdf prints it
    (recorded from the real library, with the harness's own reader address inside) goes through the Coq model of the
    stripping pattern and must give exactly what the implementation put into PdfImage.color_space."""
    from pypdf import PdfReader
    from sharepoint2text.parsing.router import get_extractor
    cases, infos = [], []
    for f in sorted((gen_root / "gen").glob("*.pdf")):
        data = f.read_bytes()
        try:
            impl = list(get_extractor(str(f))(io.BytesIO(data), str(f)))[0]
            by_name = {i.name: i for pg in impl.pages for i in pg.images}
            for page in PdfReader(io.BytesIO(data)).pages:
                xo = page["/Resources"]["/XObject"]
                for name in xo:
                    raw = str(xo[name].get("/ColorSpace", "unknown"))
                    got = by_name[str(name)].color_space
                    if all(ord(c) < 128 for c in raw + got):
                        cases.append(f"({coq_str(raw)}, {coq_str(got)})")
                        infos.append((f.name, str(name), raw, got))
        except Exception as e:  # noqa
            ctx.count("strip-corr:skipped")
    if not cases:
        ctx.obligation("correspondence:color_space==strip model", False, "no generated PDF image could be compared")
        return
    pre = "From S2T Require Import Lib.PyStr C06.Lib C06.Model C06.Corr.\n"
    ok, failing, log = coq_eval_shards(ctx, "strip", pre, "corr_strip", cases, shard=300, ty="str * str")
    ctx.traces += len(cases)
    ctx.obligation("correspondence:PdfImage.color_space==strip_ids(str(raw /ColorSpace)) on generated PDFs", ok and not failing,
                   (f"{len(failing)} of {len(cases)} disagree, first: {infos[failing[0]] if failing else ''} " + log[:300]))
    ctx.extra["strip_corr_cases"] = len(cases)


def inventory_archive_reorder(pkg: Pkg):
    """anything in archive_extractor.py that could re-order members or results: sorted / reversed / set / shuffle /
    .sort / .reverse / dict or set comprehensions -- the Coq model (Part G) has the results in member order"""
    out = []
    for rel, tree in pkg.mods.items():
        if not rel.endswith("archive_extractor.py"):
            continue
        for n in ast.walk(tree):
            fn = pkg.enclosing(n, (ast.FunctionDef, ast.AsyncFunctionDef))
            if fn is None or not (fn.name.startswith(("_extract_from", "_process", "read_archive", "_iter", "_read"))):
                continue
            if isinstance(n, ast.Call):
                f = n.func
                nm = f.id if isinstance(f, ast.Name) else f.attr if isinstance(f, ast.Attribute) else ""
                if nm in ("sorted", "reversed", "set", "frozenset", "shuffle", "sort", "reverse", "sample") and not in_logger_call(n):
                    out.append({"func": fn.name, "line": n.lineno, "what": nm + "()"})
            elif isinstance(n, (ast.SetComp, ast.DictComp)):
                out.append({"func": fn.name, "line": n.lineno, "what": type(n).__name__})
    return out


def archive_order_correspondence(ctx):
    """Tie of Part G: generated ZIP / TAR archives mixing ordinary members (one result), mbox members (several results),
    directories, hidden / __MACOSX / unsupported / nested-archive members, a member whose extractor raises, and (ZIP) a
    member with a bad CRC.  The oracles of the model (skip decision, what each member's own extractor yields) are
    recorded from the real code on the member alone; the Coq model then predicts the sequence read_archive yields."""
    import re as _re
    import tarfile
    from sharepoint2text.parsing.extractors import archive_extractor as ae
    from sharepoint2text.parsing.router import get_extractor, is_supported_file
    rng = ctx.rng
    mark = _re.compile(r"MARK(\d+)")

    def ids_of(results):
        out = []
        for r in results:
            m = mark.search(json.dumps(r.to_json(), default=repr))
            out.append(int(m.group(1)) if m else 0)
        return out

    def own_results(basename, data, full):
        got = []
        try:
            for r in get_extractor(basename)(io.BytesIO(data), path=full):
                got.append(r)
        except Exception:  # noqa   (_process_archive_entry keeps what was yielded before the exception)
            pass
        return ids_of(got)

    def should_skip(filename, basename):
        f = getattr(ae, "_should_skip_file", None)
        if f is not None:
            return bool(f(filename, basename))
        return basename.startswith(".") or filename.startswith("__MACOSX/") or not is_supported_file(basename) \
            or get_extractor(basename) is ae.read_archive

    cases, infos = [], []
    for c in range(ctx.n(40, 300)):
        kind = ("zip", "tar", "tar.gz")[c % 3]
        members, model = [], []
        nxt = 1 + 1000 * c
        for i in range(rng.randint(1, 12)):
            k = rng.choice(["txt", "txt", "csv", "md", "json", "html", "mbox", "dir", "hidden", "macosx", "bin", "nested", "broken", "crc"])
            mid = nxt
            nxt += 10
            d = f"d{rng.randint(0, 2)}/"
            dir_, unread = False, False
            if k == "dir":
                name, data, dir_ = f"{d}sub{i}/", b"", True
            elif k == "hidden":
                name, data = f"{d}.hidden{i}.txt", f"MARK{mid} hidden".encode()
            elif k == "macosx":
                name, data = f"__MACOSX/{d}m{i}.txt", f"MARK{mid} resource fork".encode()
            elif k == "bin":
                name, data = f"{d}blob{i}.bin", f"MARK{mid}".encode()
            elif k == "nested":
                name, data = f"{d}inner{i}.zip", make_zip([("x.txt", f"MARK{mid} nested".encode())])
            elif k == "broken":
                name, data = f"{d}broken{i}.docx", f"MARK{mid} not a zip".encode()
            elif k == "mbox":
                name = f"{d}box{i}.mbox"
                data = "".join(f"From u@example.org Mon Jul  1 08:15:00 2024\nFrom: u@example.org\nSubject: MARK{mid + j} subject\n"
                               f"Date: Mon, 1 Jul 2024 08:15:00 +0000\n\nbody {j}\n\n" for j in (1, 2)).encode()
            elif k == "html":
                name, data = f"{d}p{i}.html", f"<html><body><p>MARK{mid} page</p></body></html>".encode()
            elif k == "json":
                name, data = f"{d}j{i}.json", json.dumps({"v": f"MARK{mid}"}).encode()
            elif k == "crc" and kind == "zip":
                name, data, unread = f"{d}crc{i}.txt", f"MARK{mid} unreadable member padding padding".encode(), True
            else:
                ext = k if k in ("txt", "csv", "md") else "txt"
                name, data = f"{d}f{i}.{ext}", f"MARK{mid} text, a, b\n".encode()
            if any(name == n_ for n_, _ in members):
                continue
            members.append((name, data))
            base = os.path.basename(name)
            skip = False if dir_ else should_skip(name, base)
            res = [] if (dir_ or skip or unread) else own_results(base, data, f"pack.{kind}!/{name}")
            model.append((dir_, skip, False, unread, res))
        if kind == "zip":
            raw = make_zip([(n_, d_) for n_, d_ in members], corrupt={n_ for (n_, _), m in zip(members, model) if m[3]})
        else:
            buf = io.BytesIO()
            with tarfile.open(fileobj=buf, mode="w" if kind == "tar" else "w:gz") as tf:
                for n_, d_ in members:
                    ti = tarfile.TarInfo(n_.rstrip("/"))
                    if n_.endswith("/"):
                        ti.type = tarfile.DIRTYPE
                    ti.size = len(d_)
                    tf.addfile(ti, io.BytesIO(d_))
            raw = buf.getvalue()
        try:
            got = ids_of(list(get_extractor(f"pack.{kind}")(io.BytesIO(raw), f"pack.{kind}")))
            exc = None
        except Exception as e:  # noqa
            got, exc = [], type(e).__name__
        ctx.case(("archive-order", kind, tuple(n_ for n_, _ in members), tuple(got)), len(members) >= 2, kind=f"archive-order:{kind}")
        if exc:
            ctx.count("archive-order:raises:" + exc)
            continue
        ms = coq_list([f"(mkAM {coq_bool(a)} {coq_bool(b)} {coq_bool(c_)} {coq_bool(d_)} {coq_list([str(x) for x in r])}%N)"
                       for a, b, c_, d_, r in model])
        cases.append(f"({ms}, {coq_list([str(x) for x in got])}%N)")
        infos.append((kind, [n_ for n_, _ in members], got))
        # property oracle on the implementation: results in member order (ids grow with the member index)
        if got != sorted(got):
            ctx.finding(f"archive-result-order:{kind}", f"read_archive yields the results of a {kind} archive out of member order: {got} "
                        f"(members {[n_ for n_, _ in members]})", {"kind": kind, "members": members, "got": got})
    pre = "From Coq Require Import NArith List.\nFrom S2T Require Import Lib.PyStr C06.Lib C06.Model C06.Corr.\nImport ListNotations.\n"
    ok, failing, log = coq_eval_shards(ctx, "archive", pre, "corr_archive", cases, shard=200, ty="list (amember N) * list N")
    ctx.traces += len(cases)
    ctx.obligation("correspondence:read_archive result sequence==archive_results model (zip, tar, tar.gz)", ok and not failing,
                   f"{len(failing)} of {len(cases)} disagree, first: {infos[failing[0]] if failing else ''} " + log[:300])
    ctx.extra["archive_order_cases"] = len(cases)


def environment_sweep(ctx, resources, gen_root, generated):
    """common.env_sweep over a sample of inputs: every well-formed generated document (mails, mbox, archives with many
    members, formulas, pictures ...; size files up to 1 MiB) and the small fixtures.  Result = types + digest of the ordered
    list of to_json() of everything the extractor yields (absolute paths, so that the cwd variant is fair)."""
    import common
    from sharepoint2text.parsing.router import get_extractor, is_supported_file
    cases = []
    for g in generated:
        f = gen_root / g
        if g.startswith("gen/") and is_supported_file(str(f)) and f.stat().st_size <= (1 << 20) + 1:
            cases.append(str(f))
    fx = sorted((q for q in resources.rglob("*") if q.is_file() and is_supported_file(str(q)) and "password" not in str(q)
                 and q.stat().st_size <= 120_000), key=lambda q: (q.suffix, q.stat().st_size, q.name))
    seen = {}
    for q in fx:                         # at most 3 per extension
        if seen.setdefault(q.suffix.lower(), 0) < 3:
            seen[q.suffix.lower()] += 1
            cases.append(str(q))
    cases = cases[: ctx.n(140, 400)]

    def fn(path):
        data = Path(path).read_bytes()
        objs = list(get_extractor(path)(io.BytesIO(data), path))
        js = [o.to_json() for o in objs]
        return (tuple(type(o).__name__ for o in objs),
                hashlib.sha256(json.dumps(js, sort_keys=True, default=repr).encode("utf-8", "surrogatepass")).hexdigest()[:20])

    common.env_sweep(ctx, "extract(bytes,path)->to_json", fn, cases,
                     describe=lambda c: c.replace(str(gen_root), "@1").replace(str(resources), "@0"))


def stream_oracle(ctx):
    """serialization._bytesio_to_base64 and zip_bomb.validate_zip_bytesio on random streams / positions:
    the theorem's right-hand side (whole content returned, content and position as found) evaluated on the
    implementation, and the same cases evaluated by the Coq stream model."""
    import base64
    import zipfile
    from sharepoint2text.parsing.extractors import serialization
    from sharepoint2text.parsing.extractors.util import zip_bomb
    rng = ctx.rng
    cases = []
    for i in range(ctx.n(60, 600)):
        data = bytes(rng.randrange(256) for _ in range(rng.choice([0, 1, 2, 5, 17, 64])))
        pos = rng.choice([0, 0, len(data), rng.randint(0, len(data) + 3)])
        b = io.BytesIO(data)
        b.seek(pos)
        got = serialization._bytesio_to_base64(b)
        ok = (base64.b64decode(got) == data and b.tell() == pos and b.getvalue() == data)
        ctx.case(("b64", data, pos), len(data) > 0 and pos > 0, kind="stream:_bytesio_to_base64")
        if not ok:
            ctx.finding("stream-discipline:_bytesio_to_base64",
                        f"_bytesio_to_base64 on {len(data)} bytes at position {pos}: returned whole content="
                        f"{base64.b64decode(got) == data}, position after={b.tell()}, content kept={b.getvalue() == data}",
                        {"data": data, "position": pos})
        cases.append(f"(mkStream {coq_list([str(x) for x in data])}%N ({pos})%Z, {coq_list([str(x) for x in base64.b64decode(got)])}%N, ({b.tell()})%Z)")
    # the same property at the sizes where code may switch strategy (oracle only: literals of that size are not for Coq)
    for n in [x for x in size_boundaries(Pkg(REPO), ctx.tier)[0]]:
        data = bytes((i * 7 + n) % 251 for i in range(min(n, 4096))) * (n // 4096 + 1)
        data = data[:n]
        for pos in (0, n // 2, n, n + 3):
            b = io.BytesIO(data)
            b.seek(pos)
            got = serialization._bytesio_to_base64(b)
            ctx.case(("b64-big", n, pos), True, kind="stream:_bytesio_to_base64:boundary")
            if not (base64.b64decode(got) == data and b.tell() == pos and b.getvalue() == data):
                ctx.finding("stream-discipline:_bytesio_to_base64",
                            f"_bytesio_to_base64 on {n} bytes at position {pos}: returned whole content={base64.b64decode(got) == data} "
                            f"({len(base64.b64decode(got))} bytes), position after={b.tell()}", {"size": n, "position": pos})
    pre = "From Coq Require Import ZArith List.\nFrom S2T Require Import Lib.PyStr C06.Lib C06.Model C06.Corr.\nImport ListNotations.\n"
    ok, failing, log = coq_eval_shards(ctx, "stream", pre, "corr_stream", cases, shard=300, ty="stream * list N * Z")
    ctx.obligation("correspondence:_bytesio_to_base64==stream model", ok and not failing, f"{len(failing)} disagreements {log[:400]}")
    ctx.traces += len(cases)
    # validate_zip_bytesio: valid zip, garbage (raises), at several positions
    zb = io.BytesIO()
    with zipfile.ZipFile(zb, "w") as z:
        z.writestr("a.txt", "hello")
    for data in (zb.getvalue(), b"not a zip at all", b"", zb.getvalue()[:30]):
        for pos in (0, 3, len(data), len(data) + 2):
            b = io.BytesIO(data)
            b.seek(pos)
            try:
                zip_bomb.validate_zip_bytesio(b, source="c06")
                outcome = "ok"
            except Exception as e:  # noqa
                outcome = type(e).__name__
            ctx.case(("vz", data, pos, outcome), True, kind="stream:validate_zip_bytesio:" + outcome)
            if b.tell() != pos or b.getvalue() != data:
                ctx.finding("stream-discipline:validate_zip_bytesio",
                            f"validate_zip_bytesio ({outcome}) left position {b.tell()} (was {pos}) / content kept={b.getvalue() == data}",
                            {"data": data, "position": pos, "outcome": outcome})


# =========================================================================================== run
def run(ctx):
    import logging
    import tempfile
    import warnings
    logging.disable(logging.CRITICAL)
    warnings.filterwarnings("ignore")
    ctx.rule = ("non-trivial = a fixture compared under >= 2 hash seeds / processes, or an observer sequence of length >= 2 "
                "interleaved with to_json(), or an ODT object with >= 1 image and >= 1 paragraph")
    ctx.trusted += [
        "X: tools/props/c06.py ast inventories (set constructions and their consumers, nondeterminism sources and sinks, "
        "methods called on `file_like`, stores through self in observer methods) -- fail-closed classifier, trusted",
        "hand-written heap model of OdtContent observers (C06/Model.v), tied by vm_compute differential runs of the real "
        "OdtContent.iterate_units on generated objects",
        "oracles: Python set iteration order = arbitrary permutation (universally quantified); zipfile/olefile/openpyxl/pypdf "
        "access to the input stream = arbitrary sequence of read-only stream operations (universally quantified)",
        "validated only (testing): determinism of third-party parsers across processes / hash seeds / time on the fixtures",
        "reviewed list REVIEWED_OBJECT_SITES (tools/props/c06.py): stringification sites whose operand type the ast classifier "
        "cannot see; trusted to hold text / numbers / dates / paths at run time, checked dynamically by the address-token scan of "
        "every result and by the repeat / cross-process comparisons",
        "not modelled: what str()/repr() of third-party objects other than pypdf IndirectObject looks like; CPython's "
        "mimetypes suffix rule (oracle ext_of); import order effects inside third-party packages",
    ]
    ctx.assumptions += ["CPython 3.12 str.isspace set (re-derived from the interpreter on every run)",
                        "libraries given a stream opened for reading perform no write on it (checked by getvalue() on fixtures)"]

    import time as _time
    marks = [("start", _time.time())]
    ctx.extra["phase_s"] = {}

    def mark(name):
        ctx.extra["phase_s"][name] = round(_time.time() - marks[-1][1], 1)
        marks.append((name, _time.time()))

    # ---- X: inventories
    pkg = Pkg(REPO)
    sets, nd, stream, modes, writes = gen_sites(ctx, pkg)
    ctx.extra["set_sites"] = len(sets)
    ctx.extra["ordered_set_sites"] = [f"{x['file']}:{x['line']} {x['func']} {x['src']} {x['trace']}" for x in sets if x["use"] == "UOrdered"]
    ctx.extra["nd_sites"] = [f"{x['file']}:{x['line']} {x['kind']} -> {x['sink']}" for x in nd]
    ctx.extra["observer_writes"] = [f"{x['cls']}.{x['method']}:{x['line']} {x['what']}" for x in writes]
    ctx.extra["stream_methods"] = sorted({x["method"] for x in stream})
    ctx.count("X:set-sites", len(sets))
    ctx.count("X:nd-sites", len(nd))
    ctx.count("X:stream-sites", len(stream))
    ctx.obligation("interpreter-whitespace-set == C06.Lib.py_space",
                   [c for c in range(0x110000) if chr(c).isspace()] == PY_SPACE, "str.isspace set differs from the model")

    mime_reads = inventory_mime_reads(pkg)
    ctx.extra["mime_db_reads"] = [f"{x['file']}:{x['line']} {x['func']} {x['what']}" for x in mime_reads]
    for x in mime_reads:
        ctx.finding(f"mime-db-read:{x['file']}:{x['func']}",
                    f"{x['func']} ({x['file']}:{x['line']}) reads the process-global MIME database ({x['what']}): the result depends on "
                    "the host's mime.types and on mimetypes.add_type calls anywhere in the process (C06_content_type_global_db_refuted)",
                    {"site": x, "see": "mime-db-dependent:* findings of this run for concrete inputs"})
    mark("inventories")
    # ---- proofs
    ctx.prove("C06/Props.v", ["C06/Proofs.vo"], expected=[
        "C06_pure_observers_frame", "C06_iterate_units_mutates_refuted", "C06_observers_idempotent_partial",
        "C06_observers_idempotent_fixed", "C06_observer_values_fixed", "C06_seed_independent_refuted",
        "C06_seed_independent_fixed", "C06_neutral_uses_seed_independent", "C06_ordered_use_refuted",
        "C06_input_untouched_serialize",
        "C06_input_untouched_validate_zip", "C06_readonly_ops_keep_buffer", "C06_history_independent",
        "C06_history_dependent_refuted", "C06_content_type_global_db_refuted", "C06_content_type_private_db_independent",
        "C06_strip_reader_id_independent", "C06_strip_generation_zero_only_refuted", "C06_close_would_lose_buffer", "C06_archive_results_compositional",
        "C06_archive_results_follow_member_order", "C06_archive_member_contribution",
        "C06_pool_submission_order_schedule_independent", "C06_pool_as_completed_refuted", "C06_sorted_with_key_refuted"])
    ctx.prove("C06/Inst.v", ["Gen/C06Sites.vo", "C06/Corr.vo"], expected=["C06_set_sites_neutral"])
    ctx.prove("C06/InstNd.v", ["Gen/C06Sites.vo"], expected=["C06_nd_sites_no_result_sink"])
    ctx.prove("C06/InstPure.v", ["Gen/C06Sites.vo"], expected=["C06_input_stream_readonly"])
    ctx.prove("C06/InstObs.v", ["Gen/C06Sites.vo"], expected=["C06_observers_do_not_store"])
    ctx.prove("C06/InstGlobal.v", ["Gen/C06Sites.vo"], expected=["C06_no_stdlib_global_writes"])
    ctx.prove("C06/InstArchive.v", ["Gen/C06Sites.vo"], expected=["C06_archive_members_not_reordered"])
    ctx.prove("C06/InstStr.v", ["Gen/C06Sites.vo"], expected=["C06_stringify_sites_classified",
                                                                "C06_strip_patterns_are_the_modelled_one"])

    mark("proofs")
    # ---- D1: OdtContent.iterate_units vs the heap model
    rng = ctx.rng
    ncases = ctx.n(400, 4000)
    cases, infos = [], []
    for i in range(ncases):
        case = gen_odt_case(rng, rng.choice([0, 1, 2, 3, 5, 8, 12]))
        uv, heap_after = impl_iterate_units(case)
        cases.append(cq_case(case, uv, heap_after))
        infos.append(case)
        nontriv = bool(case["images"]) and bool(case["paragraphs"])
        ctx.case(("odt", json.dumps(case, sort_keys=True)), nontriv, kind="odt-object:" + ("headings" if any(
            p["outline"] is not None for p in case["paragraphs"]) else "flat"))
    pre = "From S2T Require Import Lib.PyStr C06.Lib C06.Model C06.Corr.\n"
    ty = "odt * heap * list (ounit image) * heap"
    okf, fail_f, logf = coq_eval_shards(ctx, "odt_fixed", pre, "(corr_case true)", cases, shard=250, ty=ty)
    oko, fail_o, logo = coq_eval_shards(ctx, "odt_orig", pre, "(corr_case false)", cases, shard=250, ty=ty)
    ctx.traces += len(cases)
    ctx.extra["odt_corr"] = {"cases": len(cases), "disagree_with_repaired_model": len(fail_f),
                             "disagree_with_model_of_code_as_found": len(fail_o)}
    detail = f"{len(fail_f)} of {len(cases)} cases disagree with the model of the repaired iterate_units; "
    if fail_f and oko and not fail_o:
        detail += "the implementation agrees with the model of the code AS FOUND (writes image.unit_name): C06_iterate_units_mutates_refuted applies; "
    if fail_f:
        detail += "first: " + json.dumps(infos[fail_f[0]])[:600]
    ctx.obligation("correspondence:OdtContent.iterate_units==heap model (repaired: no write to shared images)",
                   okf and not fail_f, detail + logf[:500])
    ctx.disagreements += len(fail_f)

    mark("odt-correspondence")
    # ---- D2: observer sequences on generated ODT objects and on every fixture result
    from sharepoint2text.parsing.router import get_extractor, is_supported_file
    resources = REPO / "sharepoint2text" / "tests" / "resources"
    seqs_per_obj = ctx.n(3, 12)

    def rand_seq():
        return [rng.choice(OBSERVERS + PSEUDO) for _ in range(rng.randint(2, 7))] + ["to_json"]

    FIXED_SEQ = ["to_json", "images.get_bytes", "to_json", "iterate_units", "images.get_bytes", "to_json", "attachments.iterate",
                 "to_json", "attachments.iterate", "to_json"]

    def observe(o, seq, where, replay):
        for blame, kind in observer_sequence_oracle(o, seq, where):
            ctx.finding(f"observer-impure:{blame}", f"{blame}() {kind} ({where}, sequence {seq})",
                        dict(replay, sequence=seq, accessor=blame, kind=kind))

    # the Coq witness of C06_iterate_units_mutates_refuted (Proofs.wit_c / wit_h), replayed on the real class first
    witness = {"title": "", "paragraphs": [{"text": "a", "style": None, "outline": None}], "tables": [],
               "heap": [{"caption": "", "description": "", "unit_name": None, "rest": "img"}], "images": [0], "full_text": "a"}
    for k, case in enumerate([witness] + infos[: ctx.n(200, 2000)]):
        c, _ = build_odt(case)
        seq = ["iterate_units", "to_json"] if k == 0 else rand_seq()
        observe(c, seq, "generated OdtContent object", {"case": case})
        ctx.case(("seq", json.dumps(case, sort_keys=True), tuple(seq)), True, kind="observer-seq:generated")
    # content objects holding error-placeholder images (payload None) next to ordinary ones
    ph, skipped = placeholder_objects()
    ctx.extra["placeholder_objects"] = [l for l, _ in ph]
    ctx.obligation("placeholder-image objects constructible for >= 6 content classes", len(ph) >= 6, "; ".join(skipped))
    for label, o in ph:
        for seq in [FIXED_SEQ] + [rand_seq() for _ in range(seqs_per_obj)]:
            observe(o, seq, f"in-memory {label} with a placeholder image (data=None)", {"object": label})
            ctx.case(("seq-ph", label, tuple(seq)), True, kind="observer-seq:placeholder")

    # payload sizes at which code may switch strategy (2^16 .. 2^22 and the size-like constants of the package +-1)
    big_sizes = [n for n in size_boundaries(pkg, ctx.tier)[0] if n >= 65535]
    ctx.extra["payload_sizes"] = big_sizes
    for label, o in large_payload_objects(big_sizes):
        if o is None:
            ctx.count("large-payload:" + label)
            continue
        for seq in (FIXED_SEQ, ["to_json", "images.get_bytes", "to_json", "images.get_bytes", "iterate_images", "to_json"]):
            observe(o, seq, f"in-memory {label}: image payload of that many bytes", {"object": label})
            ctx.case(("seq-big", label, tuple(seq)), True, kind="observer-seq:large-payload")

    # type-directed instances of every content dataclass: deep snapshot before/after every observer, each twice
    inst, failed, classes = typed_instances(rng, ctx.n(6, 40), exhaustive=(ctx.tier == "thorough"))
    built = {l.split("#")[0] for l, _ in inst}
    ctx.extra["typed_instance_classes"] = sorted(built)
    ctx.obligation("typed in-memory instances built for every content dataclass", built == set(classes) and len(classes) >= 15,
                   f"not built: {sorted(set(classes) - built)} {failed[:5]}")
    for label, o in inst:
        for blame, kind in snapshot_oracle(o):
            ctx.finding(f"observer-impure:{blame}", f"{blame}() {kind} (type-directed in-memory instance {label})",
                        {"instance": describe_instance(o), "label": label, "accessor": blame, "kind": kind,
                         "generator": "tools/props/c06.py typed_instances (seeded by VERIF_SEED)"})
        ctx.case(("typed", label, repr(canon(o))), True, kind="typed-instance:" + label.split("#")[0])

    td_obj = tempfile.TemporaryDirectory(dir="/var/tmp", prefix="c06-gen-")
    gen_root = Path(td_obj.name)
    generated = gen_documents(ctx, resources, gen_root)
    ctx.extra["generated_inputs"] = len(generated)
    inputs = [(str(p.relative_to(resources)), p) for p in sorted(resources.rglob("*")) if p.is_file()]
    inputs += [("@1/" + g, gen_root / g) for g in generated if not g.startswith("affix/")]
    for rel, p in inputs:
        if not is_supported_file(str(p)):
            continue
        try:
            objs = list(get_extractor(str(p))(io.BytesIO(p.read_bytes()), str(p)))
        except Exception:  # noqa  (encrypted / unsupported inputs: nothing to observe)
            ctx.count("input:raises")
            continue
        for o in objs[:3]:
            for seq in [FIXED_SEQ] + [rand_seq() for _ in range(seqs_per_obj - 1)]:
                observe(o, seq, f"input {rel}", {"input": rel, "generator": "tools/props/c06.py gen_documents (seeded by VERIF_SEED)"
                                                 if rel.startswith("@1/") else "fixture"})
                ctx.case(("seq", rel, tuple(seq)), True, kind="observer-seq:" + type(o).__name__)

    mark("observer-sequences")
    # ---- D3: same input in-process twice, fresh processes, >= 8 hash seeds (fixtures @0, generated inputs @1)
    seeds = [0, 0, 1, 2, 3, 7, 42, 1234, 99999, 4294967295][: ctx.n(10, 10)]
    if ctx.tier == "thorough":
        seeds += [rng.randrange(2 ** 32) for _ in range(14)]
    all_exts = sorted({p.suffix.lower() for p in list(resources.rglob("*")) + list(gen_root.rglob("*"))
                       if p.is_file() and is_supported_file(str(p))})
    with tempfile.TemporaryDirectory(dir="/var/tmp") as td:
        results = spawn_workers(ctx, [(sd, {"PYTHONHASHSEED": sd, "C06_REUSE": int(i == 0)}) for i, sd in enumerate(seeds)],
                                [resources, gen_root], Path(td))
        mark("seed-workers")
        # process HISTORY: every input also in a fresh process that touches only inputs of the same extension
        # (nothing else imported / extracted before) -- compared with the extraction after everything else
        solo = spawn_workers(ctx, [(e, {"C06_ONLY_EXT": e}) for e in all_exts], [resources, gen_root], Path(td), parallel=4)
        # targeted pairs B -> A: formats whose extractors (transitively) import a module that holds state
        pairs = history_pairs(pkg, all_exts)
        ctx.extra["history_pairs"] = [f"{b}->{a}" for b, a in pairs]
        paired = spawn_workers(ctx, [((b, a), {"C06_ONLY_EXT": f"{b},{a}"}) for b, a in pairs], [resources, gen_root],
                               Path(td), parallel=4)
        mark("history-workers")
        # host MIME database: emptied and hostile
        mimed = spawn_workers(ctx, [(m, {"C06_MIME": m}) for m in ("empty", "hostile")], [resources, gen_root], Path(td), parallel=2)
    ctx.extra["isolated_history_workers"] = [e for e, _ in solo]
    ctx.obligation("isolated-history workers cover every extension", len(solo) == len(all_exts), f"{len(solo)} of {len(all_exts)}")
    ctx.obligation("workers>=8-hash-seeds", len({s for s, _ in results}) >= 8, f"only {len(results)} workers completed")
    if results:
        base_seed, base = results[0]

        def input_bytes(rel):
            f = (gen_root / rel[3:]) if rel.startswith("@1/") else (resources / rel)
            import base64
            if f.stat().st_size <= 300_000:
                return {"_b64": base64.b64encode(f.read_bytes()).decode()}
            return {"note": "large input; fixture path relative to tests/resources, or regenerate with the same VERIF_SEED", "rel": rel}

        for rel in sorted(base):
            r0 = base[rel][0]
            origin = "generated input" if rel.startswith("@1/") else "fixture"
            for run_ in base[rel]:
                if run_.get("reuse"):
                    ctx.finding(f"buffer-reuse:{Path(rel).suffix.lower()}",
                                f"a second extraction from the SAME BytesIO object gives a different result for {origin} {rel}: {run_['reuse']}",
                                {"input": rel, "bytes": input_bytes(rel)})
                if not run_["input_same"]:
                    ctx.finding(f"input-modified:{Path(rel).suffix.lower()}",
                                f"extracting {origin} {rel} changed the caller's BytesIO content (now {run_.get('input_after')})",
                                {"input": rel, "bytes": input_bytes(rel), "after": run_.get("input_after")})
            # in-process repetition (every worker)
            for seed, res in results:
                a, b = res[rel]
                if a["digest"] != b["digest"]:
                    for path in diff_paths(a, b) or ["<digest only>"]:
                        ctx.finding(f"nondeterministic:{path}", f"{path} differs between two extractions of the same bytes in one "
                                    f"process ({origin} {rel}, PYTHONHASHSEED={seed})",
                                    {"input": rel, "bytes": input_bytes(rel), "path": path, "mode": "in-process twice", "hashseed": seed})
            # across processes / seeds
            for seed, res in results[1:]:
                a = res[rel][0]
                if a["digest"] != r0["digest"]:
                    mode = "fresh process, same PYTHONHASHSEED" if seed == base_seed else "different PYTHONHASHSEED"
                    for path in diff_paths(r0, a) or ["<digest only>"]:
                        ctx.finding(f"nondeterministic:{path}", f"{path} differs between processes ({mode}: {base_seed} vs {seed}; "
                                    f"{origin} {rel})", {"input": rel, "bytes": input_bytes(rel), "path": path, "mode": mode,
                                                         "hashseeds": [base_seed, seed]})
            for t_, lv in zip(r0["types"], r0["leaves"]):
                for path, sample in json.loads(lv.get("__address_like__", "{}")).items():
                    ctx.finding(f"address-like:{t_}{path}", f"{t_}{path} contains the repr of a live object / a memory address: {sample!r} "
                                f"({origin} {rel})", {"input": rel, "bytes": input_bytes(rel), "path": path, "sample": sample})
            ctx.case(("seeds", rel, r0["digest"]), len(results) >= 2,
                     kind=("generated" if rel.startswith("@1/") else "fixture") + "-x-seeds:" + (r0["types"][0] if r0["types"] else "raises"))
        for ext, res in solo:
            for rel in sorted(res):
                if rel not in base:
                    continue
                a, late = res[rel][0], base[rel][1]
                ctx.case(("history", rel, a["digest"]), True, kind="isolated-history:" + ext)
                if a["digest"] != late["digest"] and a["digest"] == res[rel][1]["digest"] and late["digest"] == base[rel][0]["digest"]:
                    origin = "generated input" if rel.startswith("@1/") else "fixture"
                    for path in diff_paths(late, a) or ["<digest only>"]:
                        ctx.finding(f"history-dependent:{path}",
                                    f"{path} depends on what the process did before: a fresh process that extracts only *{ext} inputs "
                                    f"vs. the same process after all other formats were extracted ({origin} {rel}, same PYTHONHASHSEED)",
                                    {"input": rel, "bytes": input_bytes(rel), "path": path,
                                     "mode": "isolated process history vs after all other inputs"})
        solo_by_ext = dict(solo)
        for (b_ext, a_ext), res in paired:
            iso = solo_by_ext.get(a_ext, {})
            for rel in sorted(res):
                if Path(rel).suffix.lower() != a_ext or rel not in iso:
                    continue
                a, alone = res[rel][0], iso[rel][0]
                ctx.case(("pair", b_ext, rel, a["digest"]), True, kind=f"history-pair:{b_ext}->{a_ext}")
                if a["digest"] != alone["digest"] and alone["digest"] == iso[rel][1]["digest"]:
                    for path in diff_paths(alone, a) or ["<digest only>"]:
                        ctx.finding(f"history-dependent:{path}",
                                    f"{path} depends on what the process did before: *{a_ext} extracted after the *{b_ext} inputs vs. "
                                    f"in a fresh process ({rel}, same PYTHONHASHSEED)",
                                    {"input": rel, "bytes": input_bytes(rel), "path": path, "mode": f"history pair {b_ext} -> {a_ext}"})
        for kind, res in mimed:
            for rel in sorted(res):
                if rel not in base:
                    continue
                a, ref = res[rel][0], base[rel][0]
                ctx.case(("mime", kind, rel, a["digest"]), True, kind="mime-db:" + kind)
                if a["digest"] != ref["digest"] and ref["digest"] == base[rel][1]["digest"] and a["digest"] == res[rel][1]["digest"]:
                    origin = "generated input" if rel.startswith("@1/") else "fixture"
                    for path in diff_paths(ref, a) or ["<digest only>"]:
                        ctx.finding(f"mime-db-dependent:{path}",
                                    f"{path} depends on the host's mimetypes database ({kind} database vs. this host's default; "
                                    f"{origin} {rel})",
                                    {"input": rel, "bytes": input_bytes(rel), "path": path, "mime_database": kind})
        ctx.extra["inputs_per_worker"] = len(base)
        ctx.extra["hash_seeds"] = [s for s, _ in results]
    mark("mime-workers+comparisons")
    strip_correspondence(ctx, gen_root)
    mark("strip-correspondence")
    archive_order_correspondence(ctx)
    mark("archive-order")
    environment_sweep(ctx, resources, gen_root, generated)
    mark("env-sweep")
    td_obj.cleanup()

    # ---- D4: stream position/content discipline of the two modelled helpers (tie of Part C)
    stream_oracle(ctx)
    mark("stream")

    # ---- inventory findings reach the implementation: ORDERED set sites / RESULT sinks are reported with their location
    for x in sets:
        if x["use"] == "UOrdered":
            ctx.extra.setdefault("unneutralised", []).append(f"{x['file']}:{x['line']}")


META = {
    "technique": "Coq proof over a heap model of the content observers, a permutation-oracle model of set iteration and a "
                 "stream model of the input buffer + ast inventories regenerated per run (set uses, nondeterminism sinks, "
                 "input-stream methods, observer stores) decided by vm_compute + differential runs: real iterate_units vs "
                 "model, observer sequences, every fixture under >= 8 hash seeds / fresh processes",
    "design_ref": "DESIGN.md §5 C06",
    "level_text": "Proved (kernel): every observer other than iterate_units leaves the heap untouched; OdtContent.iterate_units "
                  "as found changes a later to_json() (refutation with witness, replayed); with the repaired method every "
                  "observer sequence leaves to_json() and every observer value unchanged; set-iteration order cannot reach a "
                  "result at any inventoried site classified member/len/sorted/any-all (and does at list(set): refutation), "
                  "sorted(set) is seed independent; _bytesio_to_base64 and validate_zip_bytesio restore position and content for "
                  "every read-only library behaviour; no write to standard-library global state => the result is independent of "
                  "the process history; the IndirectObject stripping pattern removes id(reader) for every object number, generation "
                  "and address; a content type looked up in a private table is independent of host database and history (as found: "
                  "refuted). Validated only: cross-process / cross-seed / repeated extraction of all "
                  "fixtures (third-party parsers), input getvalue() unchanged.",
    "level_note": "Trusted: Coq kernel+VM; the ast inventories and their fail-closed classification (set uses, nondeterminism "
                  "sinks incl. local time and completion order, input-stream methods and owning wrappers, observer stores with alias "
                  "analysis, stdlib global writes, stringification sites with the reviewed list REVIEWED_OBJECT_SITES, stripping "
                  "patterns, archive re-ordering calls); the hand-written models (ODT observers heap, set order, stream, history, "
                  "content type, stripping pattern, archive result order), each tied by differential runs. Oracles (universally "
                  "quantified, recorded in the correspondences): set iteration order, library access to the input stream, "
                  "mimetypes suffix rule, _should_skip_file and each member extractor's own yields (archive order), scheduler "
                  "completion order. Cannot be modelled (tested only, sampled as listed in the evidence): determinism of third-party "
                  "parsers across processes / seeds / time zones / cwd / DEBUG logging / threads, str()/repr() of third-party objects "
                  "other than pypdf IndirectObject, runtime types behind the reviewed stringification sites, third-party monkey "
                  "patches (C15), 7z archive order (no writer in the harness; C10 covers the 7z member mapping), size constants "
                  "above the tier cap.",
}

if __name__ == "__main__":
    if len(sys.argv) > 1 and sys.argv[1] == "--worker":
        worker_main(sys.argv[2:])
